#!/bin/bash
# Builds the Coq development, extracts the model and compiles the driver (offline).
HERE="$(cd "$(dirname "$0")" && pwd)"
export PYTHONHASHSEED=0 RP2_REPO="${RP2_REPO:-/repo}" PYTHONDONTWRITEBYTECODE=1
export PYTHONPATH="$RP2_REPO/src"
cd "$HERE" && /venv/bin/python - <<'PY'
import sys
sys.path.insert(0, ".")
from harness import core
b = core.prepare()
print("translator:", b.translator)
print("make ok:", b.make_ok, "driver ok:", b.driver_ok, "failed:", b.failed, "wall", round(b.wall, 1))
if not (b.make_ok and b.driver_ok):
    print(b.make_log[-4000:])
    sys.exit(1)
PY
