#!/bin/bash
# Builds the Coq development, extracts the model and compiles the driver (offline).
HERE="$(cd "$(dirname "$0")" && pwd)"
export PYTHONHASHSEED=0 RP2_REPO="${RP2_REPO:-/repo}" PYTHONDONTWRITEBYTECODE=1
export PYTHONPATH="$RP2_REPO/src"
cd "$HERE" && /venv/bin/python - <<'PY'
import sys
sys.path.insert(0, ".")
from harness import core
b = core.prepare()
print("translator:", b.translator)
print("make ok:", b.make_ok, "driver ok:", b.driver_ok, "failed:", b.failed, "wall", round(b.wall, 1))
if not b.make_ok:
    # a .v file that no longer compiles is a broken proof obligation: it is reported (with a failing-input search) by the
    # checks of exactly the properties whose theorems depend on it, not by the setup
    print("files that did not compile:", b.failed)
    print(b.make_log[-3000:])
if not b.driver_ok:
    print("the executable model could not be built")
    sys.exit(1)
PY
