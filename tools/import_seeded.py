#!/usr/bin/env python3
"""Copy confirmed seeded changes (patch.diff, demo.py, notes.md, eval.json written by eval_mutants.py) into
/verif/seeded/<id>/ with a meta.json.  Only changes that apply, keep the 48 stable tests green and whose
demonstration passes on the original and fails on the changed tree are kept.
Usage: import_seeded.py /tmp/mut/out/C04/b [...]"""
import json
import os
import re
import shutil
import sys

VERIF = os.path.dirname(os.path.dirname(os.path.abspath(__file__)))


def main():
    for d in sys.argv[1:]:
        d = os.path.abspath(d.rstrip("/"))
        prop, var = d.split("/")[-2], d.split("/")[-1]
        sid = f"{prop}{var}"
        ev = json.load(open(os.path.join(d, "eval.json")))
        ok = ev.get("applies") and ev.get("tests_pass") and ev.get("demo_orig_rc") == 0 and ev.get("demo_mut_rc") not in (0, None)
        if not ok:
            print(f"{sid}: NOT confirmed, skipped: {ev.get('applies')} {ev.get('tests_pass')} {ev.get('demo_orig_rc')} {ev.get('demo_mut_rc')}")
            continue
        out = os.path.join(VERIF, "seeded", sid)
        os.makedirs(out, exist_ok=True)
        for f in ("patch.diff", "demo.py", "notes.md"):
            if os.path.exists(os.path.join(d, f)):
                shutil.copy(os.path.join(d, f), os.path.join(out, f))
        notes = open(os.path.join(d, "notes.md"), encoding="utf-8").read() if os.path.exists(os.path.join(d, "notes.md")) else ""
        files = sorted(set(re.findall(r"^\+\+\+ b/(\S+)", open(os.path.join(d, "patch.diff")).read(), flags=re.M)))
        caught = {c: {"exit": v["rc"], "lines": [l for l in v["lines"] if l.startswith("VIOLATION")], "what": v.get("what", "")}
                  for c, v in ev.get("checks", {}).items() if v["rc"] != 0}
        meta = {
            "id": sid, "breaks_property": prop, "files_changed": files,
            "origin": "fresh sub-agent given only the property text and a scratch worktree of /repo",
            "needs_to_manifest": first_para(notes, ("trigger", "circumstance", "manifest", "needs")),
            "confirmed": {
                "patch_applies_to_pinned_tree": True,
                "stable_tests": ev.get("tests_tail"),
                "demo_on_original_exit": ev.get("demo_orig_rc"), "demo_on_changed_tree_exit": ev.get("demo_mut_rc"),
                "demo_tail": ev.get("demo_mut_tail"),
                "how": "tools/eval_mutants.py: scratch worktree of /repo under /tmp/mutcheck, git apply, 48 stable tests with PYTHONPATH=<worktree>/src, "
                       "demo.py with RP2_SRC=/repo/src and RP2_SRC=<worktree>/src, then every registered check with RP2_REPO=<worktree> (quick tier, seed 1); worktree removed",
            },
            "checks_run": sorted(ev.get("checks", {})),
            "caught_by": caught,
            "target_check_catches": prop in caught,
        }
        json.dump(meta, open(os.path.join(out, "meta.json"), "w"), indent=1)
        print(f"{sid}: kept; caught by {sorted(caught)}")


def first_para(notes, keys):
    paras = [p.strip() for p in re.split(r"\n\s*\n", notes) if p.strip()]
    for p in paras:
        if any(k in p.lower()[:200] for k in keys):
            return p[:1200]
    return (paras[0][:1200] if paras else "")


if __name__ == "__main__":
    main()
