#!/bin/bash
ev=$1; shift
for id in "$@"; do
  case $id in
    C01) g="C01,C02,C17";; C02) g="C02,C01,C09,C10";; C03) g="C03,C11,C14";; C04) g="C04,C11,C06";; C05) g="C05,C11";;
    C06) g="C06,C10,C09";; C07) g="C07,C11,C13";; C08) g="C08,C07";; C09) g="C09,C15,C13";; C10) g="C10,C09,C13";;
    C11) g="C11,C13";; C12) g="C12,C16";; C13) g="C13,C10";; C14) g="C14";; C15) g="C15";; C16) g="C16,C01,C02";;
    C17) g="C17,C01";; C18) g="C18";; C19) g="C19,C13";; C20) g="C20";;
  esac
  /venv/bin/python /verif/tools/eval_mutants.py --evaldir $ev --checks $g /tmp/mut/out/$id/g
done
