#!/usr/bin/env python3
"""Evaluate seeded changes: for each mutant directory (patch.diff + demo.py)
  1. scratch worktree of /repo, apply the patch;
  2. the 48 stable tests must pass on the patched tree;
  3. demo.py must exit 0 on the original and non-zero on the patched tree;
  4. every registered check (or the ones given with --checks) is run from an evaluation worktree of
     /verif with RP2_REPO pointing at the patched tree; VIOLATION lines / exit codes are recorded.
Usage: eval_mutants.py [--evaldir /work/eval1] [--checks C01,C02] [--tier quick] <mutant dir> ...
Writes <mutant dir>/eval.json.  The scratch worktree is removed afterwards."""
import argparse
import json
import os
import subprocess
import sys
import time

TESTS = ("tests/test_accounting_method.py tests/test_balance.py tests/test_configuration.py tests/test_gain_loss.py "
         "tests/test_gain_loss_set.py tests/test_in_transaction.py tests/test_input_parser.py tests/test_intra_transaction.py "
         "tests/test_out_transaction.py tests/test_rp2_decimal.py tests/test_tax_engine.py tests/test_transaction_set.py").split()


def sh(cmd, cwd=None, env=None, timeout=3600):
    e = dict(os.environ)
    if env:
        e.update(env)
    p = subprocess.run(cmd, cwd=cwd, env=e, stdout=subprocess.PIPE, stderr=subprocess.STDOUT, text=True, timeout=timeout)
    return p.returncode, p.stdout


def main():
    ap = argparse.ArgumentParser()
    ap.add_argument("--evaldir", default="/work/eval1")
    ap.add_argument("--checks", default="")
    ap.add_argument("--tier", default="quick")
    ap.add_argument("--seed", default="1")
    ap.add_argument("dirs", nargs="+")
    a = ap.parse_args()
    man = json.load(open(os.path.join(a.evaldir, "MANIFEST.json")))
    checks = a.checks.split(",") if a.checks else [c["property_id"] for c in man["checks"]]
    for d in a.dirs:
        d = os.path.abspath(d)
        tag = d.strip("/").replace("/", "_")
        wt = f"/tmp/mutcheck/{tag}"
        res = {"dir": d, "checks": {}}
        try:
            res["checks"] = json.load(open(os.path.join(d, "eval.json"))).get("checks", {})   # keep earlier results of other checks
        except Exception:  # noqa: BLE001
            pass
        sh(["git", "-C", "/repo", "worktree", "remove", "--force", wt])
        rc, out = sh(["git", "-C", "/repo", "worktree", "add", "--detach", wt, "HEAD"])
        try:
            rc, out = sh(["git", "apply", os.path.join(d, "patch.diff")], cwd=wt)
            if rc != 0:     # /repo has moved on (fix commits): fall back to a three-way merge of the same change
                rc, out = sh(["git", "apply", "--3way", os.path.join(d, "patch.diff")], cwd=wt)
                if rc == 0:
                    sh(["git", "reset", "-q"], cwd=wt)
                    res["applied_3way"] = True
            res["applies"] = rc == 0
            if rc != 0:
                res["apply_log"] = out[-500:]
                continue
            t0 = time.time()
            rc, out = sh(["/venv/bin/python", "-m", "pytest", "-q", "-p", "no:cacheprovider", "--timeout=900"] + TESTS, cwd=wt,
                         env={"PYTHONPATH": wt + "/src"})
            res["tests_pass"] = rc == 0
            res["tests_tail"] = out.strip().splitlines()[-1] if out.strip() else ""
            demo = os.path.join(d, "demo.py")
            if os.path.exists(demo):
                rc0, o0 = sh(["/venv/bin/python", demo], cwd="/tmp", env={"RP2_SRC": "/repo/src"}, timeout=900)
                rc1, o1 = sh(["/venv/bin/python", demo], cwd="/tmp", env={"RP2_SRC": wt + "/src"}, timeout=900)
                res["demo_orig_rc"], res["demo_mut_rc"] = rc0, rc1
                res["demo_mut_tail"] = o1.strip().splitlines()[-3:]
            for c in checks:
                t1 = time.time()
                rc, out = sh(["./check", c, "--tier", a.tier], cwd=a.evaldir, env={"RP2_REPO": wt, "VERIF_SEED": a.seed}, timeout=7200)
                lines = [l for l in out.splitlines() if l.startswith(("VIOLATION", "KNOWN-FINDING"))]
                what = ""
                for l in lines:
                    if l.startswith("VIOLATION") and "replay=" in l:
                        p = l.split("replay=")[1].split()[0]
                        try:
                            what = json.load(open(p)).get("what", "")[:300]
                        except Exception:  # noqa: BLE001
                            pass
                res["checks"][c] = {"rc": rc, "lines": lines, "what": what, "wall": round(time.time() - t1, 1),
                                    "tail": out.strip().splitlines()[-2:]}
            res["wall"] = round(time.time() - t0, 1)
        finally:
            sh(["git", "-C", "/repo", "worktree", "remove", "--force", wt])
            json.dump(res, open(os.path.join(d, "eval.json"), "w"), indent=1)
            caught = [c for c, v in res["checks"].items() if v["rc"] != 0]
            print(f"{d}: applies={res.get('applies')} tests={res.get('tests_pass')} demo={res.get('demo_orig_rc')}/{res.get('demo_mut_rc')} "
                  f"caught_by={caught}", flush=True)


if __name__ == "__main__":
    main()
