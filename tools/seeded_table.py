#!/usr/bin/env python3
"""Rewrites the table of seeded changes in DESIGN.md (between the seeded-table markers) from seeded/*/meta.json."""
import glob
import json
import os
import re

VERIF = os.path.dirname(os.path.dirname(os.path.abspath(__file__)))


DESC = {
    "C01a": "re-push of the selected lot made conditional again (lot lost from the heap during an income event; HIFO/LOFO only)",
    "C01b": "no re-seek on timestamp advance when the new year's method is FIFO (carried lot keeps being consumed after a switch to FIFO)",
    "C02a": "AVL lot key built from wall-clock time instead of UTC (mixed offsets: earlier lot invisible, valid history rejected)",
    "C02b": "remainder of the in-use lot written back on every event change (same-timestamp events overspend a lot)",
    "C03a": "OutTransaction.is_earning() true for earn-typed types (a STAKING loss is reported as income, no lot consumed)",
    "C03b": "transfer taxable only if the fee is worth >= 0.005 fiat (fiat-precision comparison)",
    "C04a": "crypto-fee to fiat-fee conversion moved below the cost derivation (acquisition fee paid in crypto dropped from the cost basis)",
    "C04b": "transfer fee value = rounded(sent x price) - rounded(received x price) (catastrophic cancellation on huge many-digit amounts)",
    "C05a": "holding period from .replace(tzinfo=UTC) instead of instants (mixed offsets near the threshold)",
    "C05b": "lru_cache on is_long_term_capital_gains (GainLoss hashes by row ids only: collides across assets)",
    "C06a": "summary year taken from the UTC-normalised timestamp (non-UTC offset within hours of New Year)",
    "C06b": "long/short key of the summary recomputed from calendar dates (sold exactly 365 calendar days later but earlier in the day)",
    "C07a": "intra update computed from the old state for both sides (self-transfer: final = old + received)",
    "C07b": "balance replay cut on the UTC date (two cooperating edits; to-date boundary in a non-UTC offset)",
    "C08a": "balance replay sorted by (local date, timestamp) (mixed offsets straddling midnight: transient overdraft accepted / valid history rejected)",
    "C08b": "balance within the 1e-10 tolerance snapped to zero after every debit (repeated dust overdrafts never accumulate)",
    "C09a": "AVL lot key built from wall-clock time (a lot acquired after a disposal becomes its candidate bound under mixed offsets)",
    "C09b": "yearly totals cut by the to-date's year instead of the to-date (two cooperating sites)",
    "C10a": "yearly summary built from the already-filtered fraction set (from-date inside a year)",
    "C10b": "entry-set iterator filters on the UTC date (rows near midnight in a non-UTC offset shown in the wrong window)",
    "C11a": "fee split drops the exchange-supplied fiat_in_with_fee (needs crypto_fee and fiat_in_with_fee columns both mapped)",
    "C11b": "'.11f' -> '.11g': 11 significant instead of 11 decimal digits (numbers with a non-zero integer part)",
    "C12a": "received > sent accepted when the transfer's spot price is empty or 0 (two cooperating edits)",
    "C12b": "sheet scanning stops after the third TABLE END (faults after the last table are ignored)",
    "C13a": "in-lot sold % accumulated over the unfiltered fractions (sales after the to-date counted)",
    "C13b": "lot label k of 'k/n' from a local counter reset on lot change (non-FIFO interleaving or a from-date cutting a lot)",
    "C14a": "tax-report row counters keyed by transaction type instead of sheet (FEE/LOST/MOVE rows overwrite each other)",
    "C14b": "empty-sheet removal decided from counts that ignore the from-date (header-only sheets kept)",
    "C15a": "sold % loop merged into the unfiltered running-sum loop (needs a to-date and a later sale)",
    "C15b": "per-lot sold % kept in a scalar 'current lot' accumulator (non-FIFO: lot consumed in two separate runs)",
    "C16a": "average-price accumulator no longer aliases the ZERO sentinel (to-date before an asset's first acquisition: 0/0)",
    "C16b": "Tax sheet sized by taxable events instead of fractions (IndexError when one sale is split over ~22+ lots)",
    "C17a": "lru_cache on the heap sort key (lots hash by row id: key leaks between assets under hifo/lofo/lifo)",
    "C17b": "AVL lot key loses sub-second precision (lots within one second in non-chronological row order)",
    "C18a": "unexpected (non-RP2Error) exceptions log platform.platform(), which spawns `uname -p`",
    "C18b": "profiler stats file written to the current directory (only with RP2_ENABLE_PROFILER)",
    "C19a": "in-lot rows registered as link targets only if sold % is non-zero or the lot is taxable (dust sale: link lost / stale)",
    "C19b": "artificial fee transaction inherits the row id of its in-transaction (lot links point to the fee row)",
    "C01c": "AVL lot key built from wall-clock time (lots 'acquired at or before the disposal' decided on local time under mixed offsets)",
    "C02c": "re-push only when the event amount is smaller than the lot (an earn event at least as large as its lot drops the lot from the heap)",
    "C03c": "taxable transactions merged in a dict keyed by unique_id (rows sharing a tx hash are silently dropped)",
    "C04c": "supplied fiat_fee of an out-transaction honoured only together with fiat_out_no_fee (fee-only events lose the exchange-supplied fee value)",
    "C05c": "income events classified by (event - event).days >= period (LONG under generic with LONG_TERM_CAPITAL_GAINS=0)",
    "C06c": "summary key (year, type) re-read only when the event timestamp changes (same-instant events of different types merged)",
    "C07c": "out debit = crypto_taxable_amount + crypto_fee (FEE-typed outs counted twice in sent / final)",
    "C08c": "balance replay over the date-filtered sets (with -f the overdraft check only sees the window)",
    "C09c": "fraction-numbering dictionaries cleared in place (shared between the to-date view and the unfiltered set: counts include fractions after the to-date)",
    "C10c": "fraction numbering skips fractions before the from-date (k of n restarts at the window start)",
    "C11c": "row scanning stops at the TABLE END of the INTRA table (tables placed after INTRA are never read)",
    "C12c": "OUT type whitelist rewritten as a blacklist that forgets MOVE",
    "C13c": "YearlyGainLoss equality / hash without the long/short flag (one of the LONG / SHORT summary lines of a year is dropped)",
    "C14c": "LONG/SHORT label computed on the first fraction of an event and reused for its other fractions",
    "C15c": "holder balances collected with itertools.groupby over a list sorted by exchange (non-adjacent accounts of a holder overwrite each other)",
    "C16c": "open_positions tests the unsold cost with exact truthiness (a fully sold lot consumed in thirds keeps 3e-29: KeyError)",
    "C17c": "holders with a balance collected in a set (order of the per-holder Total lines depends on PYTHONHASHSEED)",
    "C18c": "existing report renamed to <name>.bak relative to the current directory instead of being deleted",
    "C19c": "Summary link row remembered per year, not per (asset, year) (an asset whose rows are all hidden links to the previous asset's row)",
    "C20c": "DONATE text of the JP sheet no longer cleared after every row (leaks into a later income row)",
    "C01d": "heap sort key memoised in a dict of the method object (lots hash by row id; the object is shared by all assets of a run)",
    "C02d": "lots re-sorted by (timestamp, internal_id as STRING) before the engine is initialised (same-instant lots on rows 9/10 hide one)",
    "C03d": "tax_report_us row cursor keyed by transaction type (FEE / LOST / MOVE rows overwrite each other on Investment Expenses)",
    "C04d": "taxable fiat value of income = fiat_in_no_fee instead of fiat_in_with_fee (income row with a supplied with-fee value or a fee)",
    "C05d": "yearly-summary key built once per taxable event (a disposal spanning lots on both sides of the threshold lands on one line)",
    "C06d": "break-even fractions (gain exactly 0) skipped when the yearly lines are accumulated",
    "C07d": "per-holder totals of the Account Balances table via itertools.groupby over rows sorted by exchange",
    "C08d": "out debit = crypto_balance_change (the optional supplied crypto_out_with_fee) instead of amount + fee",
    "C09d": "lot-candidate bound and lot sanity check at calendar-day granularity (two cooperating edits: a lot bought later the same day is used)",
    "C10d": "taxable events collected from the date-FILTERED intra set (fee-bearing transfers before the from-date never reach the matcher)",
    "C11d": "empty fiat_in_with_fee defaults from crypto_in x spot + fee instead of the supplied fiat_in_no_fee + fee",
    "C12d": "crypto-fee split re-creates the row under the SHEET's asset (a row naming another configured asset is booked silently)",
    "C13d": "average price from fiat_in_no_fee + fiat_fee instead of fiat_in_with_fee",
    "C14d": "'Date acquired' text cached per InTransaction across assets (lots hash by row id)",
    "C15d": "lot cost = fiat_in_no_fee + fiat_fee instead of fiat_in_with_fee",
    "C16d": "fraction numbering cuts at the end of the to-date in UTC while the iterator cuts on the local date (KeyError in the full report)",
    "C17d": "open-positions number format variable hoisted out of the per-asset loop (a cheap asset's format leaks to later assets)",
    "C18d": "plugin loader prepends the package only to dot-less names (a dotted [accounting_methods] value imports an arbitrary module)",
    "C19d": "first row of a year decided by the unfiltered predecessor (get_parent) (from-date inside a year: Summary lines lose their link)",
    "C20d": "fee-less transfers skipped before grouping by year (a year holding only such transfers loses its sheet and summary line)",
    "C20a": "closing-balance row kept in generator state keyed by year and shared across assets (later-starting asset references another asset's year)",
    "C20b": "transactions grouped into year sheets by UTC year (non-UTC timestamp near New Year)",
    "C01e": "same-timestamp transactions re-sorted by internal id compared as a string (row 10 before row 9)",
    "C02e": "lots acquired after the to-date not loaded into the accounting engine (a disposal before the to-date keeps different lots under LIFO/HIFO; result depends on -t)",
    "C03e": "parser: crypto fee of an earn-typed IN row is not split into a FEE disposal (fee never taxed; parser path only)",
    "C04e": "parser: the re-created acquisition of a crypto-fee IN row drops the supplied fiat_in_with_fee (parser path only)",
    "C05e": "parser: the re-created acquisition of a crypto-fee IN row loses its sub-second part (holding period at the threshold)",
    "C06e": "to-date applied to the yearly summary per year instead of per day (three cooperating hunks)",
    "C07e": "parser: crypto fee of an earning IN row not modelled as a fee out-flow (balances off by the fee; parser path only)",
    "C08e": "self-transfer: read-both-then-write-both in the balance replay (received side overwrites the debit)",
    "C09e": "sold % loop fused into the unfiltered running-sum loop (open-position cost basis ignores the to-date)",
    "C10e": "duplicate() no longer forces a re-sort + filtered views created after the yearly summary (stale sort state; two cooperating edits)",
    "C11e": "parser: artificial fee disposal loses the sub-second part of its timestamp",
    "C12e": "-a selection rewritten as a filter over the configured assets (unknown asset: empty run instead of an error)",
    "C13e": "out-flow running sums built from crypto_taxable_amount / crypto_deduction (FEE-typed outs shift amount into the fee column)",
    "C14e": "tax reports treat every row of an earn-typed sheet as an earning (STAKING-typed OUT rows lose their lot columns)",
    "C15e": "open positions drop lots whose remaining cost rounds to 0.00 (weights and totals no longer over all unsold lots)",
    "C16e": "AVL key pads the internal id on the wrong side (row 10 sorts before row 9 among equal-instant lots)",
    "C17e": "LOFO breaks equal-price ties by row instead of acquisition time (two cooperating sites)",
    "C18e": "remote $ref (json-schema.org) in the JSON configuration schema (resolved over the network for deprecated JSON configs with headers)",
    "C19e": "Summary link rows keyed by the UTC year of the event (link points at another year's block under non-UTC offsets)",
    "C20e": "jp transfer row decided by the yen value of the fee instead of the fee (zero-price or tiny fee: row dropped)",
    "C01f": "method and lot candidates of the 'current year' cached and refreshed only when the event year increases (local years not monotone under mixed offsets)",
    "C02f": "parser: both transactions derived from a crypto-fee IN row re-serialise the timestamp without the sub-second part (a disposal earlier in the same second sees the lot)",
    "C03f": "EntrySetIterator compares UTC instants with window bounds (taxable events near the boundary in a non-UTC offset drop out of the window)",
    "C04f": "RP2Decimal gains a tolerance-quantised __hash__ + pro-rating formula behind lru_cache (dust fiat totals < 5e-14 collide; two cooperating edits)",
    "C05f": "is_long_term_capital_gains: 'no lot' guard replaced by transaction_type.is_earn_type() (STAKING-typed OUT disposals always SHORT)",
    "C06f": "yearly summary built per year-run with takewhile / groupby (a second run of the same local year is dropped)",
    "C07f": "balance replay takes out-transactions from the from-date-filtered set (debits before -f lost)",
    "C08f": "parser: artificial fee disposal loses the sub-second part (fee debited before the credit of its own row: false overdraft)",
    "C09f": "taxable events added in sorted(timestamp, internal_id) order, ids compared as strings (rows 9/10 swap when later rows shift them)",
    "C10f": "window upper bound precomputed as 23:59:59 without the sub-second tail (last second of the to-date hidden)",
    "C11f": "parse_ods builds the three transaction sets with the configuration's from/to dates (out-of-window rows never reach the computation)",
    "C12f": "repeated-table detection remembers the keyword text instead of the table kind ('OUT' then 'out' accepted)",
    "C13f": "EntrySetIterator checks the from-date only on the leading entries (later entry with an earlier local day let through)",
    "C14f": "date columns formatted through an lru_cache keyed by aware datetimes (equal instants with different offsets share one text)",
    "C15f": "sold % lot filter compares UTC instants with the window (lot bought late on the to-date in a negative offset dropped)",
    "C16f": "balance ledger merged with heapq.merge(IN, OUT, INTRA) (equal instants: disposal before the transfer that funds it)",
    "C17f": "Summary link-row dictionary keyed by year alone (entries of an earlier asset leak into the next one under -f)",
    "C18f": "open_ods copies the input into a SpooledTemporaryFile (inputs above 1 MiB spill to an unnamed file in /tmp)",
    "C19f": "In-Out row map keyed by asset name glued to the row id, never cleared ('ETH'+'23' = 'ETH2'+'3')",
    "C20f": "jp out-transaction fee = crypto_fee * spot only (a fee charged in fiat shows as 0)",
    "C03g": "IntraTransaction.is_taxable() = 0 < fee < sent (a transfer where nothing arrives is no longer taxable)",
    "C10g": "rp2_main collapses the [accounting_methods] schedule to the methods in force inside the -f/-t window (events before the window re-matched with another method)",
    "C11g": "parser: both transactions derived from a crypto-fee IN row get their timestamp normalised to UTC (local day / tax year of the row changes)",
    "C12g": "-m conflict with [accounting_methods] detected by looking for the literal tokens -m / --method in sys.argv (--method=X, -mX, --meth X slip through; two cooperating edits)",
    "C14g": "tax report sheets grown 'by the rows that are missing' per type from the same first free row (Investment Expenses: FEE + LOST + MOVE overflow, IndexError)",
    "C16g": "parser reads row[:configuration.last_column + 1], last_column forgets the intra header (layouts whose INTRA table is the widest)",
    "C17g": "AVL lot key uses astimezone() without an argument (machine time zone: results depend on TZ inside the repeated hour at the end of daylight saving)",
    "C18g": "report path .resolve()d before the stale report is unlinked (a symlink named like a report redirects delete and write outside the output directory)",
    "C19g": "In-Out row lookup memoises the last transaction resolved, not reset per asset (first Tax row of the next asset links wrongly)",
    "C20g": "jp year grouping by heapq.merge + groupby(year) with dict assignment (interleaved local years: earlier group of a year overwritten)",
}


def one_line(meta, d):
    if meta['id'] in DESC:
        return DESC[meta['id']]
    notes = ""
    try:
        notes = open(os.path.join(d, "notes.md"), encoding="utf-8").read()
    except OSError:
        pass
    title = ""
    for l in notes.splitlines():
        l = l.strip().lstrip("#").strip()
        if len(l) > 15 and not l.lower().startswith(("notes", "mutant", "c0", "c1", "c2")):
            title = l
            break
    return (title or ", ".join(meta["files_changed"]))[:110].replace("|", "/")


def main():
    rows = []
    for p in sorted(glob.glob(os.path.join(VERIF, "seeded", "*", "meta.json"))):
        m = json.load(open(p))
        d = os.path.dirname(p)
        prop = m["breaks_property"]
        cb = m.get("caught_by", {})
        tgt = cb.get(prop)
        if tgt is None:
            how = "**missed**"
        elif any("no-failing-input-found" in l for l in tgt["lines"]):
            how = "proof/correspondence only"
        else:
            how = "input"
        others = ", ".join(sorted(c for c in cb if c != prop)) or "-"
        rows.append(f"| {m['id']} | {', '.join(os.path.basename(f) for f in m['files_changed'])} | {one_line(m, d)} | {how} | {others} |")
    table = "| id | file(s) changed | change | target check | also exit 1 |\n|---|---|---|---|---|\n" + "\n".join(rows)
    p = os.path.join(VERIF, "DESIGN.md")
    s = open(p, encoding="utf-8").read()
    block = "<!-- seeded-table -->\n" + table + "\n<!-- /seeded-table -->"
    if "SEEDED_TABLE" in s:
        s = s.replace("SEEDED_TABLE", block)
    else:
        s = re.sub(r"<!-- seeded-table -->.*?<!-- /seeded-table -->", lambda _: block, s, flags=re.S)
    open(p, "w", encoding="utf-8").write(s)
    print(len(rows), "rows")


if __name__ == "__main__":
    main()
