"""One report generation in a fresh interpreter, exactly as one CLI run does it: set the
generation language, build the Configuration, construct the transactions of every asset (sorted),
compute_tax each, then call ONE generator plugin on the resulting asset -> ComputedData map and
read the produced .ods back.  stdin: one JSON job, stdout: one JSON result.

job = {"multi": <multi-asset case, see l5.gen_multi>, "generator": "rp2_full_report" | "open_positions" |
       "tax_report_us" | "tax_report_ie" | "tax_report_jp", "extra_ini": "..."}
Optional end-to-end input: job["input"] = "ods" with job["ini"] (text of the configuration file) and job["sheets"]
({asset: rows of cell values}): the files are written to disk and every asset's InputData comes from
Configuration + open_ods + parse_ods (exactly as rp2_main does) instead of the constructors; the result then also carries
"parsed": {asset: {"ins"/"outs"/"intras": the parsed transactions, each with its row id, in set order}}.
"""
import json
import os
import shutil
import sys
import tempfile
import traceback

HERE = os.path.dirname(os.path.abspath(__file__))
sys.path.insert(0, os.path.dirname(HERE))
REPO = os.environ.get("RP2_REPO", "/repo")

GEN_MODULE = {
    "rp2_full_report": "rp2.plugin.report.rp2_full_report",
    "open_positions": "rp2.plugin.report.open_positions",
    "tax_report_us": "rp2.plugin.report.us.tax_report_us",
    "tax_report_ie": "rp2.plugin.report.ie.tax_report_ie",
    "tax_report_jp": "rp2.plugin.report.jp.tax_report_jp",
}


def read_ods(path):
    import ezodf
    doc = ezodf.opendoc(path)
    sheets = []
    for sh in doc.sheets:
        cells = []
        nrows, ncols = sh.nrows(), sh.ncols()
        for r in range(nrows):
            for c in range(ncols):
                x = sh[r, c]
                v, f, t = x.value, x.formula, x.value_type
                if f is None and (v is None or v == ""):
                    continue
                if isinstance(v, float):
                    v = {"float": v.hex()}
                elif not isinstance(v, (str, bool, int)) and v is not None:
                    v = {"other": repr(v)}
                cells.append([r, c, t, v, f])
        sheets.append({"name": sh.name, "nrows": nrows, "ncols": ncols, "cells": cells})
    return sheets


def dump_parsed(input_data, exchanges, holders):
    """every transaction of a parsed InputData with the fields the parser gave it (amounts in 1e-11 units, fiat as exact
    (m, e) pairs), in the iteration order of the unfiltered sets"""
    from datetime import datetime, timedelta, timezone
    from harness import hist, impl
    epoch = datetime(1970, 1, 1, tzinfo=timezone.utc)
    P = lambda x: list(impl.norm_pair(*impl.dec_pair(x)))  # noqa: E731
    ts = lambda t: [(t - epoch) // timedelta(microseconds=1), int(t.utcoffset().total_seconds())]  # noqa: E731
    d = {"ins": [], "outs": [], "intras": []}
    for t in input_data.unfiltered_in_transaction_set:
        d["ins"].append({"row": t.row, "ts": ts(t.timestamp), "exch": exchanges.index(t.exchange), "holder": holders.index(t.holder),
                         "type": t.transaction_type.name, "spot": hist.units(t.spot_price), "crypto_in": hist.units(t.crypto_in),
                         "crypto_fee_parsed": hist.units(t.crypto_fee), "fiat": [P(t.fiat_in_no_fee), P(t.fiat_in_with_fee), P(t.fiat_fee)],
                         "uid": t.unique_id, "notes": t.notes})
    for t in input_data.unfiltered_out_transaction_set:
        d["outs"].append({"row": t.row, "ts": ts(t.timestamp), "exch": exchanges.index(t.exchange), "holder": holders.index(t.holder),
                          "type": t.transaction_type.name, "spot": hist.units(t.spot_price), "crypto_out_no_fee": hist.units(t.crypto_out_no_fee),
                          "crypto_fee": hist.units(t.crypto_fee), "crypto_out_with_fee_parsed": hist.units(t.crypto_out_with_fee),
                          "fiat": [P(t.fiat_out_no_fee), P(t.fiat_fee)], "uid": t.unique_id, "notes": t.notes})
    for t in input_data.unfiltered_intra_transaction_set:
        d["intras"].append({"row": t.row, "ts": ts(t.timestamp), "from_exch": exchanges.index(t.from_exchange),
                            "from_holder": holders.index(t.from_holder), "to_exch": exchanges.index(t.to_exchange),
                            "to_holder": holders.index(t.to_holder), "spot": hist.units(t.spot_price), "crypto_sent": hist.units(t.crypto_sent),
                            "crypto_received": hist.units(t.crypto_received), "fiat": [P(t.fiat_fee)], "uid": t.unique_id, "notes": t.notes})
    return d


def main():
    job = json.load(sys.stdin)
    multi = job["multi"]
    tmp = tempfile.mkdtemp(prefix="rp2l5_")
    os.chdir(tmp)
    sys.path.insert(0, os.path.join(REPO, "src"))
    import logging
    logging.disable(logging.CRITICAL)
    res = {}
    try:
        from rp2.localization import set_generation_language
        set_generation_language(multi["lang"])
        from harness import impl, hist
        import importlib
        from prezzemolo.avl_tree import AVLTree
        from rp2.accounting_engine import AccountingEngine
        from rp2.input_data import InputData
        from rp2.transaction_set import TransactionSet
        from rp2.tax_engine import compute_tax
        country = impl.country_obj(multi["country"], multi.get("env"))
        names = [a["asset"] for a in multi["assets"]]
        ex, ho = multi["exchanges"], multi["holders"]
        handle = None
        if job.get("input") == "ods":
            # end-to-end: real files, parsed by rp2 itself
            from harness import l1
            from rp2.configuration import Configuration, MIN_DATE, MAX_DATE
            from rp2.ods_parser import open_ods, parse_ods
            ini_path, ods_path = os.path.join(tmp, "e2e.ini"), os.path.join(tmp, "e2e.ods")
            with open(ini_path, "w", encoding="utf-8") as f:
                f.write(job["ini"])
            l1.write_ods(ods_path, job["sheets"])
            cfg = Configuration(ini_path, country,
                                from_date=MIN_DATE if multi.get("from") is None else impl.date_of_day(multi["from"]),
                                to_date=MAX_DATE if multi.get("to") is None else impl.date_of_day(multi["to"]),
                                allow_negative_balances=multi.get("allow_neg", False))
            handle = open_ods(cfg, ods_path)
            res["parsed"] = {}
        else:
            cfg = impl.make_config(country, names, ex, ho, multi.get("from"), multi.get("to"), multi.get("allow_neg", False),
                                   extra_ini=job.get("extra_ini", ""))
        tree = AVLTree()
        y2m = {}
        for y, m in multi["sched"]:
            mod = importlib.import_module(f"rp2.plugin.accounting_method.{m}")
            tree.insert_node(y, mod.AccountingMethod())
            y2m[y] = m
        engine = AccountingEngine(years_2_methods=tree)
        a2c = {}
        dumps = {}
        for case in sorted(multi["assets"], key=lambda c: c["asset"]):
            a = case["asset"]
            if handle is not None:
                input_data = parse_ods(cfg, a, handle)
                res["parsed"][a] = dump_parsed(input_data, ex, ho)
                computed = compute_tax(cfg, engine, input_data)
                a2c[a] = computed
                dumps[a] = hist.dump(computed, full=True)
                dumps[a]["all_fractions"] = [[g.taxable_event.row, g.acquired_lot.row if g.acquired_lot else None, hist.units(g.crypto_amount)]
                                             for g in computed.gain_loss_set._entry_list]  # noqa: SLF001
                continue
            in_set = TransactionSet(cfg, "IN", a)
            out_set = TransactionSet(cfg, "OUT", a)
            intra_set = TransactionSet(cfg, "INTRA", a)
            for r in case["ins"]:
                in_set.add_entry(impl.mk_in(cfg, a, ex, ho, r))
            for r in case["outs"]:
                out_set.add_entry(impl.mk_out(cfg, a, ex, ho, r))
            for r in case["intras"]:
                intra_set.add_entry(impl.mk_intra(cfg, a, ex, ho, r))
            input_data = InputData(a, in_set, out_set, intra_set, cfg.from_date, cfg.to_date)
            computed = compute_tax(cfg, engine, input_data)
            a2c[a] = computed
            dumps[a] = hist.dump(computed, full=True)
            # the unfiltered fractions (what the matcher produced), for the model's input
            dumps[a]["all_fractions"] = [[g.taxable_event.row, g.acquired_lot.row if g.acquired_lot else None, hist.units(g.crypto_amount)]
                                         for g in computed.gain_loss_set._entry_list]  # noqa: SLF001  (unfiltered list)
        res["computed"] = dumps
        res["stage"] = "computed"
        gen_mod = importlib.import_module(GEN_MODULE[job["generator"]])
        gen = gen_mod.Generator()
        outdir = os.path.join(tmp, "out")
        os.makedirs(outdir)
        gen.generate(country=country, years_2_accounting_method_names=y2m, asset_to_computed_data=a2c,
                     output_dir_path=outdir, output_file_prefix="p_", from_date=cfg.from_date, to_date=cfg.to_date,
                     generation_language=multi["lang"])
        files = sorted(os.listdir(outdir))
        res["files"] = files
        res["sheets"] = read_ods(os.path.join(outdir, files[0])) if files else []
        res["stage"] = "generated"
    except BaseException as exc:  # noqa: BLE001
        res["err"] = type(exc).__name__
        res["msg"] = str(exc)[:400]
        res["trace"] = traceback.format_exc()[-1500:]
        try:
            res["files"] = sorted(os.listdir(os.path.join(tmp, "out")))
        except OSError:
            res["files"] = []
    finally:
        os.chdir("/")
        shutil.rmtree(tmp, ignore_errors=True)
        cfgtmp = getattr(sys.modules.get("harness.impl"), "_state", {}).get("tmp")
        if cfgtmp:
            shutil.rmtree(cfgtmp, ignore_errors=True)
    json.dump(res, sys.stdout)


if __name__ == "__main__":
    main()
