"""Independent oracles, written from the property texts (not from rp2, not from the Coq model),
used to judge the implementation's own output and to search for failing inputs."""
from decimal import Decimal, getcontext
from fractions import Fraction

from harness import hist

getcontext().prec = 31
U11 = Fraction(1, 10 ** 11)


def D(u):
    return Decimal(u).scaleb(-11)


def frac_of_pair(p):
    m, e = p
    return Fraction(m) * (Fraction(10) ** e)


def dec_of_pair(p):
    m, e = p
    return Decimal(m).scaleb(e)


# ----------------------------------------------------------------------------- fiat values (exact rationals)
def in_cost_with_fee(r):
    """lot's fiat cost including acquisition fee; exchange-supplied values win.  The fiat fields are integers in 1e-11 units,
    or exact rationals 'n/d' in the same unit (effective rows of the end-to-end stream, hist.split_case): Fraction() reads both"""
    if r.get("fiat_in_with_fee") is not None:
        return Fraction(r["fiat_in_with_fee"]) * U11
    no_fee = Fraction(r["fiat_in_no_fee"]) * U11 if r.get("fiat_in_no_fee") is not None else Fraction(r["crypto_in"] * r["spot"]) * U11 * U11
    if r.get("crypto_fee") is not None and r.get("fiat_fee") is None:
        fee = Fraction(r["crypto_fee"] * r["spot"]) * U11 * U11
    else:
        fee = Fraction(r.get("fiat_fee") or 0) * U11
    return no_fee + fee


def out_total(r):
    return r["crypto_out_with_fee"] if r.get("crypto_out_with_fee") is not None else r["crypto_out_no_fee"] + r["crypto_fee"]


def event_taxable_fiat(kind, r):
    """sale value excluding fee; fee value for fee-only events and transfer fees; fiat value for income"""
    if kind == "in":
        return in_cost_with_fee(r)
    if kind == "out":
        if r["type"] == "FEE":
            return Fraction(r["fiat_fee"]) * U11 if r.get("fiat_fee") is not None else Fraction(r["crypto_fee"] * r["spot"]) * U11 * U11
        return Fraction(r["fiat_out_no_fee"]) * U11 if r.get("fiat_out_no_fee") is not None else Fraction(r["crypto_out_no_fee"] * r["spot"]) * U11 * U11
    fee = r["crypto_sent"] - r["crypto_received"]
    return Fraction(fee * (r.get("spot") or 0)) * U11 * U11


def event_total_amount(kind, r):
    if kind == "in":
        return r["crypto_in"]
    if kind == "out":
        return out_total(r)
    return r["crypto_sent"] - r["crypto_received"]


def rows_by_id(case):
    d = {}
    for k, name in (("ins", "in"), ("outs", "out"), ("intras", "intra")):
        for r in case[k]:
            d.setdefault(r["row"], []).append((name, r))
    return d


def event_row(case, row, earn):
    for kind, r in rows_by_id(case).get(row, []):
        if earn and kind == "in":
            return kind, r
        if not earn and kind != "in":
            return kind, r
    return None


def event_type(kind, r):
    return "MOVE" if kind == "intra" else r["type"]


# ----------------------------------------------------------------------------- balances
def replay_order(case, to_day=None):
    srt = lambda l: sorted(l, key=lambda r: r["ts"][0])  # noqa: E731
    seq = [("in", r) for r in srt(case["ins"])] + [("intra", r) for r in srt(case["intras"])] + [("out", r) for r in srt(case["outs"])]
    seq = sorted(seq, key=lambda x: x[1]["ts"][0])
    out = []
    for kind, r in seq:
        if to_day is not None and hist.local_day(r["ts"]) > to_day:
            break                                      # RP2 stops at the first later-dated entry
        out.append((kind, r))
    return out


def flows(case, to_day=None, by_date=False):
    """per account [final, acquired, sent, received] over transactions up to the to-date.
    by_date=True: every transaction whose own date is <= to_day (the property's wording)."""
    acc = {}
    if by_date:
        seq = [(k, r) for k, r in replay_order(case, None) if to_day is None or hist.local_day(r["ts"]) <= to_day]
    else:
        seq = replay_order(case, to_day)
    for kind, r in seq:
        if kind == "in":
            a = acc.setdefault((r["exch"], r["holder"]), [0, 0, 0, 0])
            a[1] += r["crypto_in"]
            a[0] += r["crypto_in"]
        elif kind == "intra":
            a = acc.setdefault((r["from_exch"], r["from_holder"]), [0, 0, 0, 0])
            a[2] += r["crypto_sent"]
            a[0] -= r["crypto_sent"]
            b = acc.setdefault((r["to_exch"], r["to_holder"]), [0, 0, 0, 0])
            b[3] += r["crypto_received"]
            b[0] += r["crypto_received"]
        else:
            a = acc.setdefault((r["exch"], r["holder"]), [0, 0, 0, 0])
            d = r["crypto_out_no_fee"] + r["crypto_fee"]
            a[2] += d
            a[0] -= d
    return acc


def overdraft(case):
    """-> (must_reject_account | None, ever_negative:set): first debit after which the debited account is more than
    1e-10 below zero; the accounts that are below zero right after one of their debits"""
    bal = {}
    must, ever = None, set()
    for kind, r in replay_order(case):
        if kind == "in":
            k = (r["exch"], r["holder"])
            bal[k] = bal.get(k, 0) + r["crypto_in"]
            continue
        if kind == "intra":
            k = (r["from_exch"], r["from_holder"])
            bal[k] = bal.get(k, 0) - r["crypto_sent"]
            k2 = (r["to_exch"], r["to_holder"])
            bal[k2] = bal.get(k2, 0) + r["crypto_received"]
        else:
            k = (r["exch"], r["holder"])
            bal[k] = bal.get(k, 0) - r["crypto_out_no_fee"] - r["crypto_fee"]
        if bal[k] < 0:
            ever.add(k)
        if bal[k] < -10 and must is None:
            must = k
    return must, ever


# ----------------------------------------------------------------------------- yearly summary
def yearly(case, fractions, to_day, from_day, brk=False):
    """fractions: dump entries of the unfiltered run (with figures).  -> {(year,type,long): [crypto, fiat, cost, gain]} (Decimal sums)"""
    evs = {}
    for e in hist.taxable_oracle(case):
        evs[e["row"]] = e
    lines, order = {}, []
    for f in fractions:
        e = evs.get(f["ev"])
        if e is None:
            # the implementation's fraction names a row that is no taxable transaction of the input: a line no summary can have
            e = {"ts": [0, 0], "type": f"row {f['ev']} (no taxable transaction of the input)"}
        elif to_day is not None and hist.local_day(e["ts"]) > to_day:
            if brk:        # the shape of finding F9: the summary stops at the first fraction dated after the to-date
                break
            continue
        key = (hist.local_year(e["ts"]), e["type"], f["long"])
        if key not in lines:
            lines[key] = [0, Decimal(0), Decimal(0), Decimal(0)]
        l = lines[key]
        l[0] += f["amt"]
        l[1] += dec_of_pair(f["proceeds"])
        l[2] += dec_of_pair(f["cost"])
        l[3] += dec_of_pair(f["gain"])
    from_year = None
    if from_day is not None:
        from harness.impl import date_of_day
        from_year = date_of_day(from_day).year
    return {k: v for k, v in lines.items() if from_year is None or k[0] >= from_year}


# ----------------------------------------------------------------------------- fraction labels
def labels(case, fractions, to_day):
    """k/n labels among the fractions dated up to to_day: {(ev, lot): (ev_idx, ev_n, lot_idx, lot_n)}"""
    evs = {e["row"]: e for e in hist.taxable_oracle(case)}
    kept = [f for f in fractions if to_day is None or f["ev"] not in evs or hist.local_day(evs[f["ev"]]["ts"]) <= to_day]
    ev_cnt, lot_cnt = {}, {}
    out = {}
    for f in kept:
        ei = ev_cnt.get(f["ev"], 0)
        ev_cnt[f["ev"]] = ei + 1
        li = None
        if f["lot"] is not None:
            li = lot_cnt.get(f["lot"], 0)
            lot_cnt[f["lot"]] = li + 1
        out[(f["ev"], f["lot"])] = [ei, li]
    res = {}
    for (ev, lot), (ei, li) in out.items():
        res[(ev, lot)] = (ei, ev_cnt[ev], li, lot_cnt.get(lot))
    return res
