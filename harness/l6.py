"""L6: whole runs of the five console scripts as subprocesses (C16, C17, C18).

A *job* is a JSON-able dict that fully determines one CLI run:
  country, opts {method, lang, from, to, asset, neg, prefix, outdir}, inp (generated input), ini_extra,
  hashseed, pre (files put into the output directory before the run), audit (bool), env_period.
run_job() materialises the .ini / .ods in a fresh temp dir, runs the entry point with cwd in that temp
dir (never inside /repo or the harness tree), and returns exit status, stderr summary, the files found
in the output directory (with a canonical per-sheet dump of every ODS), the audit trail (if any) and
the SHA-256 of input and config before / after."""
import hashlib
import json
import os
import re
import shutil
import subprocess
import sys
import tempfile
import zipfile
from datetime import date, datetime, timedelta, timezone

from harness import core, hist

PY = "/venv/bin/python"
COUNTRIES = ["us", "es", "jp", "ie", "generic"]
CCODE = {c: i for i, c in enumerate(COUNTRIES)}
METHS = ["fifo", "lifo", "hifo", "lofo"]
U = 10 ** 11
DAY = hist.DAY
AUDIT_DIR = os.path.join(core.VERIF, "harness", "audit")
EPOCH = date(1970, 1, 1)

# default column layout (the one of rp2's own examples)
LAYOUT = {
    "in": {"timestamp": 0, "asset": 6, "exchange": 1, "holder": 2, "transaction_type": 5, "spot_price": 8, "crypto_in": 7,
           "crypto_fee": 9, "fiat_in_no_fee": 10, "fiat_in_with_fee": 11, "fiat_fee": 12, "unique_id": 13, "notes": 14},
    "out": {"timestamp": 0, "asset": 6, "exchange": 1, "holder": 2, "transaction_type": 5, "spot_price": 8, "crypto_out_no_fee": 7,
            "crypto_fee": 9, "crypto_out_with_fee": 10, "fiat_out_no_fee": 11, "fiat_fee": 12, "unique_id": 13, "notes": 14},
    "intra": {"timestamp": 0, "asset": 6, "from_exchange": 1, "from_holder": 2, "to_exchange": 3, "to_holder": 4, "spot_price": 8,
              "crypto_sent": 7, "crypto_received": 10, "unique_id": 12, "notes": 13},
}


def layout_of(inp):
    """column layout of an input: the default one, or a variant in which ONE table reaches further to the right than the
    other two (inp["layout"] = "intra-wide" | "out-wide" | "in-wide"): nothing may assume that the three tables end in the
    same column"""
    v = (inp or {}).get("layout")
    if not v:
        return LAYOUT
    lay = {t: dict(m) for t, m in LAYOUT.items()}
    t = v.split("-")[0]
    lay[t]["unique_id"], lay[t]["notes"] = 17, 16
    if t == "intra":
        lay[t]["crypto_received"] = 15
    return lay


def day_of(d):
    return (d - EPOCH).days


def date_of_day(n):
    return EPOCH + timedelta(days=n)


def local_date(ts):
    return date_of_day((ts[0] + ts[1] * 1_000_000) // DAY)


# ----------------------------------------------------------------------------- generated valid inputs
SHAPES = ["plain", "sparse", "fully_sold", "income_only", "multi_holder", "transfers", "dca", "staggered"]
EARN = hist.EARN
AMTS = [U // 100, U // 20, U // 10, U // 4, U // 2, U, 2 * U, 3 * U, 5 * U, 12345678900, 7 * U + 5 * 10 ** 9]
PRICES = [U // 100, U, 10 * U, 20 * U, 50 * U, 123 * U + 45 * 10 ** 9, 1000 * U, 30000 * U]


def gen_dca(rng, name, off, n_buys=None, subsecond=False, twins=False):
    """dollar-cost averaging: many small buys on one account, then one disposal that consumes most of them (many lot
    fractions for one taxable event) and a second small one.  subsecond: the buys fall into the same second (distinct
    microseconds), the first disposal follows within seconds."""
    n = n_buys or rng.range(24, 30)
    y = 2019 + rng.below(3)
    t0 = day_of(date(y, rng.range(1, 6), rng.range(1, 28))) * DAY + rng.range(8, 20) * 3600_000_000
    ins, outs = [], []
    t = t0
    total = 0
    used = set()
    for k in range(n):
        if subsecond:
            us = rng.below(1_000_000)
            while us in used:
                us = rng.below(1_000_000)
            used.add(us)
            t = t0 + us
        else:
            t += 7 * DAY + rng.below(3600) * 1_000_000 + 1_000_000
        amt = rng.choice([U // 10, U // 20, U // 4])
        ins.append({"ts": [t, off], "exch": 0, "holder": 0, "type": "BUY", "spot": rng.choice(PRICES), "crypto_in": amt})
        total += amt
    if twins and len(ins) >= 8:
        # two purchases at the very same instant on sheet rows 9 and 10 (the IN table's data starts at row 3): their row
        # numbers compare differently as strings and as integers
        ins[7]["ts"] = list(ins[6]["ts"])
    if subsecond:
        ins.sort(key=lambda r: r["ts"][0])
        t = t0 + 1_000_000
    t += rng.range(1, 5) * 1_000_000 if subsecond else rng.range(2, 30) * DAY
    first = total - rng.choice([U // 20, U // 10]) if not subsecond else max(U // 20, total // 2)
    outs.append({"ts": [t, off], "exch": 0, "holder": 0, "type": "SELL", "spot": rng.choice(PRICES), "crypto_out_no_fee": first, "crypto_fee": 0})
    t += rng.range(20, 200) * DAY + 1_000_000
    rest = total - first
    outs.append({"ts": [t, off], "exch": 0, "holder": 0, "type": rng.choice(["SELL", "GIFT"]), "spot": rng.choice(PRICES),
                 "crypto_out_no_fee": max(1, rest // 2), "crypto_fee": 0})
    return {"asset": name, "ins": ins, "outs": outs, "intras": []}


def gen_lots(rng, name, off, n_lots=None):
    """several purchases at clearly different prices (rows 3, 4, 5, ... of the sheet, as in every asset) and partial sales:
    which lot a sale takes depends on the method's ranking"""
    n = n_lots or rng.range(3, 5)
    y = 2019 + rng.below(2)
    t = day_of(date(y, rng.range(1, 4), rng.range(1, 28))) * DAY + rng.range(8, 20) * 3600_000_000
    prices = rng.shuffle([10 * U, 50 * U, 200 * U, 1000 * U, 3000 * U, 20 * U][:n + 1])
    if rng.chance(60):      # two lots at exactly the same price (stablecoins, split fills): the tie is broken by acquisition time
        a, b = rng.below(n), rng.below(n)
        prices[a] = prices[b]
    ins, outs = [], []
    for k in range(n):
        t += rng.range(3, 60) * DAY + rng.below(3600) * 1_000_000
        ins.append({"ts": [t, off], "exch": 0, "holder": 0, "type": "BUY", "spot": prices[k], "crypto_in": rng.choice([U, 2 * U, U // 2])})
    total = sum(r["crypto_in"] for r in ins)
    for k in range(rng.range(1, 2)):
        t += rng.range(10, 200) * DAY + 1_000_000
        amt = max(1, total // rng.choice([3, 4, 5]))
        total -= amt
        outs.append({"ts": [t, off], "exch": 0, "holder": 0, "type": "SELL", "spot": rng.choice(PRICES), "crypto_out_no_fee": amt, "crypto_fee": 0})
    return {"asset": name, "ins": ins, "outs": outs, "intras": []}


def gen_asset(rng, name, ne, nh, shape, off, out_types=None, n_max=9, y0=None):
    """one asset's history: pairwise distinct instants, per-account balances never negative"""
    if shape == "dca":
        return gen_dca(rng, name, off)
    if shape == "twins":
        return gen_dca(rng, name, off, n_buys=8, twins=True)     # rows 3..10: the twins (rows 9, 10) are the latest lots
    if shape == "subsecond":
        return gen_dca(rng, name, off, n_buys=rng.range(3, 5), subsecond=True)
    if shape == "lots":
        return gen_lots(rng, name, off)
    if shape == "sparse":
        years = sorted(set([2016 + rng.below(3), 2020 + rng.below(2), 2023]))
    elif shape == "income_only":
        years = [2019 + rng.below(2), 2021]
    else:
        y0 = y0 or 2018 + rng.below(3)
        years = list(range(y0, y0 + rng.range(1, 3)))
    n = rng.range(3, n_max)
    instants = set()
    while len(instants) < n:
        y = rng.choice(years)
        d = date(y, rng.range(1, 12), rng.range(1, 28))
        instants.add(day_of(d) * DAY + rng.range(2 * 3600, 21 * 3600) * 1_000_000 + rng.below(60) * 1_000_000)
    times = sorted(instants)
    bal = {}
    ins, outs, intras = [], [], []
    out_types = out_types or ["SELL", "SELL", "SELL", "GIFT", "DONATE", "FEE", "LOST"]
    for k, t in enumerate(times):
        ts = [t, off]
        funded = sorted(a for a, b in bal.items() if b > 0)
        r = rng.below(100)
        if shape == "income_only":
            r = 0
        if not funded or r < 40 or k == 0:
            acct = (rng.below(ne), rng.below(nh))
            if shape == "income_only":
                ty = rng.choice(EARN)
            else:
                ty = rng.choice(EARN) if rng.chance(30) else ("BUY" if rng.chance(85) else rng.choice(["GIFT", "DONATE"]))
            amt = rng.choice(AMTS)
            row = {"ts": ts, "exch": acct[0], "holder": acct[1], "type": ty, "spot": rng.choice(PRICES), "crypto_in": amt}
            if ty == "BUY" and rng.chance(25):
                row["fiat_fee"] = rng.choice([U, 5 * U, 25 * 10 ** 9])
            ins.append(row)
            bal[acct] = bal.get(acct, 0) + amt
        elif r < 80 or shape not in ("transfers", "multi_holder", "plain"):
            acct = rng.choice(funded)
            avail = bal[acct]
            ty = rng.choice(out_types)
            total = avail if rng.chance(30) else max(1, avail // rng.choice([2, 3, 4]))
            if ty == "FEE":
                nofee, fee = 0, total
            else:
                fee = min(total - 1, rng.choice([0, 0, U // 1000, U // 100])) if total > 1 else 0
                nofee = total - fee
            outs.append({"ts": ts, "exch": acct[0], "holder": acct[1], "type": ty, "spot": rng.choice(PRICES),
                         "crypto_out_no_fee": nofee, "crypto_fee": fee})
            bal[acct] = avail - total
        else:
            acct = rng.choice(funded)
            avail = bal[acct]
            others = [(e, h) for e in range(ne) for h in range(nh) if (e, h) != acct] or [acct]
            to = rng.choice(others)
            sent = avail if rng.chance(30) else max(1, avail // rng.choice([2, 3]))
            fee = 0 if rng.chance(40) else min(sent - 1, rng.choice([U // 1000, U // 100])) if sent > 1 else 0
            intras.append({"ts": ts, "from_exch": acct[0], "from_holder": acct[1], "to_exch": to[0], "to_holder": to[1],
                           "spot": rng.choice(PRICES), "crypto_sent": sent, "crypto_received": sent - fee})
            bal[acct] = avail - sent
            bal[to] = bal.get(to, 0) + sent - fee
    if shape == "fully_sold":
        t = times[-1]
        for acct in sorted(a for a, b in bal.items() if b > 0):
            # sold out in three disposals (equal thirds when possible): a lot consumed by several events in proportions
            # that are not exact decimals leaves sold percentages that add up to 0.999..9, not 1
            b = bal[acct]
            parts = [b // 3, b // 3, b - 2 * (b // 3)] if b >= 3 else [b]
            for part in parts:
                t += rng.range(1, 40) * DAY + rng.below(3600) * 1_000_000 + 1_000_000
                outs.append({"ts": [t, off], "exch": acct[0], "holder": acct[1], "type": "SELL", "spot": rng.choice(PRICES),
                             "crypto_out_no_fee": part, "crypto_fee": 0})
            bal[acct] = 0
    return {"asset": name, "ins": ins, "outs": outs, "intras": intras}


def gen_input(rng, shape=None, n_assets=None, out_types=None):
    shape = shape or rng.choice(SHAPES)
    ne = rng.range(1, 3)
    nh = rng.range(2, 3) if shape in ("multi_holder", "transfers") else rng.range(1, 2)
    exchanges = ["Coinbase", "Kraken", "BlockFi"][:ne]
    holders = ["Alice", "Bob", "Carol"][:nh]
    names = ["BTC", "ETH", "XLM", "ADA"]
    rng.shuffle(names)
    n_assets = n_assets or rng.choice([1, 1, 2, 2, 3])
    off = rng.choice([0, 0, 3600, -18000, 32400])
    assets = []
    if shape == "staggered":
        n_assets = max(2, n_assets)
    for k in range(n_assets):
        sh = shape
        if shape in ("income_only", "fully_sold", "dca", "subsecond", "twins") and k > 0 and rng.chance(50):
            sh = "plain"
        if shape == "staggered":
            # every asset starts in a later year than the previous one
            assets.append(gen_asset(rng, names[k], ne, nh, "plain", off, out_types, y0=2017 + 2 * k))
            continue
        assets.append(gen_asset(rng, names[k], ne, nh, sh, off, out_types))
    lay = rng.choice([None] * 6 + ["intra-wide", "intra-wide", "out-wide", "in-wide"])
    return {"shape": shape, "exchanges": exchanges, "holders": holders, "assets": assets, "off": off, "layout": lay}


def rows_of(inp, a, order=("in", "out", "intra"), perm=None):
    """sheet rows (python cell values) of asset dict a; perm: {table: list of indices} reorders data rows"""
    from harness import l1
    LAY = layout_of(inp)
    width = 1 + max(c for m in LAY.values() for c in m.values())
    rows = []
    ex, ho = inp["exchanges"], inp["holders"]
    src = {"in": a["ins"], "out": a["outs"], "intra": a["intras"]}
    rowmap = {}
    for t in order:
        data = src[t]
        if not data and t != "in":
            continue
        if rows:
            rows.append([None] * width)
        r = [None] * width
        r[0] = l1.KEYWORD[t]
        rows.append(r)
        m = LAY[t]
        r = [None] * width
        for f, c in m.items():
            r[c] = f.replace("_", " ").title()
        rows.append(r)
        idx = list(range(len(data))) if not perm else perm[t]
        for k in idx:
            d = data[k]
            from harness import impl
            vals = {"timestamp": impl.ts_string(*d["ts"]), "asset": a["asset"]}
            if t == "intra":
                vals.update({"from_exchange": ex[d["from_exch"]], "from_holder": ho[d["from_holder"]], "to_exchange": ex[d["to_exch"]],
                             "to_holder": ho[d["to_holder"]]})
            else:
                vals.update({"exchange": ex[d["exch"]], "holder": ho[d["holder"]], "transaction_type": d["type"]})
            for f in l1.FIELDS[t]:
                if f in l1.NUMERIC:
                    key = "spot" if f == "spot_price" else f
                    v = d.get(key)
                    vals[f] = None if v is None else l1.fnum(v)
            vals["unique_id"] = d.get("unique_id")
            vals["notes"] = d.get("notes")
            r = [None] * width
            for f, c in m.items():
                r[c] = vals.get(f)
            rowmap[(t, k)] = len(rows) + 1
            rows.append(r)
        r = [None] * width
        r[0] = "TABLE END"
        rows.append(r)
    return rows, rowmap


def ini_text(inp, extra="", assets=None, holders=None):
    s = "[general]\n"
    s += "assets = " + ", ".join(assets or [a["asset"] for a in inp["assets"]]) + "\n"
    s += "exchanges = " + ", ".join(inp["exchanges"]) + "\n"
    s += "holders = " + ", ".join(holders or inp["holders"]) + "\n\n"
    for t in ("in", "out", "intra"):
        s += f"[{t}_header]\n"
        for fld, col in layout_of(inp)[t].items():
            s += f"{fld} = {col}\n"
        s += "\n"
    return s + extra


# ----------------------------------------------------------------------------- facts about an input (independent of rp2)
def all_events(a):
    """(local date, kind, row dict) of every transaction"""
    out = []
    for r in a["ins"]:
        out.append((local_date(r["ts"]), "in", r))
    for r in a["outs"]:
        out.append((local_date(r["ts"]), "out", r))
    for r in a["intras"]:
        out.append((local_date(r["ts"]), "intra", r))
    return out


def taxable_dates(a):
    """local dates of the taxable events of an asset (earn-typed ins, outs, transfers with a fee)"""
    ds = [local_date(r["ts"]) for r in a["ins"] if r["type"] in EARN]
    ds += [local_date(r["ts"]) for r in a["outs"]]
    ds += [local_date(r["ts"]) for r in a["intras"] if r["crypto_sent"] != r["crypto_received"]]
    return sorted(ds)


def hidden_summary_year(a, frm, to):
    """F2 condition: a year >= from-year has a yearly summary line (taxable event dated <= to) but no
    taxable event inside [from, to]"""
    if frm is None:
        return False
    to = to or date(9999, 12, 31)
    ds = [d for d in taxable_dates(a) if d <= to]
    years = {d.year for d in ds if d.year >= frm.year}
    shown = {d.year for d in ds if d >= frm}
    return bool(years - shown)


def holders_with_balance(a, to):
    """number of distinct holders appearing in the balance table (accounts touched up to the to-date)"""
    to = to or date(9999, 12, 31)
    hs = set()
    for d, k, r in all_events(a):
        if d > to:
            continue
        if k == "intra":
            hs.add(r["from_holder"])
            hs.add(r["to_holder"])
        else:
            hs.add(r["holder"])
    return len(hs)


def negative_balance(a):
    """some account's running balance goes below zero"""
    evs = sorted(all_events(a), key=lambda e: e[2]["ts"][0])
    bal = {}
    for d, k, r in evs:
        if k == "in":
            acct = (r["exch"], r["holder"])
            bal[acct] = bal.get(acct, 0) + r["crypto_in"]
        elif k == "out":
            acct = (r["exch"], r["holder"])
            bal[acct] = bal.get(acct, 0) - r["crypto_out_no_fee"] - r["crypto_fee"]
        else:
            fa, ta = (r["from_exch"], r["from_holder"]), (r["to_exch"], r["to_holder"])
            bal[fa] = bal.get(fa, 0) - r["crypto_sent"]
            bal[ta] = bal.get(ta, 0) + r["crypto_received"]
    return any(b < 0 for b in bal.values())


# ----------------------------------------------------------------------------- windows
def gen_window(rng, inp, kind):
    """kind in none/from/to/both -> (from|None, to|None, label) as ISO strings; covers mid-year bounds,
    bounds on/adjacent to event dates and windows containing no taxable event"""
    if kind == "none":
        return None, None, "none"
    ds = sorted(set(d for a in inp["assets"] for d in taxable_dates(a)))
    alld = sorted(set(d for a in inp["assets"] for d, _, _ in all_events(a)))
    lo, hi = alld[0], alld[-1]
    style = rng.below(6)
    label = ""
    starts = sorted(set(min(local_date(r["ts"]) for r in a["ins"]) for a in inp["assets"]))
    late = [d for d in starts if d > lo]
    if late and kind in ("to", "both") and (inp.get("shape") == "staggered" or rng.chance(15)):
        # the window ends before the first acquisition of one configured asset
        t = rng.choice(late) - timedelta(days=rng.range(1, 200))
        if t < lo:
            t = lo
        if kind == "to":
            return None, t.isoformat(), "to-before-asset-start"
        f = lo - timedelta(days=rng.range(0, 30)) if rng.chance(50) else lo
        return f.isoformat(), t.isoformat(), "both-before-asset-start"
    if kind == "from":
        if style == 0:
            f = date(rng.choice(alld).year, 1, 1); label = "year-start"
        elif style == 1:
            f = date(rng.choice(alld).year, rng.range(2, 11), rng.range(2, 27)); label = "mid-year"
        elif style == 2 and ds:
            f = rng.choice(ds); label = "on-event"
        elif style == 3 and ds:
            f = rng.choice(ds) + timedelta(days=1); label = "after-event"
        elif style == 4:
            f = hi + timedelta(days=rng.range(1, 400)); label = "after-all"
        else:
            f = lo - timedelta(days=rng.range(1, 400)); label = "before-all"
        return f.isoformat(), None, "from-" + label
    if kind == "to":
        if style == 0:
            t = date(rng.choice(alld).year, 12, 31); label = "year-end"
        elif style == 1:
            t = date(rng.choice(alld).year, rng.range(2, 11), rng.range(2, 27)); label = "mid-year"
        elif style == 2 and ds:
            t = rng.choice(ds); label = "on-event"
        elif style == 3 and ds:
            t = rng.choice(ds) - timedelta(days=1); label = "before-event"
        elif style == 4:
            t = hi + timedelta(days=rng.range(1, 400)); label = "after-all"
        else:
            t = lo + timedelta(days=rng.range(0, 40)); label = "early"
        if t < lo:
            t = lo
        return None, t.isoformat(), "to-" + label
    # both
    if style == 0:
        y = rng.choice(alld).year
        f, t, label = date(y, 1, 1), date(y, 12, 31), "calendar-year"
    elif style == 1:
        y = rng.choice(alld).year
        f = date(y, rng.range(2, 6), rng.range(1, 28))
        t = date(y + rng.below(2), rng.range(7, 12), rng.range(1, 28)); label = "mid-year"
    elif style == 2 and len(ds) >= 2:
        # a gap between two consecutive taxable events: the window contains none
        k = rng.below(len(ds) - 1)
        f, t = ds[k] + timedelta(days=1), ds[k + 1] - timedelta(days=1)
        if f > t:
            f, t = ds[k], ds[k]
        label = "no-taxable-event"
    elif style == 3 and ds:
        f = t = rng.choice(ds); label = "single-day"
    elif style == 4:
        f = hi + timedelta(days=rng.range(1, 30)); t = f + timedelta(days=rng.range(0, 300)); label = "after-all"
    else:
        f = lo; t = hi; label = "exact-span"
    if t < lo:
        t = lo
    if f > t:
        f = t
    return f.isoformat(), t.isoformat(), "both-" + label


# ----------------------------------------------------------------------------- running the CLI
def entry_code(country):
    return f"from rp2.plugin.country.{country} import rp2_entry; rp2_entry()"


def sha256(path):
    h = hashlib.sha256()
    with open(path, "rb") as f:
        h.update(f.read())
    return h.hexdigest()


def build_sheets(job):
    inp = job["inp"]
    sheets = {}
    names = [a["asset"] for a in inp["assets"]]
    order = job.get("sheet_order") or names
    by = {a["asset"]: a for a in inp["assets"]}
    rowmaps = {}
    for n in order:
        perm = (job.get("row_perm") or {}).get(n)
        torder = (job.get("table_order") or {}).get(n) or ("in", "out", "intra")
        rows, rm = rows_of(inp, by[n], torder, perm)
        sheets[n] = rows
        rowmaps[n] = {f"{t}:{k}": v for (t, k), v in rm.items()}
    return sheets, rowmaps


def cli_args(job, ini, ods, outdir):
    o = job["opts"]
    args = []
    if o.get("method"):
        args += ["-m", o["method"]]
    if o.get("lang"):
        args += ["-g", o["lang"]]
    if o.get("from"):
        args += ["-f", o["from"]]
    if o.get("to"):
        args += ["-t", o["to"]]
    if o.get("asset"):
        args += ["-a", o["asset"]]
    if o.get("neg"):
        args += ["-n"]
    if o.get("prefix"):
        args += ["-p", o["prefix"]]
    if outdir is not None:
        args += ["-o", outdir]
    args += o.get("extra", [])
    return args + [ini, ods]


def run_job(job):
    """-> result dict (JSON-able)"""
    from harness import l1
    d = tempfile.mkdtemp(prefix="rp2l6_")
    try:
        indir = os.path.join(d, "in")
        cwd = os.path.join(d, "cwd")
        os.makedirs(indir)
        os.makedirs(cwd)
        ini = os.path.join(indir, "config.ini")
        ods = os.path.join(indir, "input.ods")
        with open(ini, "w", encoding="utf-8") as f:
            f.write(job.get("ini_text") or ini_text(job["inp"], job.get("ini_extra", "")))
        sheets, rowmaps = build_sheets(job)
        if job.get("bulk"):
            # an extra sheet rp2 never reads (not a configured asset) that makes the file larger than job["bulk"] bytes even
            # after zip compression: base64 of a hash chain does not compress below 3/4
            import base64
            import hashlib
            h, rows = hashlib.sha256(b"rp2-verif-bulk").digest(), []
            while sum(len(r[0]) for r in rows) * 3 // 4 < job["bulk"]:
                chunk = b""
                while len(chunk) < 3000:
                    h = hashlib.sha256(h).digest()
                    chunk += h
                rows.append([base64.b64encode(chunk).decode("ascii")])
            sheets = dict(sheets, Notes=rows)
        l1.write_ods(ods, sheets)
        if job.get("ods_text"):
            with open(ods, "w", encoding="utf-8") as f:
                f.write("timestamp,asset\n2020-01-01,BTC\n")
        if job.get("corrupt_ods"):
            with open(ods, "wb") as f:
                f.write(b"this is not a zip archive")
        default_out = job["opts"].get("outdir") == "default"
        outdir = os.path.join(cwd, "output") if default_out else os.path.join(cwd, "out")
        for name, content in (job.get("pre") or {}).items():
            os.makedirs(outdir, exist_ok=True)
            p = os.path.join(outdir, name)
            if content == "@dir":
                os.makedirs(p, exist_ok=True)
            else:
                with open(p, "wb") as f:
                    f.write(content.encode("latin-1"))
        for name, how in (job.get("pre_links") or {}).items():
            # a symbolic link in the output directory under the name of a report, pointing outside it (to an existing file or to
            # nothing): the run may replace the link, it must not write through it
            os.makedirs(outdir, exist_ok=True)
            filed = os.path.join(d, "filed")
            os.makedirs(filed, exist_ok=True)
            target = os.path.join(filed, ("kept_" if how == "existing" else "not_there_") + name)
            if how == "existing":
                with open(target, "wb") as f:
                    f.write(b"a report filed earlier; not to be touched")
            os.symlink(target, os.path.join(outdir, name))
        env = {"PATH": "/usr/bin:/bin", "HOME": d, "LANG": "C.UTF-8",
               "PYTHONHASHSEED": str(job.get("hashseed", 0)), "PYTHONDONTWRITEBYTECODE": "1",
               "PYTHONPATH": os.path.join(core.REPO, "src")}
        audit_file = None
        if job.get("audit"):
            audit_file = os.path.join(d, "audit.jsonl")
            env["PYTHONPATH"] = AUDIT_DIR + os.pathsep + env["PYTHONPATH"]
            env["RP2V_AUDIT_FILE"] = audit_file
        for k, v in (job.get("env") or {}).items():
            env[k] = v
        if job["country"] == "generic":
            env["CURRENCY_CODE"] = "usd"
            env["LONG_TERM_CAPITAL_GAINS"] = str(job.get("env_period", 365))
        h0 = (sha256(ini), sha256(ods))
        before = snapshot(d, skip=(audit_file,))
        args = cli_args(job, ini, ods, None if default_out else outdir)
        cmd = [PY, "-c", job.get("code") or entry_code(job["country"])] + args
        try:
            p = subprocess.run(cmd, cwd=cwd, env=env, stdout=subprocess.PIPE, stderr=subprocess.PIPE, text=True, timeout=300)
            rc, err, sout = p.returncode, p.stderr, p.stdout
        except subprocess.TimeoutExpired:
            rc, err, sout = -9, "timeout", ""
        h1 = (sha256(ini) if os.path.exists(ini) else None, sha256(ods) if os.path.exists(ods) else None)
        after = snapshot(d, skip=(audit_file,))
        res = {"rc": rc, "err": err_summary(err, sout), "sha_same": h0 == h1, "rowmaps": rowmaps}
        files = {}
        if os.path.isdir(outdir):
            for fn in sorted(os.listdir(outdir)):
                p = os.path.join(outdir, fn)
                pre = (job.get("pre") or {})
                if fn in pre and not fn.endswith(".ods"):
                    # junk put there by the harness: must be untouched
                    same = (pre[fn] == "@dir" and os.path.isdir(p)) or (os.path.isfile(p) and open(p, "rb").read() == pre[fn].encode("latin-1"))
                    files[fn] = {"junk": True, "untouched": same}
                    continue
                if fn in pre and os.path.isfile(p) and open(p, "rb").read() == pre[fn].encode("latin-1"):
                    files[fn] = {"stale": True}
                    continue
                files[fn] = ods_dump(p, job.get("dump", "hash"))
        res["files"] = files
        # every path created / modified / removed under the temp dir, relative to it
        res["changed"] = diff_snapshots(before, after)
        if audit_file:
            res["audit"] = read_audit(audit_file, d)
        return res
    finally:
        shutil.rmtree(d, ignore_errors=True)


def snapshot(root, skip=()):
    out = {}
    for dp, dirs, files in os.walk(root):
        for n in files:
            p = os.path.join(dp, n)
            if p in skip:
                continue
            try:
                st = os.stat(p)
                out[os.path.relpath(p, root)] = (st.st_size, st.st_mtime_ns, sha256(p))
            except OSError:
                pass
        for n in dirs:
            out[os.path.relpath(os.path.join(dp, n), root) + "/"] = None
    return out


def diff_snapshots(a, b):
    ch = []
    for k in sorted(set(a) | set(b)):
        if k not in a:
            ch.append(["created", k])
        elif k not in b:
            ch.append(["removed", k])
        elif a[k] is not None and (a[k][0], a[k][2]) != (b[k][0], b[k][2]):
            ch.append(["modified", k])
    return ch


ERR_RE = re.compile(r"^([A-Za-z_][A-Za-z0-9_.]*)(?:: ?(.*))?$")


def err_summary(stderr, stdout=""):
    """exception line that ends the last traceback (class, message) + whether argparse rejected the command line"""
    cls, msg = None, None
    lines = stderr.splitlines()
    for i, line in enumerate(lines):
        if line.startswith("Traceback (most recent call last):"):
            for l2 in lines[i + 1:]:
                if l2 and not l2.startswith((" ", "\t")):
                    m = ERR_RE.match(l2.strip())
                    if m:
                        cls, msg = m.group(1).split(".")[-1], (m.group(2) or "")[:300]
                    break
    usage = "usage:" in stderr
    errs = [l[7:][:300] for l in lines if l.startswith("ERROR: ")]
    return {"cls": cls, "msg": msg, "usage": usage, "errors": errs[:3], "stdout": stdout[:200]}


def read_audit(path, root):
    ev = []
    try:
        with open(path, encoding="utf-8") as f:
            for line in f:
                try:
                    ev.append(json.loads(line))
                except ValueError:
                    ev.append({"ev": "unparsable", "args": [line[:200]]})
    except OSError:
        return None
    for e in ev:
        e["args"] = [a.replace(root, "$T") if isinstance(a, str) else a for a in e.get("args", [])]
    return ev


# ----------------------------------------------------------------------------- canonical dump of an ODS
NS = {"office": "urn:oasis:names:tc:opendocument:xmlns:office:1.0", "table": "urn:oasis:names:tc:opendocument:xmlns:table:1.0",
      "text": "urn:oasis:names:tc:opendocument:xmlns:text:1.0"}
OFF = "{%s}" % NS["office"]
TAB = "{%s}" % NS["table"]
TXT = "{%s}" % NS["text"]


def _text_of(el):
    return "".join(el.itertext())


VISUAL_STYLES = ["bold_border", "acquired_lot", "taxable_event", "transparent", "header", "title", "bold"]


def data_style(name):
    """rp2 names a cell style <visual style>_<data style>; the data style is the number format of the cell (fiat, crypto,
    percent, fiat_unit_4, fiat_unit_7, ...) and is part of what the reader sees, the visual style (colours, borders;
    may alternate from row to row) is not compared"""
    if not name:
        return None
    for v in VISUAL_STYLES:
        if name.startswith(v + "_"):
            return name[len(v) + 1:]
    return None


def ods_cells(path):
    """-> [(sheet name, [[cell,...],...])]; cell = None | [type, value, formula, text, data style] ; trailing empties trimmed.
    Reads content.xml directly (independent of ezodf)."""
    import xml.etree.ElementTree as ET
    with zipfile.ZipFile(path) as z:
        root = ET.fromstring(z.read("content.xml"))
    out = []
    body = root.find(OFF + "body").find(OFF + "spreadsheet")
    for tab in body.findall(TAB + "table"):
        rows = []
        for tr in tab.iter(TAB + "table-row"):
            rrep = int(tr.get(TAB + "number-rows-repeated", "1"))
            cells = []
            for tc in tr:
                if tc.tag not in (TAB + "table-cell", TAB + "covered-table-cell"):
                    continue
                crep = int(tc.get(TAB + "number-columns-repeated", "1"))
                vt = tc.get(OFF + "value-type")
                val = tc.get(OFF + "value") or tc.get(OFF + "date-value") or tc.get(OFF + "string-value") or tc.get(OFF + "boolean-value")
                fm = tc.get(TAB + "formula")
                tx = "\n".join(_text_of(p) for p in tc.findall(TXT + "p"))
                cell = None if (vt is None and fm is None and not tx) else [vt, val, fm, tx, data_style(tc.get(TAB + "style-name"))]
                if cell is None and crep > 50:
                    crep = 1
                cells += [cell] * crep
            while cells and cells[-1] is None:
                cells.pop()
            if not cells and rrep > 50:
                rrep = 1
            rows += [cells] * rrep
        while rows and not rows[-1]:
            rows.pop()
        out.append((tab.get(TAB + "name"), rows))
    return out


def ods_dump(path, mode="hash"):
    """oracle part: non-empty, a zip with content.xml, opens with ezodf; plus the canonical content"""
    res = {"size": os.path.getsize(path) if os.path.isfile(path) else -1}
    if not os.path.isfile(path):
        res["bad"] = "not a regular file"
        return res
    if not path.endswith(".ods"):
        res["other"] = True
        return res
    try:
        import ezodf
        doc = ezodf.opendoc(path)
        res["ezodf_sheets"] = [s.name for s in doc.sheets]
        sheets = ods_cells(path)
        if mode == "full":
            res["sheets"] = [[n, rows] for n, rows in sheets]
        else:
            res["sheets"] = [[n, [hashlib.sha1(json.dumps(r).encode()).hexdigest()[:12] for r in rows]] for n, rows in sheets]
        with zipfile.ZipFile(path) as z:
            res["members"] = sorted(z.namelist())
            # byte-level identity of the deterministic members (meta.xml carries the generation time)
            res["raw"] = {n: hashlib.sha256(z.read(n)).hexdigest()[:16] for n in z.namelist()
                          if n in ("content.xml", "styles.xml", "settings.xml", "META-INF/manifest.xml", "mimetype")}
    except Exception as exc:  # noqa: BLE001
        res["bad"] = f"{type(exc).__name__}: {exc}"[:300]
    return res


def run_jobs(jobs):
    """CLI runs in parallel worker processes (one job at a time per worker)"""
    import multiprocessing as mp
    if not jobs:
        return []
    if len(jobs) == 1:
        return [run_job(jobs[0])]
    ctx = mp.get_context("fork")
    with ctx.Pool(min(core.NCPU, len(jobs))) as pool:
        return pool.map(run_job, jobs, 1)


# ----------------------------------------------------------------------------- shared matrix runs (C16, C17, C18)
def matrix_runs(tier, build_jobs):
    """jobs of the C16 matrix and their results, computed once per (tree hash, seed, tier)"""
    from harness import l2
    name = f"l6_{tier}_{core.seed()}"
    got = l2.cache_get(name)
    if got:
        return got["jobs"], got["results"]
    jobs = build_jobs()
    results = run_jobs(jobs)
    l2.cache_put(name, {"jobs": jobs, "results": results})
    # round-trip through JSON so that cached and fresh runs look the same
    got = json.loads(json.dumps({"jobs": jobs, "results": results}))
    return got["jobs"], got["results"]
