"""Totality of the computation (Properties/C16.v: C16_compute_tax_outcome, C16_computed_data_exists,
C16_nonpositive_staking_rejected_by_matcher) judged on the real code.

For generated single-asset histories (one UTC offset each, schedule covering every year) and several date windows,
compute_tax of the implementation is run with and without -n.  The theorem predicts the outcome from the INPUT alone:

    lots run out at some disposal (hist.coverable, the property-level criterion)  ->  RP2ValueError "Total in-transaction ..."
    else, without -n, some debit up to the to-date leaves its account < -5e-11     ->  RP2ValueError "... went negative"
    else                                                                            ->  ComputedData

and nothing else may happen (no ZeroDivisionError / InvalidOperation / KeyError / other RP2ValueError).  The model's matcher
(driver cmd 10) is run on the same rows: Ok / EExhausted must agree with the criterion; histories the constructors reject
(model: any other code, e.g. the dust-fee acquisitions of finding F15) are only required to fail in the implementation too.
The fixed STAKING corner cases (crypto_in <= 0) must be rejected with a value error by both."""
from harness import core, hist, oracle

U = hist.U


def _case(ins, outs=()):
    return {"asset": "B1", "exchanges": ["E0", "E1"], "holders": ["H0", "H1"], "country": "us", "env": None,
            "sched": [[1970, "fifo"]], "from": None, "to": None, "allow_neg": False,
            "ins": list(ins), "outs": list(outs), "intras": []}


def _in(row, day, ty, amt, spot=10 * U):
    return {"row": row, "ts": [day * hist.DAY + hist.DAY // 2, 0], "exch": 0, "holder": 0, "type": ty, "spot": spot, "crypto_in": amt}


def _out(row, day, amt, spot=20 * U):
    return {"row": row, "ts": [day * hist.DAY + hist.DAY // 2, 0], "exch": 0, "holder": 0, "type": "SELL", "spot": spot,
            "crypto_out_no_fee": amt, "crypto_fee": 0}


# the rows of Proofs/ComputeTotalExamples.v [staking_nonpositive_rejected]; last entry: expected to compute
STAKING_CASES = [
    ("zero staking alone", _case([_in(3, 18000, "STAKING", 0)]), False),
    ("buy, zero staking", _case([_in(3, 18000, "BUY", U), _in(4, 18100, "STAKING", 0)]), False),
    ("buy, negative staking", _case([_in(3, 18000, "BUY", U), _in(4, 18100, "STAKING", -U // 2)]), False),
    ("buy, negative staking, sell", _case([_in(3, 18000, "BUY", U), _in(4, 18100, "STAKING", -U // 2)], [_out(9, 18200, U // 4)]), False),
    ("negative staking alone", _case([_in(3, 18000, "STAKING", -U)]), False),
    ("negative staking, buy", _case([_in(3, 18000, "STAKING", -U), _in(4, 18100, "BUY", U)]), False),
    ("positive staking", _case([_in(3, 18000, "STAKING", U)]), True),
]


def overdrawn5(case, to_day):
    """some debit up to the to-date leaves the debited account more than 5 grid units below zero (the exact C08 condition)"""
    bal = {}
    for kind, r in oracle.replay_order(case, to_day):
        if kind == "in":
            k = (r["exch"], r["holder"])
            bal[k] = bal.get(k, 0) + r["crypto_in"]
            continue
        if kind == "intra":
            k = (r["from_exch"], r["from_holder"])
            bal[k] = bal.get(k, 0) - r["crypto_sent"]
            k2 = (r["to_exch"], r["to_holder"])
            bal[k2] = bal.get(k2, 0) + r["crypto_received"]
        else:
            k = (r["exch"], r["holder"])
            bal[k] = bal.get(k, 0) - r["crypto_out_no_fee"] - r["crypto_fee"]
        if bal[k] < -5:
            return True
    return False


def windows(rng, case):
    days = sorted({hist.local_day(r["ts"]) for r in case["ins"] + case["outs"] + case["intras"]})
    first = min(hist.local_day(r["ts"]) for r in case["ins"])
    w = [(None, None), (None, max(0, first - 1 - rng.below(40))),           # to-date before the first acquisition
         (None, rng.choice(days) + rng.choice([0, 0, 1, -1])), (max(0, rng.choice(days) - rng.below(3)), None)]
    a, b = sorted([rng.choice(days), rng.choice(days) + rng.below(60)])
    w.append((a, b))
    return w


def _impl(args):
    case, f, t, allow = args
    return hist.impl_compute(case, from_day=f, to_day=t, allow_neg=allow, full=False)


def predict(case, to_day, allow):
    if hist.coverable(case) is not None:
        return "exhausted"
    if not allow and overdrawn5(case, to_day):
        return "negative"
    return "ok"


def observed(r):
    if "ok" in r:
        return "ok"
    msg = r.get("msg", "")
    if r["err"] == "value" and "Total in-transaction crypto value < total taxable crypto value" in msg:
        return "exhausted"
    if r["err"] == "value" and "went negative" in msg:
        return "negative"
    return f"other:{r['err']}:{msg[:120]}"


def run(out, tier):
    """adds violations to `out`; returns the coverage dict of this stream"""
    rng = core.Rng(core.seed(), 1601)
    n = 1500 if tier == "quick" else 12000
    cases = [hist.gen_history(rng, n_max=12, overdraw_pct=35, mixed_pct=0, accounts=(rng.range(1, 3), rng.range(1, 3))) for _ in range(n)]
    codes = [r[0] if r else -1 for r in core.run_model([hist.line(10, hist.encode_hist(c)) for c in cases])]
    jobs, meta = [], []
    for k, c in enumerate(cases):
        for (f, t) in windows(rng, c):
            for allow in (True, False):
                jobs.append((c, f, t, allow))
                meta.append(k)
    res = core.pool_map(_impl, jobs, init=core.impl_env_setup)
    stats = {"ok": 0, "negative": 0, "exhausted": 0, "constructor-rejected": 0, "before-first-acquisition-ok": 0}
    bad = 0
    for k, c in enumerate(cases):
        if codes[k] in (0, 1):
            want = 1 if hist.coverable(c) is not None else 0
            if codes[k] != want:
                bad += 1
                out.violation(f"model matcher returns code {codes[k]} but the lots-suffice criterion says {'exhausted' if want else 'coverable'}",
                              c, tags={"correspondence", "totality"}, found_input=False)
    for (c, f, t, allow), k, r in zip(jobs, meta, res):
        got = observed(r)
        if codes[k] not in (0, 1):
            stats["constructor-rejected"] += 1
            if got == "ok":
                bad += 1
                out.violation(f"the model rejects the rows (code {codes[k]}) but the implementation computes them", c,
                              tags={"correspondence", "totality"}, found_input=False)
            continue
        want = predict(c, t, allow)
        if got != want:
            bad += 1
            out.violation(f"compute_tax(from={f}, to={t}, -n={allow}) gives '{got}', the totality theorem (C16_compute_tax_outcome) predicts "
                          f"'{want}' from the rows", dict(c, window=[f, t], allow_neg=allow), tags={"totality", f"totality-{want}"})
        else:
            stats[want] += 1
            if want == "ok" and t is not None and all(hist.local_day(x["ts"]) > t for x in c["ins"]):
                stats["before-first-acquisition-ok"] += 1
    # STAKING acquisitions of a non-positive amount: built, then rejected in the matcher stage by both
    st_model = core.run_model([hist.line(10, hist.encode_hist(c)) for _, c, _ in STAKING_CASES])
    core.impl_env_setup()
    for (name, c, should), m in zip(STAKING_CASES, st_model):
        for allow in (True, False):
            r = hist.impl_compute(c, allow_neg=allow, full=False)
            impl_ok = "ok" in r
            model_ok = bool(m) and m[0] == 0
            if impl_ok != should or model_ok != should or (not should and (r.get("err") != "value" or m[0] != 5)):
                bad += 1
                out.violation(f"STAKING corner case '{name}' (-n={allow}): implementation {r if not impl_ok else 'ok'}, model code {m[:1]}, "
                              f"expected {'a result' if should else 'a value error from both'}", c, tags={"totality", "staking-nonpositive"},
                              found_input=impl_ok != should)
    return {"histories": len(cases), "runs": len(jobs), "staking_corner_cases": len(STAKING_CASES), "disagreements": bad, "outcomes": stats}
