"""Fault injectors of C12: every fault class of the property text, at every applicable position of a small valid
input.  A base is a valid (config, workbook) pair; a fault is a list of edit operations on a copy of it."""
import copy
import json

from harness import hist, l1

U = hist.U
IN_TYPES = ["AIRDROP", "BUY", "DONATE", "GIFT", "HARDFORK", "INCOME", "INTEREST", "MINING", "STAKING", "WAGES"]    # docs/input_files.md
OUT_TYPES = ["DONATE", "FEE", "GIFT", "LOST", "SELL", "STAKING"]
NAIVE = ["{:%Y-%m-%d %H:%M:%S}", "{:%Y-%m-%dT%H:%M:%S.%f}", "{:%m/%d/%Y %H:%M:%S}"]
NON_NUMERIC = ["abc", "1,5", "12 BTC", "__unknown", "1.0.0"]


def small_base(rng, k, full_layout=True):
    """a small history that is valid end to end (balances never negative): acquisitions first, then disposals / transfers"""
    t0 = hist.day_us(2020, 1 + rng.below(12), 1 + rng.below(28)) + rng.below(86400) * 1_000_000
    off = rng.choice([0, 3600, -18000, 19800])
    ins, outs, intras = [], [], []
    n_in = rng.range(1, 3)
    for i in range(n_in):
        ty = ["BUY", "STAKING", "INTEREST", "GIFT", "BUY", "MINING", "AIRDROP", "WAGES", "DONATE", "HARDFORK", "INCOME"][(k + i) % 11]
        d = {"ts": [t0 + i * 3600_000_000, off], "exch": 0, "holder": 0, "type": ty, "spot": rng.choice([100 * U, 12345 * U // 10, 7 * U]),
             "crypto_in": rng.choice([U, 2 * U, 3 * U + 12345])}
        r = rng.below(6)
        if ty == "BUY" and r == 0:
            d["crypto_fee"] = U // 100
        elif r == 1:
            d["fiat_fee"] = 5 * U
        elif r == 2:
            d["fiat_in_no_fee"] = d["crypto_in"] * d["spot"] // U
        elif r == 3:
            d["fiat_in_with_fee"] = d["crypto_in"] * d["spot"] // U + U
        ins.append(d)
    t1 = t0 + 10 * 86400_000_000
    n_out = [0, 1, 2, 1][(k // 2) % 4]
    for i in range(n_out):
        ty = ["SELL", "FEE", "GIFT", "DONATE", "LOST", "STAKING"][(k + i) % 6]
        d = {"ts": [t1 + i * 60_000_000, off], "exch": 0, "holder": 0, "type": ty, "spot": rng.choice([150 * U, 9 * U]),
             "crypto_out_no_fee": 0 if ty == "FEE" else U // 10, "crypto_fee": U // 1000 if ty == "FEE" or rng.chance(50) else 0}
        r = rng.below(5)
        if r == 0:
            d["crypto_out_with_fee"] = d["crypto_out_no_fee"] + d["crypto_fee"]
        elif r == 1 and ty != "FEE":
            d["fiat_out_no_fee"] = d["crypto_out_no_fee"] * d["spot"] // U
        elif r == 2:
            d["fiat_fee"] = d["crypto_fee"] * d["spot"] // U
        outs.append(d)
    t2 = t0 + 20 * 86400_000_000
    n_x = [1, 0, 2, 1, 0][(k // 3) % 5]
    for i in range(n_x):
        fee = [U // 1000, 0, 1][(k + i) % 3]
        d = {"ts": [t2 + i * 1_000_000, off], "from_exch": 0, "from_holder": 0, "to_exch": 1, "to_holder": 1 if rng.chance(50) else 0,
             "spot": 120 * U, "crypto_sent": U // 5, "crypto_received": U // 5 - fee}
        if fee == 0:
            # fee-less transfers: empty, zero and supplied spot price all occur in every run (k, i rotate)
            d["spot"] = [None, 0, 120 * U][(k // 3 + k + i) % 3]
        intras.append(d)
    case = {"asset": "B1", "exchanges": ["E0", "E1"], "holders": ["H0", "H1"], "ins": ins, "outs": outs, "intras": intras}
    lay = l1.gen_layout(rng, compact=rng.chance(30))
    if full_layout:
        for t in l1.TABLES:
            col = max(lay[t].values()) + 1
            for f in l1.FIELDS[t]:
                if f not in lay[t]:
                    lay[t][f] = col
                    col += 1
    case = l1.decorate(case, lay, rng, plain=True)
    order = l1.ORDERS[k % 6]
    rows, rowmap, struct = l1.render(case, lay, rng, order=order, junk=rng.chance(50), empty_tables=["always", "never", "auto"][k % 3])
    other = {"asset": "B2", "exchanges": case["exchanges"], "holders": case["holders"], "outs": [], "intras": [],
             "ins": [{"ts": [t0, off], "exch": 1, "holder": 1, "type": "BUY", "spot": 3 * U, "crypto_in": 5 * U}]}
    rows2, _, _ = l1.render(other, lay, rng, order=["in", "out", "intra"], junk=False, gaps=False, empty_tables="never")
    return {"case": case, "lay": lay, "rows": rows, "rowmap": rowmap, "struct": struct, "rows2": rows2, "assets": ["B1", "B2"],
            "exchanges": case["exchanges"], "holders": case["holders"], "order": order, "k": k}


def random_base(rng, k):
    """a larger random sheet (rows individually valid; the history as a whole may overdraw: in-process use only)"""
    lay = l1.gen_layout(rng)
    c = l1.decorate(l1.sheet_case(rng, n_max=8, accounts=(2, 2)), lay, rng, plain=True)
    rows, rowmap, struct = l1.render(c, lay, rng, order=l1.ORDERS[k % 6])
    other = {"asset": "B2", "exchanges": c["exchanges"], "holders": c["holders"], "outs": [], "intras": [],
             "ins": [{"ts": [hist.day_us(2020, 1, 1), 0], "exch": 0, "holder": 0, "type": "BUY", "spot": 3 * U, "crypto_in": 5 * U}]}
    rows2, _, _ = l1.render(other, lay, rng, order=["in", "out", "intra"], junk=False, gaps=False, empty_tables="never")
    return {"case": c, "lay": lay, "rows": rows, "rowmap": rowmap, "struct": struct, "rows2": rows2, "assets": ["B1", "B2"],
            "exchanges": c["exchanges"], "holders": c["holders"], "order": l1.ORDERS[k % 6], "k": k, "random": True}


def base_ini(base, lay=None):
    return l1.ini_text(lay or base["lay"], base["assets"], base["exchanges"], base["holders"])


# ----------------------------------------------------------------------------- applying a fault
def apply(base, fault):
    """-> dict(ini, sheets, lay (for the model), parse, args, country)"""
    rows = [list(r) for r in base["rows"]]
    ini = base_ini(base)
    lay = base["lay"]
    parse = ["B1"]
    args = []
    for op in fault.get("ops", []):
        kind = op[0]
        if kind == "cell":
            _, ri, ci, v = op
            while len(rows[ri]) <= ci:
                rows[ri].append(None)
            rows[ri][ci] = v
        elif kind == "delrows":
            for ri in sorted(op[1], reverse=True):
                del rows[ri]
        elif kind == "insrows":
            _, ri, new = op
            w = max(len(r) for r in rows)
            rows[ri:ri] = [list(r) + [None] * (w - len(r)) for r in new]
        elif kind == "ini":
            ini = op[1]
        elif kind == "lay":
            lay = op[1]
        elif kind == "parse":
            parse = op[1]
        elif kind == "args":
            args = op[1]
    return {"ini": ini, "sheets": {"B1": rows, "B2": base["rows2"]}, "lay": lay, "parse": parse, "args": args}


def _sub_ini(base, t=None, edit=None, drop_section=None, general=None, extra=""):
    """ini text with one section edited: edit(list of (field, value-string)) -> new list"""
    s = ""
    gen = [("assets", ", ".join(base["assets"])), ("exchanges", ", ".join(base["exchanges"])), ("holders", ", ".join(base["holders"]))]
    if general:
        gen = general(gen)
    if drop_section != "general":
        s += "[general]\n" + "".join(f"{k} = {v}\n" for k, v in gen) + "\n"
    for tt in l1.TABLES:
        if drop_section == f"{tt}_header":
            continue
        items = [(f, str(c)) for f, c in base["lay"][tt].items()]
        if tt == t and edit:
            items = edit(items)
        s += f"[{tt}_header]\n" + "".join(f"{k} = {v}\n" for k, v in items) + "\n"
    return s + extra


# ----------------------------------------------------------------------------- enumeration
def faults_of(base, rng, exhaustive_types=True):
    """every single fault of every class at every applicable position of the base"""
    F = []
    case, lay, rowmap, struct = base["case"], base["lay"], base["rowmap"], base["struct"]

    def add(cls, where, ops, **kw):
        d = {"cls": cls, "where": where, "ops": ops}
        d.update(kw)
        F.append(d)

    def cell(t, k, f):
        return rowmap[f"{t}:{k}"] - 1, lay[t][f]

    from datetime import datetime, timedelta, timezone
    for t in l1.TABLES:
        m = lay[t]
        for k, d in enumerate(case[l1.SRC[t]]):
            w = f"{t}:{k}"
            ri = rowmap[w] - 1
            # asset
            add("unknown-asset", w, [("cell", ri, m["asset"], "ZZZ")])
            add("asset-differs-from-sheet", w, [("cell", ri, m["asset"], "B2")])
            # exchange / holder
            for f in [x for x in m if x.endswith("exchange")]:
                add("unknown-exchange", f"{w}:{f}", [("cell", ri, m[f], "Nowhere")])
            for f in [x for x in m if x.endswith("holder")]:
                add("unknown-holder", f"{w}:{f}", [("cell", ri, m[f], "Nobody")])
            # naive timestamp
            dt = (datetime(1970, 1, 1, tzinfo=timezone.utc) + timedelta(microseconds=d["ts"][0])).astimezone(timezone(timedelta(seconds=d["ts"][1])))
            for fmt in NAIVE:
                add("naive-timestamp", f"{w}:{fmt}", [("cell", ri, m["timestamp"], fmt.format(dt))])
            # transaction type
            if t != "intra":
                allowed = IN_TYPES if t == "in" else OUT_TYPES
                bad = [x for x in hist.TT if x not in allowed]
                todo = bad if (exhaustive_types and k == 0) else [bad[(k + base["k"]) % len(bad)]]
                for ty in todo:
                    add("type-not-allowed", f"{w}:{ty}", [("cell", ri, m["transaction_type"], l1.mixed_case(rng, ty))])
                add("unknown-type", w, [("cell", ri, m["transaction_type"], rng.choice(["FOO", "", "BUYS", 5.0]))])
            # amounts
            neg = -rng.choice([1e-11, 1.5, 0.001])
            if t == "in":
                if d["type"] != "STAKING":
                    add("non-positive-amount", f"{w}:crypto_in=0", [("cell", ri, m["crypto_in"], 0.0)])
                    add("non-positive-amount", f"{w}:crypto_in<0", [("cell", ri, m["crypto_in"], neg)])
                for f in ("crypto_fee", "fiat_fee", "fiat_in_no_fee", "fiat_in_with_fee"):
                    if f in m:
                        add("non-positive-amount", f"{w}:{f}<0", [("cell", ri, m[f], neg)])
                for f in ("fiat_in_no_fee", "fiat_in_with_fee"):
                    if f in m:
                        add("non-positive-amount", f"{w}:{f}=0", [("cell", ri, m[f], 0.0)])
                add("negative-spot-price", w, [("cell", ri, m["spot_price"], neg)])
                add("zero-spot-price", f"{w}:0", [("cell", ri, m["spot_price"], 0.0)])
                add("zero-spot-price", f"{w}:empty", [("cell", ri, m["spot_price"], None)])
                if "crypto_fee" in m and "fiat_fee" in m:
                    add("both-fees", w, [("cell", ri, m["crypto_fee"], 0.001), ("cell", ri, m["fiat_fee"], 2.5)])
            elif t == "out":
                if d["type"] == "FEE":
                    add("non-positive-amount", f"{w}:crypto_fee=0", [("cell", ri, m["crypto_fee"], 0.0)])
                else:
                    add("non-positive-amount", f"{w}:crypto_out_no_fee=0", [("cell", ri, m["crypto_out_no_fee"], 0.0)])
                    add("zero-spot-price", f"{w}:0", [("cell", ri, m["spot_price"], 0.0)])
                add("zero-spot-price", f"{w}:empty", [("cell", ri, m["spot_price"], None)])
                for f in ("crypto_out_no_fee", "crypto_fee", "crypto_out_with_fee", "fiat_out_no_fee", "fiat_fee"):
                    if f in m:
                        add("non-positive-amount", f"{w}:{f}<0", [("cell", ri, m[f], neg)])
                for f in ("crypto_out_with_fee", "fiat_out_no_fee"):
                    if f in m:
                        add("non-positive-amount", f"{w}:{f}=0", [("cell", ri, m[f], 0.0)])
                add("negative-spot-price", w, [("cell", ri, m["spot_price"], neg)])
            else:
                add("non-positive-amount", f"{w}:crypto_sent=0", [("cell", ri, m["crypto_sent"], 0.0)])
                add("non-positive-amount", f"{w}:crypto_sent<0", [("cell", ri, m["crypto_sent"], neg)])
                add("non-positive-amount", f"{w}:crypto_received<0", [("cell", ri, m["crypto_received"], neg)])
                add("negative-spot-price", w, [("cell", ri, m["spot_price"], neg)])
                if d["crypto_sent"] != d["crypto_received"]:
                    add("zero-spot-price", f"{w}:0", [("cell", ri, m["spot_price"], 0.0)])
                    add("zero-spot-price", f"{w}:empty", [("cell", ri, m["spot_price"], None)])
                for delta in (1, 5 * U):
                    add("received-more-than-sent", f"{w}:+{delta}", [("cell", ri, m["crypto_received"], l1.fnum(d["crypto_sent"] + delta))])
            # non-numeric numbers, empty mandatory cells
            for f in m:
                if f in l1.NUMERIC:
                    add("non-numeric", f"{w}:{f}", [("cell", ri, m[f], NON_NUMERIC[(k + m[f]) % len(NON_NUMERIC)])])
            for f in l1.MANDATORY[t]:
                if f == "spot_price":
                    continue        # covered by zero-spot-price (and optional for fee-less transfers)
                add("empty-mandatory-cell", f"{w}:{f}", [("cell", ri, m[f], None)])
    # ---- table structure
    nrows = len(base["rows"])
    outside = [0] + [st["end"] + 1 for st in struct]          # positions outside every table
    datarow = base["rows"][struct[0]["data"][0]] if struct[0]["data"] else base["rows"][[s for s in struct if s["t"] == "in"][0]["data"][0]]
    for st in struct:
        t = st["t"]
        add("missing-table-end", t, [("delrows", [st["end"]])])
        for pos in range(st["kw"] + 1, st["end"] + 1):
            for kw in {l1.KEYWORD[t], l1.KEYWORD[l1.TABLES[(l1.TABLES.index(t) + 1 + pos) % 3]]}:
                add("nested-table", f"{t}@{pos}:{kw}", [("insrows", pos, [[l1.mixed_case(rng, kw)]])])
        block = [list(r) for r in base["rows"][st["kw"]:st["end"] + 1]]
        empty_block = [list(r) for r in base["rows"][st["kw"]:st["hdr"] + 1]] + [list(base["rows"][st["end"]])]
        for pos in outside:
            # an identical copy before or after the table: the later one repeats the type -- also when the earlier table of that
            # type has no data rows (the shape of finding F11, repaired: see corpus/C12/f11-repeated-table-after-empty.json)
            add("repeated-table", f"{t}@{pos}", [("insrows", pos, block)], first_empty=not st["data"])
            # the same, the copy's keyword spelled in another letter case (keywords are matched case-insensitively)
            other = [[str(block[0][0]).swapcase()] + list(block[0][1:])] + block[1:]
            add("repeated-table", f"{t}@{pos}:other-case", [("insrows", pos, other)], first_empty=not st["data"])
            if st["data"]:
                # an empty copy: after the table it repeats a non-empty table; before it, the earlier table is the empty one
                add("repeated-table", f"{t}@{pos}:empty-copy", [("insrows", pos, empty_block)], first_empty=pos <= st["kw"])
    for pos in outside:
        add("data-outside-table", f"@{pos}:row", [("insrows", pos, [datarow])])
        add("data-outside-table", f"@{pos}:TABLE END", [("insrows", pos, [["TABLE END"]])])
        add("data-outside-table", f"@{pos}:text", [("insrows", pos, [["total", 1.0]])])
    st_in = [s for s in struct if s["t"] == "in"][0]
    add("missing-in-table", "removed", [("delrows", list(range(st_in["kw"], st_in["end"] + 1)))])
    add("empty-in-table", "header-only", [("delrows", st_in["data"])])
    add("empty-in-table", "keyword-and-end-only", [("delrows", [st_in["hdr"]] + st_in["data"])])
    # a sheet that is not there at all / an asset that is not configured
    add("unknown-asset", "parse:ZZZ", [("parse", ["ZZZ"])], args=["-a", "ZZZ"])
    # ---- configuration
    add("config-unknown-section", "appended", [("ini", _sub_ini(base, extra="[foo]\nx = 1\n"))])
    add("config-unknown-section", "typo", [("ini", _sub_ini(base).replace("[out_header]", "[out_headers]"))])
    for t in l1.TABLES:
        sec = f"{t}_header"
        fields = list(lay[t])
        other_t = l1.TABLES[(l1.TABLES.index(t) + 1) % 3]
        foreign = [f for f in l1.FIELDS[other_t] if f not in l1.FIELDS[t]][0]
        free = max(lay[t].values()) + 5
        add("config-unknown-field", f"{sec}:bogus", [("ini", _sub_ini(base, t, lambda it: it + [("bogus", str(free))]))])
        add("config-unknown-field", f"{sec}:{foreign}", [("ini", _sub_ini(base, t, lambda it, foreign=foreign: it + [(foreign, str(free))]))])
        if t == "intra":
            add("type-not-allowed", "intra-config:transaction_type", [("ini", _sub_ini(base, t, lambda it: it + [("transaction_type", str(free))]))])
        for i, f in enumerate(fields):
            g = fields[(i + 1) % len(fields)]
            add("config-duplicate-column", f"{sec}:{f}", [("ini", _sub_ini(base, t, lambda it, f=f, g=g: [(k, str(lay[t][g]) if k == f else v) for k, v in it]))])
            add("config-negative-column", f"{sec}:{f}", [("ini", _sub_ini(base, t, lambda it, f=f: [(k, "-1" if k == f else v) for k, v in it]))])
            bad = ["1.5", "abc", "", "1e1", "0x1"][i % 5]
            add("config-non-integer-column", f"{sec}:{f}={bad!r}", [("ini", _sub_ini(base, t, lambda it, f=f, bad=bad: [(k, bad if k == f else v) for k, v in it]))])
            if f in l1.MANDATORY[t] and case[l1.SRC[t]]:
                lay2 = copy.deepcopy(lay)
                del lay2[t][f]
                add("config-missing-field", f"{sec}:{f}", [("ini", _sub_ini(base, t, lambda it, f=f: [(k, v) for k, v in it if k != f])), ("lay", lay2)])
        add("config-missing-section", sec, [("ini", _sub_ini(base, drop_section=sec))])
        add("config-empty-section", sec, [("ini", _sub_ini(base, t, lambda it: []))])
        add("config-duplicate-section", sec, [("ini", _sub_ini(base, extra=f"[{sec} again]\ntimestamp = 0\n"))])
    add("config-missing-section", "general", [("ini", _sub_ini(base, drop_section="general"))])
    for f in ("assets", "exchanges", "holders"):
        add("config-missing-field", f"general:{f}", [("ini", _sub_ini(base, general=lambda g, f=f: [(k, v) for k, v in g if k != f]))])
        add("config-empty-value", f"general:{f}", [("ini", _sub_ini(base, general=lambda g, f=f: [(k, "" if k == f else v) for k, v in g]))])
        add("config-duplicate-element", f"general:{f}", [("ini", _sub_ini(base, general=lambda g, f=f: [(k, v + ", " + v.split(",")[0] if k == f else v) for k, v in g]))])
        add("config-empty-element", f"general:{f}", [("ini", _sub_ini(base, general=lambda g, f=f: [(k, v + ", ," if k == f else v) for k, v in g]))])
    js = {f"{t}_header": dict(lay[t]) for t in l1.TABLES}
    js.update({"assets": base["assets"], "exchanges": base["exchanges"], "holders": base["holders"]})
    add("config-json", "valid-json-config", [("ini", json.dumps(js, indent=1))])
    add("config-json", "json-violating-schema", [("ini", json.dumps({"in_header": {"timestamp": "zero"}}))])
    add("config-json", "broken-json", [("ini", json.dumps(js, indent=1)[:-3])])
    add("config-bad-accounting-methods", "year<1970", [("ini", _sub_ini(base, extra="[accounting_methods]\n1969 = fifo\n"))])
    add("config-bad-accounting-methods", "year-not-int", [("ini", _sub_ini(base, extra="[accounting_methods]\ntwenty = fifo\n"))])
    add("config-bad-accounting-methods", "empty", [("ini", _sub_ini(base, extra="[accounting_methods]\n"))])
    return F


def option_faults(base):
    """conflicting / unsupported command-line options (checked end to end through the console scripts)"""
    F = []
    acct = "[accounting_methods]\n1970 = fifo\n"
    for c in l1.COUNTRIES:
        F.append({"cls": "method-option-and-config-section", "where": c, "country": c, "ops": [("ini", _sub_ini(base, extra=acct)), ("args", ["-m", "fifo"])]})
        for argv in (["--method=fifo"], ["-mfifo"], ["--meth", "fifo"], ["--method", "fifo"]):
            F.append({"cls": "method-option-and-config-section", "where": f"{c}:{' '.join(argv)}", "country": c, "argv": argv,
                      "ops": [("ini", _sub_ini(base, extra=acct)), ("args", ["-m", "fifo"])]})
        F.append({"cls": "unsupported-method", "where": f"{c}:-m foo", "country": c, "ops": [("args", ["-m", "foo"])]})
        F.append({"cls": "unsupported-method", "where": f"{c}:--method=foo", "country": c, "argv": ["--method=foo"], "ops": [("args", ["-m", "foo"])]})
        if c in ("es", "jp", "ie"):
            for m in ("lifo", "hifo", "lofo"):
                F.append({"cls": "unsupported-method", "where": f"{c}:-m {m}", "country": c, "ops": [("args", ["-m", m])]})
        F.append({"cls": "unsupported-method", "where": f"{c}:config foo", "country": c,
                  "ops": [("ini", _sub_ini(base, extra="[accounting_methods]\n1970 = foo\n"))]})
        F.append({"cls": "from-date-after-to-date", "where": c, "country": c, "ops": [("args", ["-f", "2021-06-01", "-t", "2021-05-31"])]})
        F.append({"cls": "unknown-asset-option", "where": c, "country": c, "ops": [("args", ["-a", "ZZZ"])]})
        F.append({"cls": "malformed-date-option", "where": c, "country": c, "ops": [("args", ["-f", "2021-13-45"])]})
    return F
