"""Audit hook of the C18 check.  This directory is put first on PYTHONPATH of the rp2 subprocess by the
harness (no change to rp2): the interpreter imports `sitecustomize` at start-up, before any rp2 code.
Every security-relevant runtime event (PEP 578) is appended as one JSON line to the file named by
RP2V_AUDIT_FILE; the file descriptor is opened before the hook is installed and written with os.write,
so the hook's own bookkeeping raises no events.  At exit the set of loaded modules is recorded."""
import os
import sys

_PATH = os.environ.get("RP2V_AUDIT_FILE")

if _PATH:
    import atexit
    import json

    _FD = os.open(_PATH, os.O_WRONLY | os.O_CREAT | os.O_APPEND, 0o600)
    _WRITE_FLAGS = os.O_WRONLY | os.O_RDWR | os.O_CREAT | os.O_TRUNC | os.O_APPEND
    _PREFIXES = ("socket.", "subprocess.", "os.exec", "os.posix_spawn", "os.spawn", "os.fork", "shutil.", "ctypes.", "urllib.",
                 "http.", "ftplib.", "smtplib.", "poplib.", "imaplib.", "nntplib.", "telnetlib.", "webbrowser.", "pty.", "tempfile.",
                 "ssl.", "winreg.", "msvcrt.", "mmap.", "sqlite3.", "syslog.")
    _EXACT = {"os.system", "os.remove", "os.rename", "os.mkdir", "os.rmdir", "os.truncate", "os.chmod", "os.chown", "os.link",
              "os.symlink", "os.utime", "os.kill", "os.killpg", "os.startfile", "os.putenv", "os.unsetenv", "os.chdir", "os.chroot",
              "os.mkfifo", "os.mknod", "os.setxattr", "os.removexattr", "os.lockf", "fcntl.flock", "fcntl.lockf", "signal.pthread_kill",
              "glob.glob/2"}
    _busy = [False]

    def _s(x):
        try:
            if isinstance(x, bytes):
                x = os.fsdecode(x)
            if isinstance(x, str):
                return x
            if isinstance(x, (int, float, bool)) or x is None:
                return x
            if hasattr(x, "__fspath__"):
                return os.fspath(x)
            return repr(x)[:200]
        except Exception:  # noqa: BLE001
            return "<unprintable>"

    def _abs(p):
        try:
            if isinstance(p, str):
                return os.path.normpath(os.path.join(os.getcwd(), p))
        except Exception:  # noqa: BLE001
            pass
        return p

    def _emit(ev, args):
        try:
            os.write(_FD, (json.dumps({"ev": ev, "args": args}) + "\n").encode("utf-8"))
        except Exception:  # noqa: BLE001
            pass

    def _hook(event, args):
        if _busy[0]:
            return
        _busy[0] = True
        try:
            if event == "open":
                path, mode, flags = (list(args) + [None, None, None])[:3]
                writing = False
                if isinstance(mode, str) and any(ch in mode for ch in "wax+"):
                    writing = True
                if isinstance(flags, int) and flags & _WRITE_FLAGS:
                    writing = True
                if writing:
                    _emit("open-write", [_abs(_s(path)), _s(mode), _s(flags)])
            elif event in _EXACT or event.startswith(_PREFIXES):
                a = [_s(x) for x in args]
                if event in ("os.remove", "os.mkdir", "os.rmdir", "os.truncate", "os.chmod", "os.chown", "os.utime"):
                    a[0] = _abs(a[0])
                if event in ("os.rename", "os.link", "os.symlink"):
                    a[0], a[1] = _abs(a[0]), _abs(a[1])
                _emit(event, a)
        except Exception:  # noqa: BLE001
            pass
        finally:
            _busy[0] = False

    def _at_exit():
        try:
            tops = sorted({m.split(".")[0] for m in list(sys.modules)})
            net = sorted(m for m in list(sys.modules) if m.split(".")[0] in (
                "socket", "_socket", "ssl", "_ssl", "subprocess", "_posixsubprocess", "multiprocessing", "ctypes", "_ctypes", "http",
                "urllib", "ftplib", "smtplib", "asyncio", "requests", "urllib3", "httpx", "aiohttp", "webbrowser", "xmlrpc", "socketserver",
                "select", "selectors"))
            _emit("modules", [tops, net])
        except Exception:  # noqa: BLE001
            pass

    atexit.register(_at_exit)
    sys.addaudithook(_hook)
    _emit("hook-installed", [sys.version.split()[0]])
