"""L3/L4: figures, yearly summary, balances, filtered views.  The model (cmd 30) is fed the
implementation's own unfiltered fractions, so these layers are compared in isolation from
the matcher."""
from harness import core, hist, l2
from harness.impl import norm_pair

MAXDAY = 2932896
PERIOD = {"us": 365, "es": 365, "jp": 2 ** 63 - 1, "ie": 2 ** 63 - 1}
CNAME = {0: "InTransaction", 1: "OutTransaction", 2: "IntraTransaction"}


def enc_str(s):
    return [len(s)] + [ord(c) for c in s]


def encode_input(case, fracs, from_day, to_day, allow):
    period = PERIOD.get(case.get("country", "us"), case.get("env") or 0)
    a = [period, 0 if from_day is None else from_day, MAXDAY if to_day is None else to_day, 1 if allow else 0]
    a.append(len(case["exchanges"]))
    for s in case["exchanges"]:
        a += enc_str(s)
    a.append(len(case["holders"]))
    for s in case["holders"]:
        a += enc_str(s)
    a += hist.encode_hist(case)
    a.append(len(fracs))
    for ev, lot, amt in fracs:
        a += [ev, 0 if lot is None else 1, 0 if lot is None else lot, amt]
    return a


class Reader:
    def __init__(self, data):
        self.d, self.i = data, 0

    def z(self):
        v = self.d[self.i]
        self.i += 1
        return v

    def dec(self):
        m, e = self.z(), self.z()
        return list(norm_pair(m, e))

    def odec(self):
        ok = self.z()
        m, e = self.z(), self.z()
        return list(norm_pair(m, e)) if ok else None

    def lst(self, f):
        n = self.z()
        return [f() for _ in range(n)]


def decode_computed(res, case):
    """model output of cmd 30 -> same shape as hist.dump"""
    if res[0] != 0:
        if res[0] == 7:
            return {"err": "negbal", "acct": res[1:3]}
        return {"err": res[0]}
    r = Reader(res)
    r.z()
    d = {}
    d["events"] = r.lst(lambda: (lambda row, c, ty, earn, amt: [row, CNAME[c], hist.TT[ty], earn, amt])(r.z(), r.z(), r.z(), r.z(), r.z()))

    def frac():
        f = {"ev": r.z()}
        has, lot = r.z(), r.z()
        f["lot"] = lot if has else None
        f["amt"] = r.z()
        f["proceeds"], f["cost"], f["gain"] = r.odec(), r.odec(), r.odec()
        f["long"] = r.z()
        f["ev_frac"] = [r.z(), r.z()]
        has, i, n = r.z(), r.z(), r.z()
        f["lot_frac"] = [i, n] if has else None
        f["ev_pct"], f["lot_pct"] = r.odec(), r.odec()
        return f
    d["fractions"] = r.lst(frac)

    def run():
        ev = r.z()
        has, lot = r.z(), r.z()
        return ((ev, lot if has else None), r.z())
    running = dict(r.lst(run))
    for f in d["fractions"]:
        f["running"] = running.get((f["ev"], f["lot"]))
    d["yearly"] = r.lst(lambda: [r.z(), hist.TT[r.z()], r.z(), r.z(), r.dec(), r.dec(), r.dec()])
    d["balances"] = r.lst(lambda: [case["exchanges"][r.z()], case["holders"][r.z()], r.z(), r.z(), r.z(), r.z()])
    d["price_per_unit"] = r.dec()
    ins = r.lst(lambda: [r.z(), r.dec(), r.dec(), r.dec()])
    in_run = {row: (a, b) for row, a, b in r.lst(lambda: (r.z(), r.z(), r.z()))}
    outs = r.lst(lambda: [r.z(), r.dec(), r.dec(), r.z()])
    out_run = {row: (a, b) for row, a, b in r.lst(lambda: (r.z(), r.z(), r.z()))}
    intras = r.lst(lambda: [r.z(), r.dec(), r.z()])
    intra_run = dict(r.lst(lambda: (r.z(), r.z())))
    sold = dict(r.lst(lambda: (r.z(), r.dec())))
    d["ins"] = [[row, in_run[row][0], in_run[row][1], sold.get(row, [0, 0]), nf, wf, fee] for row, nf, wf, fee in ins]
    d["outs"] = [[row, out_run[row][0], out_run[row][1], nf, fee, wfee] for row, nf, fee, wfee in outs]
    d["intras"] = [[row, intra_run[row], fee, tax] for row, fee, tax in intras]
    return d


KEYS = ("events", "fractions", "yearly", "balances", "price_per_unit", "ins", "outs", "intras")


def diff_keys(impl_dump, model_dump, keys=KEYS):
    out = []
    for k in keys:
        if impl_dump.get(k) != model_dump.get(k):
            out.append(k)
    return out


def gen_window(rng, case):
    days = sorted({hist.local_day(r["ts"]) for r in case["ins"] + case["outs"] + case["intras"]})
    kind = rng.below(10)
    pick = lambda: rng.choice(days) + rng.choice([0, 0, 0, 1, -1, 30, -30, 183])  # noqa: E731
    if kind < 2:
        return (None, None)
    # reversal points: a row whose own (local) day is LATER than the day of the row that follows it in time (mixed UTC offsets)
    rows = sorted(case["ins"] + case["outs"] + case["intras"], key=lambda r: r["ts"][0])
    rev = [hist.local_day(x["ts"]) for x, y in zip(rows, rows[1:]) if hist.local_day(y["ts"]) < hist.local_day(x["ts"])]
    if rev and kind < 4 and rng.chance(60):
        return (rng.choice(rev), None)       # the earlier row is inside the window, the later one (dated the day before) is not
    if kind < 4:
        return (max(0, pick()), None)
    if kind < 6:
        return (None, max(0, pick()))
    a, b = max(0, pick()), max(0, pick())
    if a > b:
        a, b = b, a
    if kind == 9:
        b = a          # one-day (often empty) window
    return (a, b)


def _impl_win(args):
    case, f, t, allow = args
    return hist.impl_compute(case, from_day=f, to_day=t, allow_neg=allow, full=True)


def model_line(case, base_impl, from_day, to_day, allow, impl=None):
    """the model's command for one (windowed) run of a case.  Constructor path: command 30, fed with the implementation's
    own unfiltered fractions.  End-to-end ("ods") case: command 31 on the cells read back from the file (the arguments
    come with the implementation's result `impl` of that very run; regenerated when it is not at hand)."""
    if l2.is_ods(case):
        args = impl.pop("line", None) if impl is not None else None
        if args is None:
            args = hist.ods_model_args(case, from_day, to_day, allow)
        return hist.line(31, [0] + args)
    fr = [(x["ev"], x["lot"], x["amt"]) for x in base_impl["ok"]["fractions"]] if "ok" in base_impl else []
    return hist.line(30, encode_input(case, fr, from_day, to_day, allow))


def run(tier):
    """windowed runs on top of the L2 base run.
    -> dict(jobs=[(case_index, from, to)], impl=[...], model=[...decoded...], base=l2 data)"""
    name = f"l4_{tier}_{core.seed()}"
    base = l2.run(tier)
    got = l2.cache_get(name)
    if got:
        got["base"] = base
        return got
    rng = core.Rng(core.seed(), 4)
    from harness import fingerprint
    limit = (4000 if tier == "quick" else 30000) * (max(fingerprint.boost("l2"), fingerprint.boost("l4")) if tier == "quick" else 1)
    jobs, n_plain = [], 0
    for idx, (c, i) in enumerate(zip(base["cases"], base["impl"])):
        if "ok" not in i:
            continue
        if l2.is_ods(c):            # the end-to-end stream is judged whole, beyond the limit
            f, t = gen_window(rng, c)
            jobs.append([idx, f, t])
            continue
        if n_plain >= limit:
            continue
        n_plain += 1
        f, t = gen_window(rng, c)
        jobs.append([idx, f, t])
    impl = core.pool_map(_impl_win, [(base["cases"][idx], f, t, True) for idx, f, t in jobs], init=core.impl_env_setup)
    lines = []
    for (idx, f, t), i in zip(jobs, impl):
        lines.append(model_line(base["cases"][idx], base["impl"][idx], f, t, True, i))
        i.pop("parsed", None)
    raw = core.run_model(lines)
    model = [decode_computed(r, base["cases"][idx]) for r, (idx, f, t) in zip(raw, jobs)]
    # the unwindowed run of every end-to-end case has been made by the L2 layer already, on both sides: judged as a job too
    for k, d in base.get("odsfull", {}).items():
        if "ok" in base["impl"][int(k)]:
            jobs.append([int(k), None, None])
            impl.append({"ok": base["impl"][int(k)]["ok"]})
            model.append(d)
    res = {"jobs": jobs, "impl": impl, "model": model}
    l2.cache_put(name, res)
    res["base"] = base
    return res
