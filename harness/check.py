"""Entry point:  check.py <property> [--tier quick|thorough] [--replay FILE]"""
import argparse
import importlib
import json
import os
import sys

sys.path.insert(0, os.path.dirname(os.path.dirname(os.path.abspath(__file__))))
from harness import core  # noqa: E402


def main():
    ap = argparse.ArgumentParser()
    ap.add_argument("prop")
    ap.add_argument("--tier", default=os.environ.get("VERIF_TIER", "quick"), choices=["quick", "thorough"])
    ap.add_argument("--replay")
    a = ap.parse_args()
    core.TIER = a.tier
    build = core.prepare()
    if not build.driver_ok:
        print("build of the executable model failed:\n" + build.make_log[-3000:])
    mod = importlib.import_module(f"harness.props.{a.prop.lower()}")
    replay = None
    if a.replay:
        replay = json.load(open(a.replay))["case"]
    rc = mod.run(a.tier, build, replay)
    sys.exit(rc)


if __name__ == "__main__":
    main()
