"""Writes MANIFEST.json from the table below (kept in one place so it stays valid)."""
import json
import os

VERIF = os.path.dirname(os.path.dirname(os.path.abspath(__file__)))
ALL = [f"C{i:02d}" for i in range(1, 21)]

CLAIMS = {
    "C01": {
        "text": "Faithful Coq model of the matcher (heap with duplicate entries, partial-amount cache, from/to index, lot in flight) vs greedy best-ranked-lot specification; "
                "theorems: generated sort keys = ranking of the property text, method kinds, unconditional re-push; every implementation run is compared with the extracted model "
                "on (event, lot) sequences and replayed against the property text (best-ranked available lot at every fraction).",
        "note": "heapq, AVL tree, list.sort stability are library behaviour; amounts on the 1e-11 grid; finding F13 (same instant, different local year) is listed in KNOWN_FINDINGS.txt.",
        "technique": "Coq proof (refinement to greedy spec) + differential correspondence + replay oracle", "design_ref": "6 C01"},
    "C02": {
        "text": "Conservation theorems on the greedy specification (positive fractions, per-event sums, no lot overspent, failure exactly when lots so far cannot cover, sell-all) transferred by refinement; "
                "implementation runs (valid, over-spending, sell-everything extensions) compared with the extracted model and with an independent conservation oracle.",
        "note": "amounts on the 1e-11 grid below 1e18; a supplied crypto_out_with_fee is taken as the amount leaving the holder.",
        "technique": "Coq proof + differential correspondence + conservation oracle", "design_ref": "6 C02"},
    "C03": {
        "text": "Coq theorems over the model regenerated from entry_types.py and the three transaction classes: the taxable-event list is a duplicate-free permutation of exactly the earn-typed acquisitions, "
                "all out-transactions and the transfers with positive fiat fee; amount and kind are the transaction's; tied by the translator and by comparing taxable events / income fractions of every run.",
        "note": "transfer fees whose fiat value rounds to 0 at 13 decimals are finding F8 (KNOWN_FINDINGS.txt).",
        "technique": "Coq proof over translated model + differential correspondence", "design_ref": "6 C03"},
    "C04": {
        "text": "Coq theorems: the proceeds / cost-basis / gain formulas re-derived from gain_loss.py on every run are (taxable fiat value x amount) / total and (lot cost x amount) / lot amount, "
                "each within 1.1e-30 relative of exact rational arithmetic (DecProofs: half-even rounding to 31 digits, division with sticky bit), gain within 5e-31 of their difference, exact re-assembly in Q, "
                "supplied fiat values win; re-assembly in the code's decimal arithmetic: the exact rational sum of the computed fractions of an event / fully consumed lot is within 1.1e-30 x |whole| (any n), their 31-digit left-to-right sum within n x 2.2e-30 x |whole|; every fraction of every run is compared digit for digit with the 31-digit decimal model and with exact rationals computed from the raw rows.",
        "note": "CPython's decimal is modelled by Base/Dec.v (validated by correspondence); 'no float' is the translator-checked FloatOperation trap + exact 31-digit agreement.",
        "technique": "Coq proof (decimal arithmetic model) + exact differential correspondence", "design_ref": "6 C04"},
    "C06": {
        "text": "Coq theorems on the model of _create_yearly_gain_loss_list/_filter_yearly_gain_loss_by_year (yearly_list, and compute's cd_yearly): every line is the exact integer sum (crypto) and the left-to-right 31-digit sums (proceeds, cost, gain) over exactly the fractions with its (event local year, type, long/short) key up to the to-date cut; every such fraction is in exactly one line, no line without fraction, keys distinct, documented order, from-year only hides lines, crypto grand total exact, fiat figures and grand totals within an explicit 5e-31-relative rounding bound of exact rational sums; refutation witness for non-monotone local dates; every windowed run compared with sums over the detail fractions and with the extracted model.",
        "note": "'Every fraction dated up to the to-date contributes' is proved under day-sortedness of the detail table (local dates monotone in time); refuted otherwise (C06_to_date_refuted, finding F9, KNOWN_FINDINGS.txt). The fiat bound is stated in terms of the computed partial sums.",
        "technique": 'Coq proof (induction over the fraction list) + differential correspondence + summation oracle', "design_ref": "6 C06"},
    "C07": {
        "text": 'Coq theorems on the model of BalanceSet: per (exchange, holder) account acquired/sent/received/final are the sums of its flows over the replayed transactions (per input table under monotone dates), final = acquired + received - sent, every touched account exactly once, per-holder totals = holder net flows and add up; reconciliation proved: sum of final balances = amount left unconsumed in lots by the matcher (sum of crypto_in minus fractions taken), also end to end from raw rows through constructors, taxable events, matcher (pipeline_wf); refutation witnesses for dust fee (F8) and inconsistent crypto_out_with_fee; runs compared with flows from raw rows, lot remainders and the extracted model.',
        "note": 'Reconciliation hypotheses (all visible in the statement): matcher input well-formed and run Ok, no to-date cut, supplied crypto_out_with_fee = amount + fee, no dust transfer fee (F8); holder indices < 100000 (model encoding). Table-by-table date filter needs monotone dates (F9).',
        "technique": 'Coq proof (invariant over the replay + conservation of the matcher) + differential correspondence + flow oracle', "design_ref": "6 C07"},
    "C08": {
        "text": "Coq theorems on balances/compute: without -n the run fails (ENegBalance only) iff after some debit the debited account's running balance is below -5e-11 (quantize(1e-10) test, proved numerically), at the first such debit, and the reported account is the debited one; any account more than 1e-10 below zero at any moment => rejected; never negative (or within 5e-11) => accepted; with -n always Ok and final balances are the net flows; -n changes nothing else in compute; overdraft-injected runs with/without -n compared with an independent replay and the model.",
        "note": "'Any moment' form assumes non-negative credits (a negative STAKING income is rejected by the matcher, not by this guard); balances between -1e-10 and -5e-11 are rejected by the code, which the property leaves open.",
        "technique": 'Coq proof (prefix characterisation of the replay) + differential correspondence + replay oracle', "design_ref": "6 C08"},
    "C10": {
        "text": "Coq theorems on compute under two windows: views are always inside the window and initial segments of the rows dated in it, and equal the date filter when lists are time-sorted and local dates monotone; detail table, all running sums and every per-fraction figure identical under any window (the matcher output is an argument of compute; compute_tax passes the same fractions); balances, average price and fraction labels are functions of the to-date only; yearly lines = whole years from the from-date's year; functional specification of the fraction numbering (index = number of earlier fractions of the same event / lot among all fractions up to the to-date, count = total; exact success/failure characterisation incl. the housekeeping quirk), proved end to end for compute_tax on parser-built histories; average-price and sold-percentage specifications; F9 refutation witness; metamorphic windowed-vs-unfiltered runs incl. average-price and whole-year summary oracles, and the extracted model.",
        "note": "'Exactly the rows in the window' needs dates monotone in time (F9; true for a single UTC offset, proved). Event labels need the block structure of the detail table (proved for the matcher's output; refuted otherwise: numbering_needs_blocks); sold % is by construction accumulated over the shown fractions only.",
        "technique": 'Coq proof + metamorphic differential correspondence', "design_ref": "6 C10"},
    "C09": {
        "text": "Coq theorems: matcher prefix stability (the matching of events <= T is a prefix of the matching of any extension dated after T, any continuation); on the aggregation layer a run with to-date D equals, in every reported field (views, labels, yearly list, balances, price, sold %), the run on the history truncated at D, for compute and end to end for compute_tax (time-sorted lists, monotone dates; well-formedness of the truncated history derived); a history extended after T keeps fractions, detail table, per-fraction figures and running sums as a prefix and the yearly lines of untouched years; F9 refutation witness at compute_tax level; metamorphic runs of the implementation (every-cut prefix search on disagreement; -t D vs truncated history) compared with each other and with the model.",
        "note": "to-date equivalence needs local dates monotone in time (finding F9); the extension theorem takes well-formedness of both histories and is stated on built transaction sets (extends_after), not on sheets.",
        "technique": "Coq proof + metamorphic differential correspondence", "design_ref": "6 C09"},
    "C11": {
        "text": "Proved for all inputs in the Coq model: for every configuration and every sheet rendered from typed source rows under any injective column map (all mandatory fields mapped, first cell of every data row non-empty and not a keyword), any junk in unmapped columns, distinct tables in any order, any number of blank rows between tables, parse_sheet cfg asset counter (render_sheet ...) = Ok (expected ...). Every field is read from its assigned column; each set's row ids are exactly the table's data-row numbers in sheet order; numbers are the half-even rounding of the cell's double to 11 decimals (|error| <= 5e-12, exact for doubles within 5e-12 of an 11-decimal value); empty optionals default as documented; a crypto fee on an acquisition becomes the acquisition plus an artificial FEE disposal at the same instant/account, coin flow crypto_in - fee, cost basis unchanged.",
        "note": "Model tied to the source by translator fragment 'parser' (format precision, TABLE END, table keywords, constructor parameter order / mandatory / RP2Decimal-typed lists, _HEADER_COLUMNS) and by a correspondence run on real .ini/.ods files: implementation = extracted model = independent Python oracle, field by field incl. unique_id/notes, artificial ids and the cross-sheet id counter. binary64 rounding is not modelled (C11_num11_exact_double_partial takes the half-ulp distance as hypothesis; the check validates it on every generated value). dateutil, ezodf cell reading and configparser are libraries (oracle tables / tokenised input). Known finding F15 (dust acquisition with crypto fee rejected).",
        "technique": "Coq proof of a parse-after-render round trip over a faithful parser model + translated source constants + differential correspondence against an independent oracle", "design_ref": "6 C11"},
    "C12": {
        "text": "Proved in the Coq model: every fault class of the property text is rejected at every position: constructors (14 types x IN/OUT exact tables, transfers always MOVE, non-positive amounts with the STAKING exception, zero/negative spot where required, both fee kinds, received > sent, fee without spot); one bad cell in any field of any table row (unknown asset/exchange/holder, timestamp without zone, unknown type, non-numeric, empty mandatory), asset differs from sheet; the table state machine (nested table, blank row inside a table, TABLE END or data outside a table); a repeated table of any type already begun, with or without data rows in the earlier table, is rejected after any accepted prefix (C12_repeated_table_step, C12_repeated_table_rejected, resting on C12_code_remembers_tables which is read from parse_ods by the translator and does not compile against a parser that tests the transaction set for emptiness); a faulty row after ANY accepted prefix and before ANYTHING makes parse_sheet fail (also spelled out on rendered sheets); missing TABLE END; missing or empty IN table; unknown asset; header line faults at any line, section faults at any section, missing mandatory section/field; option conflicts (-m plus [accounting_methods], unsupported method, from > to, unknown -a, unknown method in config); any front-end rejection of any asset after any accepted ones => exit != 0 and no report, whatever later stages do.",
        "note": "Fault stream on real .ini/.ods files: every class at every row/field/table/section position of small valid inputs; the implementation must raise and the model must return Err; the five console scripts on a sample per class (rp2_us always) plus all option faults must give exit != 0, an error message, and no .ods in the output directory. Fault-free bases are checked to run to completion under all five scripts. Translator fragment 'parser' supplies the repeated-table guard, format precision, keywords and constructor parameter tables; if unrecognised, the accepted fragment is used and the stream is doubled. configparser/json/jsonschema/argparse rejections are library behaviour (counted separately). F11 (repeated table accepted after an empty table of its type) is repaired in /repo: its replay runs first on every run and C12_repeated_table_refuted keeps the witness for the old behaviour.",
        "technique": "Coq case lemmas per fault class with universal position quantification (prefix/suffix lemmas on the state machine) + exhaustive single-fault injection against the implementation (in-process and CLI)", "design_ref": "6 C12"},
    "C13": {
        "text": "Proved for all inputs on the Coq model of the report writer, whose layout tables (columns, header shapes, gaps, sheet-size formulas, repair flags) are regenerated from the source on every run: each transaction, yearly line, balance, holder total, fraction and Summary line of the window is written on exactly one row of its table, at table start + index in the time-sorted list; that row carries ComputedData's figures (running sums, sold %, amount, proceeds, cost, gain, LONG/SHORT) and the k/n labels of GainLossSet's numbering (whose functional specification is proved in C10); row ranges are disjoint; no write leaves a sheet while at most 21 holders have a balance (bound shown tight by a witness, finding F12); the Legend states the method(s) and the filters. That the .ods holds the modelled cells is not proved: it is checked cell by cell on every run (values, sheet names, order and sizes; generated multi-asset reports x 5 countries / 6 language packs), and an independent oracle reads the file against ComputedData and the input.",
        "note": "The theorems concern the model. Styles, static label texts (checked only to be non-empty) and template sizes are inputs. Sold % and running sums are ComputedData's. Labels get an independent count only for monotone local dates (F9). Known finding F12 (more than 21 holders with a balance overflow the Tax sheet). F10 and F2 are repaired in /repo; their replays run first on every run.",
        "technique": "Coq proof over an executable layout model with translated tables + cell-by-cell differential correspondence (fresh interpreter per report) + independent table-level oracle", "design_ref": "6 C13"},
    "C15": {
        "text": "Proved in Coq (unbounded, on the executable model Model/OpenPos.v, whose expressions, column tables and constants are re-translated from open_positions.py on every run): listed assets = assets with a lot whose cost x (1 - sold %) is > 0, which implies an unsold remainder; every holder, and every (exchange, holder), with final balance > 0 appears exactly once, with the summed or own final balance, and the balance cell finally holds it; exact identities in Q: realised + unrealised = acquired, weights sum to 1, rows sum to the asset cost, divisor = sum of counted balances; decimal accuracy bounds with E n = (1+5e-31)^n - 1 for sold %, lot unrealised cost, asset cost and per-row unit, cost and weight; grand total > 0 and per-unit divisor > 0; the report is produced when every listed asset has a positive balance (which follows from the C07 reconciliation, carried as a hypothesis); all writes land within sheet capacity. Corresponded, not proved: that the .ods on disk contains these cells; the real plugin runs in a fresh interpreter and is compared cell by cell (extra cells included) and judged by an independent exact-rational oracle. Refuted: 'every valid input yields the report', by the dust-transfer-fee KeyError witness (known finding).",
        "note": "Hypotheses kept visible: op_wf (structural parts proved for compute outputs; 'lot not overspent' is C02); the C07 reconciliation where a positive balance is needed (fails under F8); size bounds (lot cost x E(K+3) < 4.9e-14, per-unit cost < 1e18); dates_monotone for to-date runs. Partial: the combined decimal inequality |sum of weights - 1| <= bound is not assembled; 'unsold remainder => listed' is false below 5e-14 (known finding cost-below-resolution); styles and the Legend sheet are not modelled. Oracle criterion: a cell's double must lie between the correctly rounded doubles of v +/- t with t = N x 1e-28 x (cost of the asset's lots), N = 4 x (lots + fractions) + 16.",
        "technique": "Coq proof (fold invariants, layout invariants, Q-arithmetic error composition on DecProofs) over a translated model + cell-by-cell differential correspondence + exact-rational oracle", "design_ref": "6 C15"},
    "C16": {
        "text": "PARTIAL. Proved over a control-flow model of rp2_main._rp2_main_internal and tables regenerated from the working tree on every run (country tables, template/catalogue/plugin inventory, repair flags): templates exist for every (country, generator of that country, language the country ships); generator discovery finds exactly the configured generators; a supported, valid run exits 0 having written exactly prefix+method|mixed+_+report for every configured generator, under the hypotheses not (jp with -f and -t) and at most 21 holders per asset (refutation witnesses for both, and for jp's default language). Only corresponded: that the real generators fail exactly under the modelled conditions, and everything below RP2's control flow: real subprocess runs of the five entry points over methods x shipped languages x {none, from, to, both} including mid-year and no-taxable-event windows x 6 input shapes, [accounting_methods] schedules, 21/22 holders, -n, and rejected combinations. Oracle: exit 0 and every configured report present and readable. Correspondence: exit status and file list equal MainRun.run.",
        "note": "Findings F6 (jp default language ja has no templates), F7 (jp rejects -f together with -t after two reports were written), F12 (more than 21 holders) are in KNOWN_FINDINGS.txt with their refutation theorems; F2, F4, F10 are repaired in /repo (replays in corpus/C16 run first; the property file does not compile on a tree without those repairs). Report generators enter the model as 'succeeds unless a known condition holds' (their internals are C13/C14/C15/C20). The input facts the model receives (taxable types in the window, hidden summary year, holders, negative balance) are computed by the harness.",
        "technique": "Coq proof over translated tables (finite forallb lifted by forallb_forall) + CLI matrix correspondence + oracle", "design_ref": "6 C16"},
    "C18": {
        "text": "PARTIAL. Proved over the import and call-site tables regenerated from every *.py under src/rp2: every import is on the allow-list and none is a networking, process or foreign-code facility; every dynamic import has the constant prefix rp2.plugin.; no exec/eval/compile, process or network call site; every file-modifying call site is one of the modelled ones, each at most once; every file a modelled run writes lies in {./log/rp2_*.log} U {outdir/prefix+label+_+report}, which cannot coincide with a path that ends neither in .log nor in _<report name>. Only corresponded: real runs (valid matrix plus 12 kinds of invalid input x 5 entry points) under a PEP 578 audit hook: no network or process event, every written/created/renamed/removed path inside the output directory or ./log and inside the model's write set, SHA-256 of input and config unchanged, before/after snapshot of the temp tree, no new network-capable module loaded. A self-test proves the hook fires.",
        "note": "C extensions that bypass audit events are not observed. rp2_config's own open(ini, 'w') is listed as a modelled site and is not run. Runs use PYTHONDONTWRITEBYTECODE=1. The allow/deny lists are policy (harness/translate/policy_l6.py), not derived from rp2.",
        "technique": "Coq proof over translated import/call-site tables + audit-hook correspondence + hook self-test", "design_ref": "6 C18"},
    "C19": {
        "text": "Proved on the model for the source as repaired (row map emptied per asset, guarded year lookup; both read from the source as flags, so the property file does not compile on a tree without the repairs), under row ids distinct within an asset: after an asset's tables the transaction-to-row map is exact on the transactions shown and empty elsewhere, whatever earlier assets left; every linked cell of a gain/loss row points to '<asset> In-Out', to the row that was written from that very transaction; a subject hidden by the window carries no link; a Summary line links to the first gain/loss row of its year (local years monotone, F9) or carries no link, and the lookup never fails; refutation witnesses (vm_compute) for the unrepaired generator on the stored F3/F2 inputs. Whether the file contains these formulas is corresponded, not proved: every HYPERLINK of every generated report is parsed, dereferenced and compared field by field with the input transaction, and the link map is compared with the model.",
        "note": "F9: with mixed UTC offsets the rows of one local year may be split and the Summary link goes to the first row of the last group (known finding). F3 and F2 are repaired in /repo; their replays run first on every run.",
        "technique": "Coq proof (map invariant across assets) over a translated layout model + link-dereferencing oracle + differential correspondence", "design_ref": "6 C19"},
    "C20": {
        "text": "Proved on the Coq model of tax_report_jp.py (operations = template cells + insert_rows + _fill_cell; row arithmetic, columns, every fixed formula text, template geometry and the structural flags re-read from the source on each run): one sheet per (asset, local year with a visible transaction) in ascending order with distinct names; each row-bearing transaction of the year on exactly one row 21+k with its cells as final content; all writes and insertions within capacity; one summary sheet per year, line j at row 7+j pointing at that asset-year's own result cells; opening-balance cells reference the closing cells of the greatest earlier year that has a sheet, literal 0 if none; the generator produces the report for every input the engine accepts (no cell is ever handed None) unless both -f and -t are given; the behaviour before the fixes (F5, F14) is refuted by two vm_compute witnesses for the unrepaired flags. Corresponded: every generated tax_report_jp.ods (fresh interpreter per report, en and kl) is compared cell by cell, static cells included, with the extracted model, and judged by an independent oracle that dereferences every cross-sheet formula.",
        "note": "That the file on disk contains these cells is only as strong as the correspondence. ezodf (copy, insert_rows, set_value), float(Decimal) and the yen float formatting are library behaviour rendered by the harness. Legend sheet and styles are not covered. Names-distinct needs years 1..9999 and distinct asset names. Yen values are amount x spot (the writer ignores supplied fiat columns). -f together with -t is excluded (F7, see C16).",
        "technique": "Coq proof over a translated layout model + cell-by-cell differential correspondence + formula-dereferencing oracle", "design_ref": "6 C20"},
    "C05": {
        "text": "Coq theorems (C05.v) over the model regenerated from gain_loss.py and the country plugins on every run: flag = (instant difference >= period*24h), "
                "income always short, independence from offsets, 365 for US/ES, never for JP/IE within Python's date range, configured value for generic; "
                "tied to the code by the translator (formula and periods re-derived from the AST) and by running GainLoss.is_long_term_capital_gains() "
                "under every country object on boundary-centred timestamp pairs against the extracted model and against an independent oracle.",
        "note": "timedelta.days, int() and os.environ are library behaviour; the env-variable parsing of the generic plugin is corresponded on a fixed stream, not proved.",
        "technique": "Coq proof over translated model + differential correspondence (extracted OCaml)",
        "design_ref": "6 C05",
    },
}


def main():
    checks = []
    for pid in ALL:
        if pid not in CLAIMS:
            continue
        c = CLAIMS[pid]
        checks.append({
            "property_id": pid,
            "quick_cmd": f"./check {pid} --tier quick",
            "thorough_cmd": f"./check {pid} --tier thorough",
            "evidence_file": f"/verif/evidence/{pid}.json",
            "replay_cmd_template": f"./check {pid} --replay {{path}}",
            "engine": "coq-rp2v",
            "level_claimed": {"category": "proof", "text": c["text"], "design_ref": c["design_ref"]},
            "level_note": c["note"],
            "technique": c["technique"],
        })
    m = {
        "version": 1,
        "setup_cmd": "./setup.sh",
        "hooks": {
            "guard": "RP2_VERIF",
            "enable": "no source hooks are needed: all observation goes through rp2's public API, its CLI, an interpreter audit hook installed from the harness and reading back ODS files",
            "baseline_off_cmd": "cd /repo && /venv/bin/python -m pytest -ra -q -p no:cacheprovider --timeout=900 --continue-on-collection-errors",
            "source_commits": [],
            "add_only": True,
        },
        "engines": [{
            "name": "coq-rp2v", "path": "/verif/coq",
            "serves_properties": sorted(CLAIMS),
            "kind_free_text": "Coq 8.16 development (model regenerated by a Python-ast translator + hand-written executable model, theorems per property) "
                              "extracted to OCaml and compared with the implementation on generated inputs",
        }],
        "checks": checks,
        "notes": "See DESIGN.md. Every check re-translates /repo, rebuilds the Coq development, re-checks the property theorems and runs the correspondence.",
        "not_applicable": [{"property_id": p, "reason": "check not built yet in this round (planned, see DESIGN.md section 6)"}
                           for p in ALL if p not in CLAIMS],
    }
    with open(os.path.join(VERIF, "MANIFEST.json"), "w", encoding="utf-8") as f:
        json.dump(m, f, indent=1)
        f.write("\n")


if __name__ == "__main__":
    main()
