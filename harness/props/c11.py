"""C11 -- parsed transactions equal the spreadsheet rows for any column layout.

Valid (config, sheet) pairs are generated, written as real .ini/.ods files, parsed by the implementation
(Configuration + open_ods + parse_ods) and by the extracted Coq model (on the cell grid read back from the
same file).  An independent oracle (l1.expected) computes what the property text demands from the generating
case alone; the implementation is judged against the oracle (-> concrete failing input) and against the model
(correspondence)."""
import glob
import json
import os
import shutil

from harness import core, hist, l1

FIELD_NAMES = {
    "ins": ["row", "instant", "utc offset", "exchange", "holder", "transaction_type", "spot_price", "crypto_in", "crypto_fee",
            "fiat_in_no_fee", "fiat_in_with_fee", "fiat_fee"],
    "outs": ["row", "instant", "utc offset", "exchange", "holder", "transaction_type", "spot_price", "crypto_out_no_fee", "crypto_fee",
             "crypto_out_with_fee", "fiat_out_no_fee", "fiat_fee", "fiat_out_with_fee"],
    "intras": ["row", "instant", "utc offset", "from_exchange", "from_holder", "to_exchange", "to_holder", "spot_price", "crypto_sent",
               "crypto_received", "crypto_fee", "fiat_fee"],
}


def gen_bundle(rng, k, tier):
    """one valid input: 1 or 2 sheets (assets) sharing a configuration"""
    style = rng.below(100)
    two = style < 12
    big = 12 <= style < 20
    ne, nh = rng.range(1, 3), rng.range(1, 3)
    lay = l1.gen_layout(rng, compact=rng.chance(20))
    assets = ["B1", "B2"] if two or rng.chance(30) else ["B1"]
    parse = ["B1", "B2"] if two else ["B1"]
    b = {"lay": lay, "assets": assets, "parse": parse, "cases": {}, "rows": {}, "rowmaps": {}, "order": {}, "k": k}
    for a in parse:
        c0 = l1.sheet_case(rng, n_max=10 if tier == "quick" else 14, big=big, asset=a, accounts=(ne, nh))
        if "crypto_fee" in lay["in"] and rng.chance(2):
            # dust acquisition with a crypto fee (finding F15): fiat value of the acquisition below 5e-14
            c0["ins"].append({"ts": list(c0["ins"][-1]["ts"]), "exch": 0, "holder": 0, "type": "BUY", "spot": 100000, "crypto_in": 1000, "crypto_fee": 1})
        c = l1.decorate(c0, lay, rng)
        order = l1.ORDERS[(k + (1 if a == "B2" else 0)) % 6]
        rows, rowmap, _ = l1.render(c, lay, rng, order=order)
        b["cases"][a], b["rows"][a], b["rowmaps"][a], b["order"][a] = c, rows, rowmap, order
    b["exchanges"], b["holders"] = b["cases"]["B1"]["exchanges"], b["cases"]["B1"]["holders"]
    if k % 4 == 2:
        # the run has a reporting window (-f / -t): what is READ from the sheet must not depend on it (the window only selects the
        # filtered views); drawn on / next to the transactions' own days
        days = sorted({hist.local_day(r["ts"]) for c in b["cases"].values() for key in ("ins", "outs", "intras") for r in c[key]})
        pick = lambda: rng.choice(days) + rng.choice([0, 0, 1, -1])  # noqa: E731
        w = sorted([pick(), pick()])
        b["window"] = [[w[0], None], [None, w[1]], w, [w[1] + 1, w[1] + 400]][rng.below(4)]
    if not two and len(assets) == 2 and rng.chance(50):
        b["rows_extra"] = {"B2": [[None]]}           # an unrelated, empty sheet that is not parsed
    return b


def job_of(b, d):
    sheets = dict(b["rows"])
    sheets.update(b.get("rows_extra", {}))
    counters, c = [], 0
    for a in b["parse"]:
        counters.append(c)
        c = l1.expected(b["cases"][a], b["lay"], b["rowmaps"][a], c)["counter"]
    return {"dir": d, "k": b["k"], "ini": l1.ini_text(b["lay"], b["assets"], b["exchanges"], b["holders"]), "sheets": sheets,
            "parse": b["parse"], "lay": b["lay"], "assets": b["assets"], "exchanges": b["exchanges"], "holders": b["holders"],
            "counters": counters, "window": b.get("window")}


def run_one(args):
    b, d = args
    return l1.run_job(job_of(b, d))


def diff_sets(exp, got):
    """-> list of human-readable differences between two dumps (sets ordered by instant, stable)"""
    bad = []
    for key in ("ins", "outs", "intras"):
        e, g = exp[key], got[key]
        er, gr = [x[0] for x in e], [x[0] for x in g]
        if sorted(er) != sorted(gr):
            missing = [r for r in er if r not in gr]
            extra = [r for r in gr if r not in er]
            dup = sorted({r for r in gr if gr.count(r) > 1})
            bad.append(f"{key}: rows {missing} skipped, rows {extra} unexpected, rows {dup} read twice (expected rows {er}, got {gr})")
            continue
        if er != gr:
            bad.append(f"{key}: order of transactions {gr}, expected {er}")
            continue
        for x, y in zip(e, g):
            for i, (u, v) in enumerate(zip(x, y)):
                if u != v:
                    bad.append(f"{key} row {x[0]}: field {FIELD_NAMES[key][i]} = {v}, expected {u}")
            if len(y) != len(x):
                bad.append(f"{key} row {x[0]}: transaction type {y[len(x):]} (expected MOVE)")
    return bad


def diff_meta(exp, got, asset):
    bad = []
    for row, (uid, notes, split) in exp["meta"].items():
        g = got["meta"].get(row)
        if g is None:
            continue
        if g[0] != uid:
            bad.append(f"row {row}: unique_id {g[0]!r}, expected {uid!r}")
        if len(g) > 2 and g[2] != asset:
            bad.append(f"row {row}: asset {g[2]!r}, expected {asset!r}")
        if notes is None:
            continue
        if split:
            if not (g[1].startswith(notes + "; ") if notes else True):
                bad.append(f"row {row}: notes {g[1]!r} do not start with the sheet's notes {notes!r}")
        elif g[1] != notes:
            bad.append(f"row {row}: notes {g[1]!r}, expected {notes!r}")
    return bad


def dust_rows(b):
    """acquisitions with a crypto fee whose derived fiat value rounds to 0 at 13 decimals (finding dust-crypto-fee-split)"""
    out = []
    for a in b["parse"]:
        for k, d in enumerate(b["cases"][a]["ins"]):
            if d.get("crypto_fee") and "crypto_fee" in b["lay"]["in"] and not (d.get("fiat_in_no_fee") and "fiat_in_no_fee" in b["lay"]["in"]):
                if hist.round_half_even_13(d["crypto_in"] * d["spot"]) == 0:
                    out.append((a, k))
    return out


def judge(out, b, res, mres, cfg_m, stats):
    """compare implementation / oracle / model for one bundle"""
    case = {k: b[k] for k in ("lay", "assets", "parse", "cases", "rows", "rowmaps", "order", "exchanges", "holders", "k", "window", "rows_extra") if k in b}
    if "rows_extra" in b:
        case["rows_extra"] = b["rows_extra"]
    imp = res["impl"]
    lay_pairs = {t: [[l1.FIELDS[t].index(f), c] for f, c in b["lay"][t].items()] for t in l1.TABLES}
    if "err" in imp["config"]:
        out.violation(f"valid configuration rejected: {imp['config']['msg']}", case, tags={"config-rejected"})
        return
    ic = imp["config"]["ok"]
    for t in l1.TABLES:
        if sorted(ic[t]) != sorted(lay_pairs[t]):
            out.violation(f"{t}_header: configuration maps fields to columns {ic[t]}, the file says {lay_pairs[t]}", case, tags={"config-maps"})
    if cfg_m is not None:
        if "err" in cfg_m:
            out.violation(f"model rejects the valid configuration ({cfg_m['err']})", case, tags={"correspondence"}, found_input=False)
        else:
            for t in l1.TABLES:
                if cfg_m[t] != ic[t]:
                    out.violation(f"model/implementation disagree on {t}_header: impl {ic[t]} / model {cfg_m[t]}", case, tags={"correspondence"},
                                  found_input=False)
            if sorted(cfg_m["assets"]) != ic["assets"] or sorted(cfg_m["exchanges"]) != ic["exchanges"] or sorted(cfg_m["holders"]) != ic["holders"]:
                out.violation("model/implementation disagree on the [general] sets", case, tags={"correspondence"}, found_input=False)
    counter = 0
    dust = dust_rows(b)
    for i, a in enumerate(b["parse"]):
        exp = l1.expected(b["cases"][a], b["lay"], b["rowmaps"][a], counter)
        counter = exp["counter"]
        for n in exp["oracle_notes"]:
            out.violation(f"oracle self-check failed: {n}", case, tags={"oracle"}, found_input=False)
        m = l1.decode_parsed_full(mres[i]) if mres[i] is not None else {"err": "no-cells"}
        if i >= len(imp["parsed"]):
            break
        ip = imp["parsed"][i]
        if "err" in ip:
            tags = {"valid-input-rejected", a}
            if any(x[0] == a for x in dust):
                tags = {"dust-crypto-fee-split"}
            out.violation(f"valid sheet {a} rejected: {ip['err']}: {ip['msg']}", case, tags=tags)
            if "err" not in m and not any(x[0] == a for x in dust):
                out.violation(f"model accepts sheet {a}, implementation raises", case, tags={"correspondence"}, found_input=False)
            stats["rejected"] += 1
            break
        got = ip["ok"]
        bad = diff_sets(exp, got) + diff_meta(exp, got, a) + l1.split_semantics(b["cases"][a], b["lay"], b["rowmaps"][a], got)
        if got.get("filtered_differs"):
            bad.append(f"filtered sets differ from the unfiltered ones without a date filter: {got['filtered_differs']}")
        if bad:
            out.violation(f"sheet {a}: " + "; ".join(bad[:4]), case, tags={"field-mismatch", a})
        if "err" in m:
            out.violation(f"model fails ({m['err']}) on sheet {a} where the implementation succeeds", case, tags={"correspondence"}, found_input=False)
            stats["mism"] += 1
        else:
            mb = diff_sets(m, got)
            for row, (uid, notes) in m["meta"].items():
                g = got["meta"].get(row)
                if g is None:
                    mb.append(f"meta of row {row} missing")
                elif g[0] != uid or (notes is not None and not (g[1] == notes or (notes and g[1].startswith(notes + "; ")) or (not notes and row in exp["meta"] and exp["meta"][row][2]))):
                    mb.append(f"row {row}: unique_id/notes impl {g[:2]} / model {[uid, notes]}")
            if mb:
                stats["mism"] += 1
                out.violation(f"model/implementation disagree on sheet {a}: " + "; ".join(mb[:3]), case, tags={"correspondence"}, found_input=False)
        stats["rows"] += len(got["ins"]) + len(got["outs"]) + len(got["intras"])
        stats["splits"] += sum(1 for r in got["outs"] if r[0] < 0)
    else:
        if imp.get("counter") != counter:
            out.violation(f"artificial id counter after the run is {imp.get('counter')}, expected {counter}", case, tags={"artificial-ids"})


def num_stream(rng, n):
    """doubles for the numeric-conversion stream: all-11-decimals values, 1e-11, ties of the binary value, large values"""
    vals = []
    for k in range(n):
        s = rng.below(8)
        if s == 0:
            u = rng.range(1, 10 ** 6)
        elif s == 1:
            u = rng.range(1, 2 ** 52)
        elif s == 2:
            u = rng.range(2 ** 52, 10 ** 20)
        elif s == 3:
            vals.append((rng.range(1, 2 ** 30) * 2 + 1) / 2 ** rng.range(1, 40))      # exactly representable, long binary tail
            continue
        elif s == 4:
            vals.append(rng.range(0, 10 ** 6) + rng.choice([2 ** -12, 2 ** -13 * 3, 0.5 ** 37 * 5]))
            continue
        elif s == 5:
            u = rng.choice([1, 2, 5, 10 ** 11, 10 ** 11 + 1, 123456789012, 99999999999, 4 * 10 ** 15 + 1])
        elif s == 6:
            u = rng.range(1, 10 ** 13) * 10 ** rng.range(0, 6)
        else:
            u = rng.range(1, 10 ** 16)
        vals.append(l1.fnum(u))
    return vals


def num_impl(vals):
    """what the implementation's conversion yields for each double, in 1e-11 units (exact Decimal)"""
    from decimal import Decimal
    from rp2.configuration import Configuration  # noqa: F401
    from rp2.ods_parser import _process_constructor_argument_pack
    from harness import impl
    cfg = impl.make_config(impl.country_obj("us"), ["B1"], ["E0"], ["H0"])
    out = []
    for v in vals:
        try:
            pack = _process_constructor_argument_pack(cfg, {"spot_price": v}, 1, "InTransaction")
            d = Decimal(pack["spot_price"]).scaleb(11)
            out.append(int(d) if d == d.to_integral_value() else ["off-grid", str(pack["spot_price"])])
        except Exception as exc:  # noqa: BLE001
            out.append(["err", type(exc).__name__])
    return out


def run(tier, build, replay=None):
    out = core.Outcome("C11", tier)
    proofs = core.check_proofs(build, "C11.v")
    rng = core.Rng(core.seed(), 11)
    n = 5000 if tier == "quick" else 30000
    if str(build.translator.get("parser", "")).startswith("fallback"):
        n *= 2                   # the parser fragment was not recognised: the model runs on the accepted tables, boost the stream
    bundles = []
    if replay:
        bundles = [replay]
    else:
        for f in sorted(glob.glob(os.path.join(core.VERIF, "corpus", "C11", "*.json")) + glob.glob(os.path.join(core.VERIF, "findings", "C11-*.json"))):
            bundles.append(json.load(open(f))["case"])
        ncorpus = len(bundles)
        for k in range(n):
            bundles.append(gen_bundle(rng, k, tier))
        for i, b in enumerate(bundles):
            b["k"] = i
    d = l1.workdir()
    stats = {"rows": 0, "splits": 0, "mism": 0, "rejected": 0}
    try:
        results = core.pool_map(run_one, [(b, d) for b in bundles], init=core.impl_env_setup)
    finally:
        shutil.rmtree(d, ignore_errors=True)
    lines, index = [], []
    for bi, r in enumerate(results):
        for li, ln in enumerate(r["lines"]):
            if ln is not None:
                index.append((bi, li))
                lines.append(ln)
        if r["secs"] is not None:
            index.append((bi, "cfg"))
            lines.append(hist.line(42, l1.encode_sections(r["secs"])))
    mout = core.run_model(lines) if build.driver_ok else []
    per = {}
    for (bi, li), mr in zip(index, mout):
        per.setdefault(bi, {})[li] = mr
    orders, layouts, nontriv = {}, set(), set()
    for bi, (b, r) in enumerate(zip(bundles, results)):
        pm = per.get(bi, {})
        mres = [pm.get(li) for li in range(len(b["parse"]))]
        cfg_m = l1.decode_config(pm["cfg"]) if "cfg" in pm else None
        judge(out, b, r, mres, cfg_m, stats)
        for a in b["parse"]:
            o = "-".join(b["order"][a]) if isinstance(b.get("order"), dict) else "?"
            orders[o] = orders.get(o, 0) + 1
        layouts.add(core.case_hash(b["lay"]))
        c = b["cases"]["B1"]
        if len(c["ins"]) + len(c["outs"]) + len(c["intras"]) >= 3 and any(v != i for t in l1.TABLES for i, v in enumerate(b["lay"][t].values())):
            nontriv.add(core.case_hash(b["cases"]))
    # numeric conversion stream: implementation vs exact half-even rounding of the double (oracle) vs model
    nvals = num_stream(core.Rng(core.seed(), 111), 3000 if tier == "quick" else 200000) if not replay else []
    if nvals:
        core.impl_env_setup()
        got = num_impl(nvals)
        mnum = core.run_model([f"45 {v.as_integer_ratio()[0]} {v.as_integer_ratio()[1]}" for v in nvals]) if build.driver_ok else []
        for i, (v, g) in enumerate(zip(nvals, got)):
            e = l1.num11_of_float(v)
            if g != e:
                out.violation(f"numeric cell {v!r}: parsed as {g}e-11, exact half-even rounding to 11 decimals is {e}e-11", {"num": repr(v)},
                              tags={"numeric-conversion"})
                break
            from fractions import Fraction
            if abs(Fraction(e, 10 ** 11) - Fraction(v)) > Fraction(5, 10 ** 12):
                out.violation(f"numeric cell {v!r}: fewer than 11 decimals kept", {"num": repr(v)}, tags={"numeric-conversion"})
            if mnum and (mnum[i][0] != 0 or mnum[i][1] != g):
                out.violation(f"model/implementation disagree on the conversion of {v!r}: impl {g} model {mnum[i]}", {"num": repr(v)},
                              tags={"correspondence"}, found_input=False)
                break
    core.proofs_verdict(out, proofs, build, "C11.v")
    out.coverage.update({
        "evaluations": len(bundles) + len(nvals),
        "distinct_nontrivial": len(nontriv),
        "rule": "valid (config, sheet) pairs written as real .ini/.ods files: random injective column maps with junk columns, all 6 table "
                "orders, blank rows, empty optionals, mixed-case keywords/types, several timestamp spellings, crypto-fee acquisitions, 1-2 sheets "
                "per file; non-trivial = at least 3 transactions and a non-identity column map",
        "samples": [{"lay": b["lay"], "order": b.get("order"), "rows_B1": b["rows"]["B1"][:6]} for b in bundles[:2]],
        "traces_validated_against_impl": len(bundles),
        "correspondence_mismatches": stats["mism"],
        "transactions_compared": stats["rows"],
        "crypto_fee_splits": stats["splits"],
        "table_orders": orders,
        "distinct_layouts": len(layouts),
        "numeric_conversion_values": len(nvals),
    })
    out.assumptions = [
        "timestamp strings are parsed by python-dateutil (library): the model receives its verdict (instant, offset / naive / bad) per distinct string",
        "cell values are what ezodf's Cell.value returns for the written file (None / str / float / bool); the model runs on the grid read back from the same file",
        "configparser tokenises the .ini file (library); the model validates the tokenised sections",
        "valid sheets: first column holds a mandatory field whose values are neither empty nor a table keyword; header row is not itself a constructible transaction",
        "numbers with |value| >= 2^52 * 1e-11 carry the double's own digits (documented behaviour of reading through a float)",
    ]
    return out.finish(proofs, build)
