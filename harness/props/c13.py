"""C13 -- the full report shows every transaction and fraction once, with the computed values."""
from harness import core, full_oracle, l5full


def run(tier, build, replay=None):
    out = core.Outcome("C13", tier)
    proofs = core.check_proofs(build, "C13.v")
    recs = l5full.judge_cases([replay]) if replay else l5full.run(tier)["records"]
    nontriv, mism, rejected, generated, cells = set(), 0, 0, 0, 0
    kinds, countries, windows = {}, {}, {"none": 0, "from": 0, "to": 0, "both": 0}
    for rec in recs:
        multi = rec["case"]
        if rec["c13"] is None:
            rejected += 1
            continue
        kinds[multi.get("kind", "?")] = kinds.get(multi.get("kind", "?"), 0) + 1
        countries[f"{multi['country']}/{multi['lang']}"] = countries.get(f"{multi['country']}/{multi['lang']}", 0) + 1
        f, t = multi.get("from"), multi.get("to")
        windows["none" if f is None and t is None else "from" if t is None else "to" if f is None else "both"] += 1
        shrunk = None
        for text, tags in rec["c13"][:3]:
            tags = set(tags)
            if shrunk is None:
                shrunk = l5full.shrink(multi, lambda m, r, tg=tags: any(tg <= t2 for _, t2 in (full_oracle.judge_c13(m, r) or [])))
            out.violation(text, shrunk, tags=tags)
        if not rec["err"]:
            generated += 1
            cells += rec["stats"]["cells"]
            if rec["stats"]["nontriv13"]:
                nontriv.add(core.case_hash(multi))
        if rec["corr"]:
            mism += 1
            out.violation("model and implementation disagree on the report: " + "; ".join(rec["corr"][:4]), multi, tags={"correspondence"}, found_input=False)
    l5full.proofs_verdict(out, proofs, build, "C13.v")
    out.coverage.update({
        "evaluations": len(recs) - rejected,
        "distinct_nontrivial": len(nontriv),
        "rule": "each generated multi-asset input (1-4 assets with colliding row numbers, unsorted rows, all transaction types, several holders/exchanges, "
                "method schedules, windows none/from/to/both) is run through rp2_full_report in a fresh interpreter; the .ods is (a) judged table by table "
                "against the ComputedData dump and the input (oracle) and (b) compared cell by cell, sheet sizes included, with the Coq model of the "
                "generator; non-trivial = at least two non-empty transaction tables and two fractions",
        "samples": [r["case"] for r in recs[:1]],
        "traces_validated_against_impl": generated,
        "cells_compared": cells,
        "correspondence_mismatches": mism,
        "inputs_rejected_before_generation": rejected,
        "case_kinds": kinds, "countries": countries, "window_kinds": windows,
    })
    out.assumptions = [
        "theorems are about the Coq model of the generator (row arithmetic, routing, capacity); 'the file holds these cells' rests on the cell-by-cell comparison",
        "no write leaves the Tax sheet when at most 21 distinct holders have a balance (finding F12 beyond that)",
        "k/n labels are checked against an independent count only for histories whose local dates are monotone in time (finding F9)",
        "static translated texts (titles, headers, legend prose) are only checked to be non-empty; cell styles are not modelled",
    ]
    return out.finish(proofs, build)
