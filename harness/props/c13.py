"""C13 -- the full report shows every transaction and fraction once, with the computed values."""
from harness import core, full_oracle, l5full


def classify_error(multi, res):
    """tags of a generator failure on a valid input"""
    tags = {"generator-error", res["err"]}
    msg = res.get("msg", "")
    if res["err"] == "IndexError":
        holders = max((len({b[1] for b in d["balances"]}) for d in (res.get("computed") or {}).values()), default=0)
        if holders > 21:
            tags.add("tax-sheet-overflow-holders")
    if res["err"] == "KeyError" and "1970" in msg and len(multi["sched"]) == 1 and multi["sched"][0][0] != 1970:
        tags.add("single-schedule-not-1970")
    if res["err"] == "KeyError" and "_AssetAndYear" in msg:
        tags.add("summary-link-keyerror")
    return tags


def judge(multi, res):
    """-> list of (text, tags) for one run of the implementation; [] = the report satisfies C13"""
    if res.get("err"):
        if res.get("stage") != "computed":
            return None                                    # the input was rejected before any report was generated
        return [(f"the input is valid (compute_tax succeeds) but rp2_full_report raised {res['err']}: {res.get('msg', '')[:160]}; no report is written",
                 classify_error(multi, res))]
    return full_oracle.check_c13(multi, res)


def run(tier, build, replay=None):
    out = core.Outcome("C13", tier)
    proofs = core.check_proofs(build, "C13.v")
    if replay:
        cases = [replay]
        impl, model = l5full.run_cases(cases)
    else:
        data = l5full.run(tier)
        cases, impl, model = data["cases"], data["impl"], data["model"]
    nontriv, mism, rejected, generated = set(), 0, 0, 0
    kinds, countries, windows = {}, {}, {"none": 0, "from": 0, "to": 0, "both": 0}
    cells = 0
    for multi, res, raw in zip(cases, impl, model):
        verdict = judge(multi, res)
        if verdict is None:
            rejected += 1
            continue
        kinds[multi.get("kind", "?")] = kinds.get(multi.get("kind", "?"), 0) + 1
        countries[f"{multi['country']}/{multi['lang']}"] = countries.get(f"{multi['country']}/{multi['lang']}", 0) + 1
        f, t = multi.get("from"), multi.get("to")
        windows["none" if f is None and t is None else "from" if t is None else "to" if f is None else "both"] += 1
        shrunk = None
        for text, tags in verdict[:3]:
            if shrunk is None:
                shrunk = l5full.shrink(multi, lambda m, r, tg=tags: any(tg <= t2 for _, t2 in (judge(m, r) or [])))
            out.violation(text, shrunk, tags=tags)
        if not res.get("err"):
            generated += 1
            cells += sum(len(s["cells"]) for s in res["sheets"])
            d = res["computed"]
            if sum(len(x["fractions"]) for x in d.values()) >= 2 and sum(1 for x in d.values() for k in ("ins", "outs", "intras") if x[k]) >= 2:
                nontriv.add(core.case_hash(multi))
        diff = l5full.correspondence(multi, res, raw)
        if diff:
            mism += 1
            out.violation("model and implementation disagree on the report: " + "; ".join(diff[:4]), multi, tags={"correspondence"}, found_input=False)
    core.proofs_verdict(out, proofs, build, "C13.v")
    out.coverage.update({
        "evaluations": len(cases) - rejected,
        "distinct_nontrivial": len(nontriv),
        "rule": "each generated multi-asset input (1-4 assets with colliding row numbers, unsorted rows, all transaction types, several holders/exchanges, "
                "method schedules, windows none/from/to/both) is run through rp2_full_report in a fresh interpreter; the .ods is (a) judged table by table "
                "against the ComputedData dump and the input (oracle) and (b) compared cell by cell, sheet sizes included, with the Coq model of the "
                "generator; non-trivial = at least two non-empty transaction tables and two fractions",
        "samples": cases[:1],
        "traces_validated_against_impl": generated,
        "cells_compared": cells,
        "correspondence_mismatches": mism,
        "inputs_rejected_before_generation": rejected,
        "case_kinds": kinds, "countries": countries, "window_kinds": windows,
    })
    out.assumptions = [
        "theorems are about the Coq model of the generator (row arithmetic, routing, capacity); 'the file holds these cells' rests on the cell-by-cell comparison",
        "no write leaves the Tax sheet when at most 21 distinct holders have a balance (finding F12 beyond that)",
        "k/n labels are checked against an independent count only for histories whose local dates are monotone in time (finding F9)",
        "static translated texts (titles, headers, legend prose) are only checked to be non-empty; cell styles are not modelled",
    ]
    return out.finish(proofs, build)
