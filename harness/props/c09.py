"""C09 -- later transactions never change results already computed for earlier periods."""
import copy

from harness import core, hist, l2


def dates_monotone(case):
    """local dates never decrease along ANY ordering by instant: rows with the same instant must have the same local
    date (the sets are sorted by instant and ties keep table order, e.g. transfers before disposals in the balance replay)"""
    rows = sorted(case["ins"] + case["outs"] + case["intras"], key=lambda r: r["ts"][0])
    prev_us, prev_lo, prev_hi = None, None, None
    for r in rows:
        us, d = r["ts"][0], hist.local_day(r["ts"])
        if us == prev_us:
            if d != prev_hi or d != prev_lo:
                return False
        else:
            if prev_hi is not None and d < prev_hi:
                return False
            prev_us, prev_lo, prev_hi = us, d, d
    return True


def cut_prefix(case, T):
    c = copy.deepcopy(case)
    for k in ("ins", "outs", "intras"):
        c[k] = [r for r in c[k] if r["ts"][0] <= T]
    return c


def renumber(case):
    """the prefix as it would stand on a sheet of its own: row numbers closed up (an order-preserving renumbering -- in a
    spreadsheet every row added later to the IN table pushes the OUT and INTRA rows down, so the same transactions carry other
    row numbers in the longer file).  -> (renumbered case, {new row: old row})"""
    c = copy.deepcopy(case)
    rows = [r for k in ("ins", "outs", "intras") for r in c[k]]
    pos = sorted({r["row"] for r in rows if r["row"] > 0})
    neg = sorted({r["row"] for r in rows if r["row"] < 0}, reverse=True)
    fwd = {old: 3 + k for k, old in enumerate(pos)}
    fwd.update({old: -(k + 1) for k, old in enumerate(neg)})
    for r in rows:
        r["row"] = fwd[r["row"]]
    return c, {new: old for old, new in fwd.items()}


def cut_day(case, D):
    c = copy.deepcopy(case)
    for k in ("ins", "outs", "intras"):
        c[k] = [r for r in c[k] if hist.local_day(r["ts"]) <= D]
    return c


def _impl_full(case):
    return hist.impl_compute(case, full=True)


def _impl_to(args):
    case, D = args
    return hist.impl_compute(case, to_day=D, full=True)


FIELDS = ("ev", "lot", "amt", "proceeds", "cost", "gain", "long")


def proj(fr):
    return [tuple(map(lambda x: tuple(x) if isinstance(x, list) else x, (f[k] for k in FIELDS))) for f in fr]


def run(tier, build, replay=None):
    out = core.Outcome("C09", tier)
    proofs = core.check_proofs(build, "C09.v")
    rng = core.Rng(core.seed(), 9)
    if replay:
        core.impl_env_setup()
        base = {"cases": [replay["case"]] if "case" in replay else [replay], "impl": None}
        base["impl"] = [hist.impl_compute(base["cases"][0])]
    else:
        base = l2.run(tier)
    from harness import fingerprint
    limit = 2000 * max(fingerprint.boost("l2"), fingerprint.boost("l4")) if tier == "quick" else 12000
    pre_cases, pre_src, day_jobs = [], [], []
    for idx, (c, i) in enumerate(zip(base["cases"], base["impl"])):
        if len(pre_cases) >= limit:
            break
        if l2.is_ods(c):
            continue        # cuts are made on the rows of a case; an end-to-end case is its files (judged by the other checks)
        instants = sorted({r["ts"][0] for r in c["ins"] + c["outs"] + c["intras"]})
        if len(instants) < 2:
            continue
        k = rng.below(len(instants) - 1)
        T = instants[k]
        renum = rng.chance(50)
        if replay and "cut_instant" in replay:
            T, renum = replay["cut_instant"], replay.get("renumbered_prefix", False)
        p = cut_prefix(c, T)
        if not p["ins"]:
            continue
        back = None
        if renum:
            p, back = renumber(p)
        pre_cases.append(p)
        pre_src.append((idx, T, back))
        days = sorted({hist.local_day(r["ts"]) for r in c["ins"] + c["outs"] + c["intras"]})
        D = rng.choice(days) + rng.choice([0, 0, 0, 1, -1])
        day_jobs.append((idx, D))
    pre_impl = core.pool_map(_impl_full, pre_cases, init=core.impl_env_setup)
    pre_model = core.run_model([hist.line(10, hist.encode_hist(c)) for c in pre_cases])
    nontriv, mism, suspects = set(), 0, []
    for p, (idx, T, back), pi, pm in zip(pre_cases, pre_src, pre_impl, pre_model):
        c, full = base["cases"][idx], base["impl"][idx]
        case_pair = {"case": c, "cut_instant": T, "renumbered_prefix": back is not None}
        ev_us = {e["row"]: e["us"] for e in hist.taxable_oracle(c)}
        if "ok" in full:
            if "ok" not in pi:
                out.violation(f"history succeeds but its prefix up to instant {T} fails: {pi}", case_pair, tags={"prefix-fails"})
                continue
            a = [f for f in proj(full["ok"]["fractions"]) if ev_us.get(f[0], 1 << 62) <= T]
            b = proj(pi["ok"]["fractions"])
            if back is not None:
                b = [(back.get(f[0], f[0]), back.get(f[1], f[1])) + tuple(f[2:]) for f in b]
            if a != b:
                d = next((x, y) for x, y in zip(a + [None], b + [None]) if x != y)
                out.violation(f"results for events at or before instant {T} change when later transactions are added"
                              f"{' (prefix on a sheet of its own: row numbers closed up)' if back is not None else ''}: "
                              f"with continuation {d[0]}, prefix alone {d[1]}", case_pair, tags={"prefix-changed"})
            # closed years
            later_years = [hist.local_year(r["ts"]) for r in c["ins"] + c["outs"] + c["intras"] if r["ts"][0] > T]
            if later_years:
                y0 = min(later_years)
                ya = [y for y in full["ok"]["yearly"] if y[0] < y0]
                yb = [y for y in pi["ok"]["yearly"] if y[0] < y0]
                if ya != yb:
                    out.violation(f"yearly totals of closed years (< {y0}) change when later transactions are added", case_pair,
                                  tags={"closed-year-changed"})
            if len(b) >= 2 and len(a) < len(full["ok"]["fractions"]):
                nontriv.add(core.case_hash(case_pair))
        if not l2.same_outcome(l2.impl_fracs(pi), hist.decode_fracs(pm)):
            mism += 1
            out.violation("model and implementation disagree on a prefix history", p, tags={"correspondence"}, found_input=False)
            suspects.append(idx)
    # failing-input search: where model and implementation disagree, try EVERY cut instant of that history
    # (prefix run vs full run restricted to events <= T), not only the randomly chosen one
    if suspects and not any(v["found_input"] and v["tags"] and set(v["tags"]) & {"prefix-changed", "prefix-fails"} for v in out.violations):
        for idx in suspects[:12]:
            c, full = base["cases"][idx], base["impl"][idx]
            if "ok" not in full:
                continue
            instants = sorted({r["ts"][0] for r in c["ins"] + c["outs"] + c["intras"]})[:-1]
            cuts = [(T, cut_prefix(c, T)) for T in instants]
            cuts = [(T, q) for T, q in cuts if q["ins"]]
            res = core.pool_map(_impl_full, [q for _, q in cuts], init=core.impl_env_setup)
            ev_us = {e["row"]: e["us"] for e in hist.taxable_oracle(c)}
            hit = False
            for (T, q), qi in zip(cuts, res):
                pair = {"case": c, "cut_instant": T}
                if "ok" not in qi:
                    out.violation(f"history succeeds but its prefix up to instant {T} fails: {qi}", pair, tags={"prefix-fails"})
                    hit = True
                    break
                a = [f for f in proj(full["ok"]["fractions"]) if ev_us.get(f[0], 1 << 62) <= T]
                b = proj(qi["ok"]["fractions"])
                if a != b:
                    d = next((x, y) for x, y in zip(a + [None], b + [None]) if x != y)
                    out.violation(f"results for events at or before instant {T} change when later transactions are added: "
                                  f"with continuation {d[0]}, prefix alone {d[1]}", pair, tags={"prefix-changed"})
                    hit = True
                    break
            if hit:
                break
    # to-date vs truncated spreadsheet
    jobs = [(base["cases"][idx], D) for idx, D in day_jobs]
    to_impl = core.pool_map(_impl_to, jobs, init=core.impl_env_setup)
    trunc_cases = [cut_day(c, D) for c, D in jobs]
    keep = [k for k, t in enumerate(trunc_cases) if t["ins"]]
    trunc_impl = dict(zip(keep, core.pool_map(_impl_full, [trunc_cases[k] for k in keep], init=core.impl_env_setup)))
    n_to = 0
    for k, ((c, D), ti) in enumerate(zip(jobs, to_impl)):
        if k not in trunc_impl or "ok" not in ti:
            continue
        tr = trunc_impl[k]
        n_to += 1
        case_pair = {"case": c, "to_day": D}
        mono = dates_monotone(c)
        tags = set() if mono else {"non-monotone-local-dates"}
        if "ok" not in tr:
            out.violation(f"run with to-date day {D} succeeds but the run on the spreadsheet truncated at that date fails: {tr}", case_pair,
                          tags=tags | {"to-date"})
            continue
        for key in ("fractions", "yearly", "balances", "price_per_unit", "ins", "outs", "intras", "events"):
            if ti["ok"][key] != tr["ok"][key]:
                out.violation(f"run limited by to-date (day {D}) and run on the history truncated at that date differ in '{key}': "
                              f"{str(ti['ok'][key])[:200]} vs {str(tr['ok'][key])[:200]}", case_pair, tags=tags | {"to-date", key})
                break
    core.proofs_verdict(out, proofs, build, "C09.v")
    out.coverage.update({
        "evaluations": len(pre_cases) + n_to,
        "distinct_nontrivial": len(nontriv),
        "rule": "for generated histories: a random cut between two distinct instants (prefix run vs full run restricted to events <= T; continuation "
                "contains lots the method may prefer) and a random to-date (run with -t D vs run on the history truncated at D); "
                "non-trivial = the prefix has >= 2 fractions and the continuation adds fractions",
        "samples": [{"case": pre_cases[0], "cut_instant": pre_src[0][1]}] if pre_cases else [],
        "traces_validated_against_impl": len(pre_cases),
        "correspondence_mismatches": mism,
    })
    out.assumptions = ["to-date equivalence is claimed for histories whose local dates are monotone in time (finding F9 otherwise)"]
    return out.finish(proofs, build)
