"""C17 -- results depend only on the input: deterministic, order- and asset-independent.

Proved (Properties/C17.v): permutation invariance of the per-asset pipeline for pairwise distinct
instants, independence of the artificial-id counter up to renaming of negative ids, injectivity of the
sort keys through which Python sets reach the output.
Corresponded here (PARTIAL -- hash seed, directory contents and repeated runs cannot be exhibited by a
Gallina model): for generated valid multi-asset inputs the CLI is run
 (a) twice, (b) under PYTHONHASHSEED 0, 1 and a seed-derived value, (c) into an output directory that
 already holds stale reports of the same names, an unrelated spreadsheet, junk files and a directory,
 (d) with the rows shuffled inside every table, the tables reordered inside every sheet and the sheets
 reordered inside the file (timestamps pairwise distinct), (e) with -a <asset> for every asset vs all
 assets in one run; the canonical content (every cell's type, value, formula and text of content.xml)
 of every produced ODS is compared -- (a)-(d) cell for cell, (e) the per-asset sheets of the full report,
 the asset's Summary lines and the asset's rows of the tax report."""
import copy

from harness import core, l6
from harness.props import c16

STALE = "stale report written by an earlier run \x00\x01\x02"


def base_jobs(tier, mm):
    rng = core.Rng(core.seed(), 17)
    n = 30 if tier == "quick" else 400
    jobs = []
    for k in range(n):
        c = l6.COUNTRIES[k % 5]
        shape = l6.SHAPES[k % len(l6.SHAPES)]
        inp = l6.gen_input(rng, shape, n_assets=rng.choice([2, 3, 3]))
        kinds = ["none", "from", "to", "both"] if c != "jp" else ["none", "from", "to"]
        f, t, label = l6.gen_window(rng, inp, rng.choice(kinds))
        lang = rng.choice(mm[c]["langs"])
        method = rng.choice([None] + mm[c]["methods"])
        opts = {"method": method, "lang": lang, "from": f, "to": t}
        job = {"country": c, "opts": opts, "inp": inp, "window": label, "kind": "base", "supported": True, "hashseed": 0, "dump": "full",
               "group": k}
        if rng.chance(30):
            ms = mm[c]["methods"]
            y0 = min(d.year for a in inp["assets"] for d, _, _ in l6.all_events(a))
            sched = [[1970, rng.choice(ms)], [y0 + 1, rng.choice(ms)]]
            job["sched"] = sched
            job["opts"]["method"] = None
            job["ini_extra"] = "[accounting_methods]\n" + "".join(f"{y} = {m}\n" for y, m in sched)
        jobs.append(job)
    # feature-based methods on assets whose lots sit on the same sheet rows (the IN table starts at row 3 of every sheet)
    # with different price / time order: what a sale takes must not depend on the other assets of the run
    n_c = 6 if tier == "quick" else 60
    for k in range(n_c):
        c = ("us", "generic")[k % 2]
        inp = l6.gen_input(rng, "lots", n_assets=3)
        f, t, label = l6.gen_window(rng, inp, rng.choice(["none", "none", "from", "to"]))
        jobs.append({"country": c, "opts": {"method": ("hifo", "lofo", "lifo")[k % 3], "lang": "en", "from": f, "to": t}, "inp": inp,
                     "window": label, "kind": "base", "supported": True, "hashseed": 0, "dump": "full", "group": n + k})
    # lots acquired at distinct instants inside one second: the order of their rows must not matter
    n_s = 6 if tier == "quick" else 60
    for k in range(n_s):
        c = ("us", "generic", "us", "generic", "es", "ie")[k % 6]
        inp = l6.gen_input(rng, "subsecond", n_assets=2)
        ms = [m for m in ("lifo", "hifo", "lofo") if m in mm[c]["methods"]]
        jobs.append({"country": c, "opts": {"method": ms[k % len(ms)] if ms else None, "lang": mm[c]["langs"][0], "from": None, "to": None},
                     "inp": inp, "window": "none", "kind": "base", "supported": True, "hashseed": 0, "dump": "full", "group": n + n_c + k})
    # a cheap asset (per-unit cost below 1, which selects another number format in the open-positions report) processed
    # before an expensive one: what is shown for an asset, formats included, must not depend on the assets before it
    n_p = 4 if tier == "quick" else 40
    U = l6.U
    for k in range(n_p):
        c = ("us", "generic", "es", "ie")[k % 4]
        inp = l6.gen_input(rng, "plain", n_assets=2)
        cheap, dear = inp["assets"]
        cheap["asset"], dear["asset"] = "ADA", "BTC"
        for a, prices in ((cheap, [U // 20, U // 10, U // 4, U // 2, 3 * U // 4]), (dear, [100 * U, 1234 * U, 30000 * U])):
            for r in a["ins"] + a["outs"] + a["intras"]:
                if r.get("spot"):
                    r["spot"] = rng.choice(prices)
        jobs.append({"country": c, "opts": {"method": None, "lang": mm[c]["langs"][0], "from": None, "to": None}, "inp": inp,
                     "window": "none", "kind": "base", "supported": True, "hashseed": 0, "dump": "full", "group": n + n_c + n_s + k})
    # the machine's time zone: a lot and a later sale inside the hour that the clocks repeat when daylight saving ends in New York,
    # London and Sydney (wall-clock order opposite to the order in time); all timestamps carry explicit offsets, so what the
    # sale takes must not depend on TZ
    n_z = 2 if tier == "quick" else 12
    HOUR = 3600_000_000
    DST_END = [1636264800_000000, 1635642000_000000, 1617465600_000000]       # 2021-11-07 06:00Z, 2021-10-31 01:00Z, 2021-04-03 16:00Z
    for k in range(n_z):
        c = ("us", "generic")[k % 2]
        inp = l6.gen_input(rng, "plain", n_assets=rng.choice([1, 2]))
        a = inp["assets"][0]
        for z, t0 in enumerate(DST_END):
            amt = (2 + z) * U
            a["ins"].append({"ts": [t0 - HOUR // 2, 0], "exch": 0, "holder": 0, "type": "BUY", "spot": (70000 + 1000 * z) * U, "crypto_in": amt})
            a["outs"].append({"ts": [t0 + HOUR // 6, 0], "exch": 0, "holder": 0, "type": "SELL", "spot": (71000 + 1000 * z) * U,
                              "crypto_out_no_fee": amt // 2, "crypto_fee": 0})
        jobs.append({"country": c, "opts": {"method": ("lifo", "hifo")[(k // 2) % 2], "lang": "en", "from": None, "to": None}, "inp": inp,
                     "window": "none", "kind": "base", "supported": True, "hashseed": 0, "dump": "full", "group": n + n_c + n_s + n_p + k,
                     "dst": True})
    return jobs, rng


ZONES = ["America/New_York", "Europe/London", "Australia/Sydney", "Asia/Kolkata", "Pacific/Auckland"]


def variants(job, rng, mm):
    out = []
    v = copy.deepcopy(job)
    v["kind"] = "twice"
    out.append(v)
    for hs in (1, rng.range(2, 4_000_000_000)):
        v = copy.deepcopy(job)
        v["kind"] = "hashseed"
        v["hashseed"] = hs
        out.append(v)
    # another time zone of the machine (TZ): one per job, all of them for the daylight-saving inputs
    for z in (ZONES[:3] if job.get("dst") else [ZONES[job.get("group", 0) % len(ZONES)]]):
        v = copy.deepcopy(job)
        v["kind"] = "timezone"
        v["env"] = dict(job.get("env") or {}, TZ=z)
        out.append(v)
    # dirty output directory
    v = copy.deepcopy(job)
    v["kind"] = "stale-outdir"
    names = c16.expected_files(job, mm)
    pre = {n: STALE + n for n in names}
    pre["notes.txt"] = "keep me"
    pre["unrelated_report.ods"] = "not even a zip"
    pre["old"] = "@dir"
    pre[(job["opts"].get("prefix") or "") + "lifo_open_positions.ods.bak"] = "backup"
    v["pre"] = pre
    out.append(v)
    # permutations: rows inside tables, tables inside sheets, sheets inside the file
    v = copy.deepcopy(job)
    v["kind"] = "permuted"
    v["row_perm"], v["table_order"] = {}, {}
    for a in job["inp"]["assets"]:
        p = {}
        for t, key in (("in", "ins"), ("out", "outs"), ("intra", "intras")):
            idx = list(range(len(a[key])))
            rng.shuffle(idx)
            p[t] = idx
        v["row_perm"][a["asset"]] = p
        v["table_order"][a["asset"]] = rng.shuffle(["in", "out", "intra"])
    names = [a["asset"] for a in job["inp"]["assets"]]
    v["sheet_order"] = rng.shuffle(list(names))
    out.append(v)
    # subsets of assets
    for a in job["inp"]["assets"]:
        v = copy.deepcopy(job)
        v["kind"] = "subset"
        v["opts"]["asset"] = a["asset"]
        out.append(v)
    # other assets removed from the configuration and the file altogether
    a = rng.choice(job["inp"]["assets"])
    v = copy.deepcopy(job)
    v["kind"] = "alone"
    v["alone"] = a["asset"]
    v["inp"]["assets"] = [x for x in v["inp"]["assets"] if x["asset"] == a["asset"]]
    out.append(v)
    return out


def reports(res):
    return {fn: f for fn, f in res["files"].items() if not f.get("junk") and not f.get("stale") and not f.get("other")}


def first_cell_diff(fa, fb):
    """first differing cell of two dumped files -> text or None"""
    sa, sb = fa.get("sheets") or [], fb.get("sheets") or []
    if [n for n, _ in sa] != [n for n, _ in sb]:
        return f"sheet lists differ: {[n for n, _ in sa]} / {[n for n, _ in sb]}"
    for (name, ra), (_, rb) in zip(sa, sb):
        if ra == rb:
            continue
        if len(ra) != len(rb):
            return f"sheet `{name}`: {len(ra)} rows / {len(rb)} rows"
        for i, (x, y) in enumerate(zip(ra, rb)):
            if x != y:
                for k in range(max(len(x), len(y))):
                    cx = x[k] if k < len(x) else None
                    cy = y[k] if k < len(y) else None
                    if cx != cy:
                        return f"sheet `{name}` row {i + 1} column {k + 1}: {cx} / {cy}"
    return None


def compare_whole(base, other, raw=False):
    fa, fb = reports(base), reports(other)
    if sorted(fa) != sorted(fb):
        return f"report files differ: {sorted(fa)} / {sorted(fb)}"
    for fn in sorted(fa):
        if fa[fn].get("bad") or fb[fn].get("bad"):
            return f"{fn}: unreadable ({fa[fn].get('bad')} / {fb[fn].get('bad')})"
        d = first_cell_diff(fa[fn], fb[fn])
        if d:
            return f"{fn}: {d}"
        if raw and fa[fn].get("raw") != fb[fn].get("raw"):
            return f"{fn}: same cells but the bytes of a deterministic member differ: {fa[fn].get('raw')} / {fb[fn].get('raw')}"
    return None


def asset_rows(sheet_rows, asset):
    """rows that mention the asset in one of their first three cells"""
    return [r for r in sheet_rows if any(c is not None and c[3] == asset for c in r[:3])]


def sheet_of_asset(name, asset):
    import re
    return re.search(r"(^|[^A-Za-z0-9])" + re.escape(asset) + r"([^A-Za-z0-9]|$)", name) is not None


def f3_tags(text, job):
    """finding F3 (class-level row dictionary of rp2_full_report never cleared between assets): under a date window a hidden
    transaction is hyperlinked to the In-Out row of another asset's transaction that has the same sheet row number"""
    if text and "HYPERLINK" in text and "In-Out" in text and (job["opts"].get("from") or job["opts"].get("to")):
        return {"f3-stale-link-dictionary"}
    return set()


def compare_asset(base, other, asset, mm, job):
    """the asset's results in a run of all assets vs a run of that asset alone -> (text, tags) or None"""
    fa, fb = reports(base), reports(other)
    assets = [x["asset"] for x in job["inp"]["assets"]]
    for fn in sorted(fa):
        if fn.endswith("_open_positions.ods"):
            # weights and totals are portfolio-wide by design; an asset's own lines (holder / exchange, balance, per-unit cost,
            # unrealised cost, and the number formats of its cells) are not
            if fn in fb and not (fa[fn].get("bad") or fb[fn].get("bad")):
                for k, ncols in ((1, 5), (2, 6)):
                    if k < len(fa[fn]["sheets"]) and k < len(fb[fn]["sheets"]):
                        own = lambda rows: [[c[:2] + c[3:] if c is not None and j < ncols else (c[4] if c is not None else None)
                                             for j, c in enumerate(r)] for r in asset_rows(rows, asset)]   # noqa: E731
                        ra, rb = own(fa[fn]["sheets"][k][1]), own(fb[fn]["sheets"][k][1])
                        if ra != rb:
                            i = next((i for i, (x, y) in enumerate(zip(ra, rb)) if x != y), min(len(ra), len(rb)))
                            return (f"{fn}: sheet `{fa[fn]['sheets'][k][0]}`: line {i + 1} of {asset}: {ra[i] if i < len(ra) else None} / "
                                    f"{rb[i] if i < len(rb) else None}"), set()
            continue
        if fn not in fb:
            return f"{fn} missing in the single-asset run", set()
        if fa[fn].get("bad") or fb[fn].get("bad"):
            return f"{fn}: unreadable ({fa[fn].get('bad')} / {fb[fn].get('bad')})", set()
        sa, sb = dict(fa[fn]["sheets"]), dict(fb[fn]["sheets"])
        mine = [n for n in sa if sheet_of_asset(n, asset)]
        theirs = [n for n in sb if sheet_of_asset(n, asset)]
        if mine != theirs:
            return f"{fn}: sheets of {asset}: {mine} / {theirs}", set()
        for name in mine:
            if sa[name] != sb[name]:
                d = first_cell_diff({"sheets": [[name, sa[name]]]}, {"sheets": [[name, sb[name]]]})
                return f"{fn}: {d}", f3_tags(d, job)
        # sheets shared by all assets (Summary, the sheets of the tax reports): the lines of this asset
        shared = [n for n in sa if not any(sheet_of_asset(n, x) for x in assets) and "Legend" not in n]
        for name in shared:
            ra, rb = asset_rows(sa[name], asset), asset_rows(sb.get(name, []), asset)
            if ra != rb:
                k = next((i for i, (x, y) in enumerate(zip(ra, rb)) if x != y), min(len(ra), len(rb)))
                d = f"sheet `{name}`: line {k + 1} of {asset}: {ra[k] if k < len(ra) else None} / {rb[k] if k < len(rb) else None}"
                return f"{fn}: {d}", f3_tags(d, job)
    return None


def judge_groups(groups, out, mm, counts, nontrivial):
    flat = []
    for b, vs in groups:
        flat.append(b)
        flat.extend(vs)
    for j in flat:
        j["dump"] = "full"
    results = l6.run_jobs(flat)
    it = iter(results)
    for b, vs in groups:
        rb = next(it)
        if rb["rc"] != 0:
            # a failing base run is C16's business; it still must fail the same way every time
            for v in vs:
                rv = next(it)
                if v["kind"] in ("twice", "hashseed", "timezone", "permuted") and (rv["rc"], sorted(reports(rv))) != (rb["rc"], sorted(reports(rb))):
                    out.violation(f"{c16.describe(b)}: failing run is not reproducible under `{v['kind']}`: exit {rb['rc']} files {sorted(reports(rb))} / "
                                  f"exit {rv['rc']} files {sorted(reports(rv))}", {"base": b, "variant": v}, tags={"kind=" + v["kind"]})
            continue
        for v in vs:
            rv = next(it)
            counts[v["kind"]] = counts.get(v["kind"], 0) + 1
            case = {"base": b, "variant": v}
            what, tags = None, {"kind=" + v["kind"]}
            if rv["rc"] != rb["rc"]:
                what = f"exit status {rv['rc']} ({rv['err'].get('cls')}: {rv['err'].get('msg')}) instead of {rb['rc']}"
            elif v["kind"] in ("twice", "hashseed", "timezone", "stale-outdir", "permuted"):
                what = compare_whole(rb, rv, raw=v["kind"] != "permuted")
                if v["kind"] == "stale-outdir" and not what:
                    for fn, f in rv["files"].items():
                        if f.get("junk") and not f.get("untouched"):
                            what = f"file {fn} that was already in the output directory was modified or removed"
                    missing = [n for n in v["pre"] if n not in rv["files"]]
                    if missing and not what:
                        what = f"files that were already in the output directory disappeared: {missing}"
                    for fn, f in rv["files"].items():
                        if f.get("stale") and fn in c16.expected_files(b, mm):
                            what = f"report {fn} was not rewritten: the stale file of an earlier run is still there"
            elif v["kind"] == "subset":
                r = compare_asset(rb, rv, v["opts"]["asset"], mm, b)
                if r:
                    what, t2 = r
                    tags |= t2
            elif v["kind"] == "alone":
                r = compare_asset(rb, rv, v["alone"], mm, b)
                if r:
                    what, t2 = r
                    tags |= t2
            if what and v["kind"] == "permuted":
                tags |= f3_tags(what, b)
            if what:
                desc = {"twice": "second identical run", "hashseed": f"PYTHONHASHSEED={v.get('hashseed')}",
                        "timezone": f"TZ={(v.get('env') or {}).get('TZ')}",
                        "stale-outdir": "run into an output directory holding stale reports and junk",
                        "permuted": "rows / tables / sheets permuted", "subset": f"-a {v['opts'].get('asset')} vs all assets",
                        "alone": f"{v.get('alone')} alone in file and configuration vs all assets"}[v["kind"]]
                out.violation(f"{c16.describe(b)}: {desc}: {what}", case, tags=tags)
            nontrivial.add(core.case_hash([v["kind"], v["country"], v["opts"], v.get("hashseed"), v.get("row_perm"), v["inp"]]))
    return len(flat)


def run(tier, build, replay=None):
    out = core.Outcome("C17", tier)
    proofs = core.check_proofs(build, "C17.v")
    mm = c16.model_matrix(build)
    if replay:
        groups = [(replay["base"], [replay["variant"]])]
    else:
        bases, rng = base_jobs(tier, mm)
        groups = [(b, variants(b, rng, mm)) for b in bases]
    counts, nontrivial = {}, set()
    n_runs = 0
    BATCH = 25          # groups per batch: bounds the memory held by the full cell dumps
    for k in range(0, len(groups), BATCH):
        n_runs += judge_groups(groups[k:k + BATCH], out, mm, counts, nontrivial)
    core.proofs_verdict(out, proofs, build, "C17.v")
    out.coverage.update({
        "evaluations": n_runs,
        "distinct_nontrivial": len(nontrivial),
        "rule": "pairs (base run, variant run) of real subprocess runs on generated valid multi-asset inputs (2-3 assets, all five entry points, "
                "methods, languages, windows, mixed schedules; plus hifo/lofo/lifo runs on three assets whose lots share sheet rows with different "
                "price order, and lots with distinct timestamps inside one second); variants: identical rerun, PYTHONHASHSEED 1 and a seed-derived value, dirty output "
                "directory, permuted rows/tables/sheets, -a <asset> for every asset, asset alone in file and configuration; every pair is non-trivial",
        "samples": [{"cmd": c16.describe(b), "variants": [v["kind"] for v in vs]} for b, vs in groups[:2]],
        "traces_validated_against_impl": n_runs,
        "pairs_by_kind": counts,
        "comparison": "content.xml of every report: per sheet, per row, per cell (value type, value, formula, text); report cells carry no input row numbers, "
                      "so the permuted runs are compared cell for cell as well",
    })
    out.assumptions = [
        "PARTIAL: determinism across hash seeds, repeated runs and pre-existing directory contents is exercised, not proved",
        "generated inputs have pairwise distinct timestamps within an asset and one UTC offset per input",
        "two identical runs were first compared byte-wise per zip member: content.xml, styles.xml, settings.xml, the manifest and mimetype are "
        "byte-identical (also across hash seeds); meta.xml (generation time) and the zip members' timestamps differ.  The canonical form is the parsed "
        "content.xml, and for (a)-(c) additionally the SHA-256 of those deterministic members",
    ]
    return out.finish(proofs, build)
