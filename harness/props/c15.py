"""C15 -- the open-positions report matches the balances and the cost of the unsold lot parts.

Each case is one report generation in a fresh interpreter (harness/l5_worker.py, generator
open_positions).  Three judgements per case:
 (1) correspondence: the .ods read back vs the Coq model of the generator (Model/OpenPos.v, driver
     cmd 70, fed with the implementation's own gain/loss fractions), cell by cell, extra cells too;
 (2) the oracle below: the .ods judged against the property text from the raw rows (exact rational
     arithmetic) and the implementation's ComputedData dump (balances, cost basis of the detail);
 (3) the theorems of Properties/C15.v compile (against the tables translated from the source).

Numeric criterion of the oracle (documented in the MANIFEST text of C15):
  the report computes a lot's unsold cost as cost x (1 - sold %) in 31-digit decimals; the subtraction cancels, so
  the achievable (and proved: C15_lot_unrealised_accuracy / C15_asset_cost_accuracy) accuracy is absolute, relative
  to the cost of the lots, not to the remainder.  With d(asset) = N * 1e-28 * (total cost of the asset's lots up to
  the to-date), N = 4 * (lots + fractions of all assets of the case) + 16 (each decimal operation contributes at most
  5e-31 relative), a numeric cell holding the double x is accepted for the exact rational value v with absolute slack t iff
      float(v - t) <= x <= float(v + t)                                  (correctly rounded conversions)
  with t = d/B for the per-unit cost (B = total balance), d * balance/B for a row's cost basis, and the propagated
  slack (numerator + value x denominator slack) for weights.  Crypto balances must be exactly float(balance).
  Sums of cells (weights, cost of an asset) are formed in exact arithmetic over the doubles and may deviate by 2^-52
  relative (one rounding to double per cell) plus the same slack.
  The report drops a lot whose unsold cost is below the resolution of RP2Decimal comparisons (quantised to 13
  decimals: < 5e-14 currency units); the oracle adds the exact unsold cost of such lots to the slack, and reports an
  asset that is left out *only* because of it under the narrow tag `cost-below-resolution`.
"""
import copy
import json
import os
from fractions import Fraction

from harness import core, hist, l5, oracle
from harness.props.c09 import dates_monotone

LANG = {"en": 0, "es": 1, "kl": 2, "en_IE": 3, "ja": 4}         # = harness/translate/frag_open_positions.LANGS
U = hist.U
HEADER_ROWS = 3
RES = Fraction(5, 10 ** 14)          # half a unit of the 13th decimal
TWO52 = Fraction(1, 2 ** 52)
CORPUS = os.path.join(core.VERIF, "corpus", "C15")
MATRIX = [(c, lg) for c in ("us", "generic", "es", "ie", "jp") for lg in l5.LANGS[c]]


# ----------------------------------------------------------------------------- generation
def _days(multi):
    return sorted({hist.local_day(r["ts"]) for c in multi["assets"] for r in c["ins"] + c["outs"] + c["intras"]})


def _in(ts, ex, ho, amt, spot, row, ty="BUY", **kw):
    return dict({"ts": ts, "exch": ex, "holder": ho, "type": ty, "spot": spot, "crypto_in": amt, "row": row}, **kw)


def _out(ts, ex, ho, amt, fee, spot, row, ty="SELL"):
    return {"ts": ts, "exch": ex, "holder": ho, "type": ty, "spot": spot, "crypto_out_no_fee": amt, "crypto_fee": fee, "row": row}


def _intra(ts, fe, fh, te, th, sent, recv, spot, row):
    return {"ts": ts, "from_exch": fe, "from_holder": fh, "to_exch": te, "to_holder": th, "spot": spot, "crypto_sent": sent,
            "crypto_received": recv, "row": row}


def crafted_asset(rng, kind, ne, nh):
    """hand-made single-asset histories for the situations the property text singles out"""
    t0 = hist.day_us(2019 + rng.below(3), 1 + rng.below(12), 1 + rng.below(28))
    T = lambda k: [t0 + k * 40 * hist.DAY + rng.choice(hist.TIMES), 0]  # noqa: E731
    e0, h0 = rng.below(ne), rng.below(nh)
    e1, h1 = rng.below(ne), rng.below(nh)
    price = rng.choice(hist.PRICES[2:9])
    amt = rng.choice([U, 2 * U, 5 * 10 ** 10, 123456789012, 3 * U])
    ins, outs, intras = [], [], []
    if kind == "fully_sold":
        ins = [_in(T(0), e0, h0, amt, price, 3), _in(T(1), e0, h0, amt // 3, price * 2, 4)]
        outs = [_out(T(2), e0, h0, amt // 7, 0, price, 8), _out(T(3), e0, h0, amt + amt // 3 - amt // 7 - 1000, 1000, price, 9)]
    elif kind == "fully_sold_thirds":
        # one lot sold completely by three equal disposals: the three sold percentages (1/3 rounded to 31 digits each) add up
        # to 0.999..9, so the lot's unsold cost is positive in exact arithmetic (about cost x 1e-31) but zero at 13 decimals
        a3 = 3 * rng.choice([U, 5 * 10 ** 10, 41152263004, 7])
        ins = [_in(T(0), e0, h0, a3, price, 3)]
        outs = [_out(T(2 + k), e0, h0, a3 // 3, 0, price * (k + 1), 8 + k) for k in range(3)]
    elif kind == "income_only":
        ins = [_in(T(k), rng.below(ne), rng.below(nh), rng.choice([U, 1000, 25 * 10 ** 9]), rng.choice(hist.PRICES[2:9]), 3 + k,
                   ty=rng.choice(hist.EARN)) for k in range(rng.range(1, 4))]
    elif kind == "holder_at_zero":
        # h0 buys and sells everything; h1 (or another account of h0 when there is one holder) keeps a part
        ins = [_in(T(0), e0, h0, amt, price, 3), _in(T(1), e1, h1, 2 * amt, price * 3, 4)]
        outs = [_out(T(2), e0, h0, amt, 0, price, 8), _out(T(3), e1, h1, amt // 3, 0, price, 9)]
        if (e0, h0) == (e1, h1):
            outs = [_out(T(3), e1, h1, amt // 3, 0, price, 9)]
    elif kind == "dust":
        # everything but 1e-11 is sold, from three lots and in thirds (sold % = 0.999..)
        ins = [_in(T(0), e0, h0, amt, price, 3), _in(T(1), e0, h0, amt, price * 2, 4, fiat_fee=123456789), _in(T(2), e0, h0, 1, price, 5)]
        third = (2 * amt) // 3
        outs = [_out(T(3), e0, h0, third, 0, price, 9), _out(T(4), e0, h0, third, 0, price, 10), _out(T(5), e0, h0, 2 * amt - 2 * third, 0, price, 11)]
    elif kind == "moved":
        # bought by one holder, partly moved to another account (fee-less and with a taxable fee), partly sold there
        ins = [_in(T(0), e0, h0, 4 * amt, price, 3, crypto_fee=1000 if rng.chance(50) else None)]
        if ins[0]["crypto_fee"] is None:
            del ins[0]["crypto_fee"]
        intras = [_intra(T(1), e0, h0, e1, h1, amt, amt, None, 14), _intra(T(2), e0, h0, e1, h1, amt, amt - 1000, price, 15)]
        outs = [_out(T(3), e1, h1, amt // 2, 100, price * 2, 9)] if (e0, h0) != (e1, h1) else []
    elif kind == "dust_fee_zero_balance":
        # a transfer fee worth < 5e-14, then everything that arrived is sold: the fee must be taken from the lot, which is then
        # exhausted, and the asset is not listed (before the repair of finding F8 the lot kept the fee, no account held it: KeyError)
        ins = [_in(T(0), e0, h0, amt, price, 3)]
        intras = [_intra(T(1), e0, h0, e1, h1, amt, amt - 1, 1000, 14)]
        outs = [_out(T(2), e1, h1, amt - 1, 0, price, 9)]
    elif kind == "tiny_cost":
        # a position whose whole cost is below 5e-14 currency units
        ins = [_in(T(0), e0, h0, rng.choice([1, 1000]), 1000, 3)]
    return {"asset": "X", "exchanges": [f"E{i}" for i in range(ne)], "holders": [f"H{i}" for i in range(nh)], "country": "us", "env": None,
            "from": None, "to": None, "allow_neg": False, "ins": ins, "outs": outs, "intras": intras}


CRAFT_KINDS = ["fully_sold", "income_only", "holder_at_zero", "dust", "moved", "fully_sold_thirds", "dust_fee_zero_balance", "tiny_cost"]


def gen_case(rng, k):
    country, lang = MATRIX[k % len(MATRIX)]
    with_to = rng.chance(35)
    m = l5.gen_multi(rng, country=country, lang=lang, window=False, mixed_pct=0 if with_to else 15,
                     accounts=(rng.range(1, 3), rng.range(1, 3)) if rng.chance(70) else (rng.range(2, 3), rng.range(2, 3)))
    ne, nh = len(m["exchanges"]), len(m["holders"])
    kinds = []
    if rng.chance(55):
        used = {c["asset"] for c in m["assets"]}
        free = [n for n in l5.ASSET_NAMES + ["Q7", "M0"] if n not in used]
        for _ in range(rng.range(1, 2)):
            # dust-fee / below-resolution shapes: rarer than the others so that the other judgements dominate
            kind = rng.choice(CRAFT_KINDS[:6] * 4 + CRAFT_KINDS[6:])
            c = crafted_asset(rng, kind, ne, nh)
            c["asset"] = free.pop(0)
            m["assets"].append(c)
            kinds.append(kind)
    if with_to:
        days = _days(m)
        m["to"] = max(0, rng.choice(days) + rng.choice([0, 0, 0, 1, -1, 30, -30]))
    m["crafted"] = kinds
    return m


def gen_side_case(rng, k):
    """runs outside the property's quantifier (from-date / -n with an overdrawn account): model vs implementation only"""
    country, lang = MATRIX[k % len(MATRIX)]
    m = l5.gen_multi(rng, country=country, lang=lang, window=False, mixed_pct=0)
    days = _days(m)
    if k % 2 == 0:
        m["from"] = max(0, rng.choice(days) + rng.choice([0, 1, -1, 30]))
        if rng.chance(40):
            m["to"] = m["from"] + rng.choice([0, 30, 365, 800])
    else:
        m["allow_neg"] = True
        c = rng.choice(m["assets"])
        r = rng.choice(c["ins"])
        row = max([x["row"] for x in c["ins"] + c["outs"] + c["intras"]] + [3]) + 50
        c["outs"].append(_out([r["ts"][0] + 1, r["ts"][1]], rng.below(len(m["exchanges"])), rng.below(len(m["holders"])),
                              r["crypto_in"] * 3, 0, r["spot"], row))
    m["crafted"] = []
    return m


# ----------------------------------------------------------------------------- oracle (property text)
def float_of(cell):
    v = cell[1]
    if isinstance(v, dict) and "float" in v:
        return float.fromhex(v["float"])
    return v


def in_range(x, v, slack):
    """x is the double nearest to some y with |y - v| <= slack (absolute)"""
    return isinstance(x, float) and float(v - slack) <= x <= float(v + slack)


def asset_facts(case, dump, to_day):
    """exact figures of one asset from the raw rows, the implementation's fractions and balances"""
    lots = [r for r in case["ins"] if to_day is None or hist.local_day(r["ts"]) <= to_day]
    used = {}
    nfr = 0
    for ev, lot, amt in dump["all_fractions"]:
        if lot is None:
            continue
        # the event of a fraction with a lot is an out / intra row (earn-typed ins have no lot)
        evrows = [r for r in case["outs"] + case["intras"] if r["row"] == ev]
        if to_day is not None and evrows and hist.local_day(evrows[0]["ts"]) > to_day:
            continue
        used[lot] = used.get(lot, 0) + amt
        nfr += 1
    unreal, acquired, below, below_n, open_lots = Fraction(0), Fraction(0), Fraction(0), 0, 0
    for r in lots:
        cost = oracle.in_cost_with_fee(r)
        rem = r["crypto_in"] - used.get(r["row"], 0)
        part = cost * rem / r["crypto_in"]
        acquired += cost
        unreal += part
        if rem > 0:
            open_lots += 1
            if part < RES * (1 + Fraction(1, 10 ** 6)):
                below += part
                below_n += 1
    realised = sum((oracle.frac_of_pair(f["cost"]) for f in dump["fractions"]), Fraction(0))
    pos = [(ex, ho, fin) for ex, ho, fin, *_ in dump["balances"] if fin > 0]
    return {"unreal": unreal, "acquired": acquired, "realised": realised, "below": below, "below_n": below_n, "open_lots": open_lots,
            "lots": len(lots), "fractions": nfr, "pos": pos, "rem_total": sum(r["crypto_in"] for r in lots) - sum(used.values())}


def dust_fee_units(case, to_day):
    """informational (tag dust-transfer-fee-no-balance, the shape of the repaired finding F8): total of the transfer fees whose
    fiat value rounds to 0 at 13 decimals"""
    evs = [e for e in hist.taxable_oracle(case) if e["cls"] == 2 and hist.is_dust_fee(e)
           and (to_day is None or hist.local_day(e["ts"]) <= to_day)]
    return sum(e["amt"] for e in evs)


def judge(multi, res, names):
    """-> list of (text, tags) for one generated report; names = (asset, asset-exchange, input) sheet names expected"""
    out = []
    to_day = multi.get("to")
    facts = {c["asset"]: asset_facts(c, res["computed"][c["asset"]], to_day) for c in multi["assets"]}
    N = 4 * sum(f["lots"] + f["fractions"] for f in facts.values()) + 16
    tol = Fraction(N, 10 ** 28)
    sa, se = l5.sheet_by_name(res["sheets"], names[0]), l5.sheet_by_name(res["sheets"], names[1])
    if sa is None or se is None:
        return [(f"sheet {names[0]!r} or {names[1]!r} missing from the report: {[s['name'] for s in res['sheets']]}", {"sheets"})]
    ca = {(r, c): (t, v, f) for r, c, t, v, f in sa["cells"]}
    ce = {(r, c): (t, v, f) for r, c, t, v, f in se["cells"]}

    def data_rows(cells, key_cols):
        rows = {}
        r = HEADER_ROWS
        while (r, 0) in cells and isinstance(cells.get((r, key_cols[-1] + 1), (None, None, None))[1], dict):
            rows[r] = tuple(cells.get((r, c), (None, None, None))[1] for c in key_cols)
            r += 1
        return rows
    rows_a = data_rows(ca, (0, 1))              # row -> (asset, holder)
    rows_e = data_rows(ce, (0, 1, 2))           # row -> (asset, holder, exchange)
    listed = []
    for a, _ in rows_a.values():
        if a not in listed:
            listed.append(a)
    # ---- which assets are listed
    for a, f in sorted(facts.items()):
        has_pos = bool(f["pos"])
        open_cost = f["unreal"] > 0
        if a in listed and not (has_pos and open_cost):
            out.append((f"asset {a} is listed but has no unsold holdings (positive balances: {f['pos']}, unsold cost {float(f['unreal'])})", {"listed"}))
        if a not in listed and has_pos and open_cost:
            if f["below_n"] == f["open_lots"]:
                out.append((f"asset {a} has a positive balance {f['pos']} but is not listed: the unsold cost of each of its lots is below 5e-14 "
                            f"(total {float(f['unreal'])})", {"cost-below-resolution"}))
            else:
                out.append((f"asset {a} has unsold holdings (balances {f['pos']}, unsold cost {float(f['unreal'])}) but is not listed", {"listed"}))
    grand = sum((facts[a]["unreal"] for a in listed if a in facts), Fraction(0))
    for f in facts.values():
        f["d"] = tol * f["acquired"] + f["below"]            # absolute slack of the asset's unrealised cost
    slack_total = sum((facts[a]["d"] for a in listed if a in facts), Fraction(0))
    # ---- rows and values of both sheets
    for label, cells, rows, off in (("Asset", ca, rows_a, 0), ("Asset - Exchange", ce, rows_e, 1)):
        wsum, seen = Fraction(0), set()
        per_asset_cost = {}
        for r, key in sorted(rows.items()):
            a = key[0]
            if a not in facts:
                out.append((f"{label} row {r + 1}: unknown asset {a!r}", {"rows"}))
                continue
            f = facts[a]
            if key in seen:
                out.append((f"{label}: {key} appears twice", {"rows"}))
            seen.add(key)
            if off == 0:
                want_bal = sum(fin for ex, ho, fin in f["pos"] if ho == key[1])
            else:
                want_bal = sum(fin for ex, ho, fin in f["pos"] if ho == key[1] and ex == key[2])
            if want_bal <= 0:
                out.append((f"{label} row {r + 1}: {key} has no positive final balance", {"rows"}))
                continue
            bal, unit, cost, weight = (float_of(cells.get((r, c + off), (None, None, None))) for c in (2, 3, 4, 5))
            if bal != float(Fraction(want_bal, U)):
                out.append((f"{label} row {r + 1} {key}: crypto balance {bal!r} != computed balance {want_bal}e-11", {"balance"}))
            total_bal = sum(fin for _, _, fin in f["pos"])
            B = Fraction(total_bal, U)
            v_unit = f["unreal"] / B
            if not in_range(unit, v_unit, f["d"] / B):
                out.append((f"{label} row {r + 1} {key}: per-unit cost {unit!r} != unrealized cost {float(f['unreal'])!r} / total balance "
                            f"{total_bal}e-11 = {float(v_unit)!r}", {"unit-cost"}))
            v_cost = v_unit * Fraction(want_bal, U)
            d_cost = f["d"] * Fraction(want_bal, U) / B
            if not in_range(cost, v_cost, d_cost):
                out.append((f"{label} row {r + 1} {key}: unrealized cost basis {cost!r}, the unsold lot parts cost {float(v_cost)!r} for this balance",
                            {"cost"}))
            if grand > slack_total:
                v_w = v_cost / grand
                if not in_range(weight, v_w, (d_cost + v_w * slack_total) / (grand - slack_total)):
                    out.append((f"{label} row {r + 1} {key}: cost-basis weight {weight!r}, expected {float(v_w)!r}", {"weight"}))
            if isinstance(weight, float):
                wsum += Fraction(weight)
            if isinstance(cost, float):
                per_asset_cost[a] = per_asset_cost.get(a, Fraction(0)) + Fraction(cost)
        # every holder / (exchange, holder) with a positive balance of a listed asset has its row
        for a in listed:
            if a not in facts:
                continue
            want = {(a, ho) for _, ho, _ in facts[a]["pos"]} if off == 0 else {(a, ho, ex) for ex, ho, _ in facts[a]["pos"]}
            for k in sorted(want - seen):
                out.append((f"{label}: no row for {k} although its final balance is positive", {"rows"}))
        if rows:
            if grand > slack_total and abs(wsum - 1) > TWO52 + 2 * slack_total / (grand - slack_total):
                out.append((f"{label}: cost-basis weights add up to {float(wsum)!r}, not 100%", {"weights"}))
        # realised (detail) + unrealised (report) = everything acquired
        for a, f in sorted(facts.items()):
            rep = per_asset_cost.get(a, Fraction(0))
            diff = abs(f["realised"] + rep - f["acquired"])
            bound = TWO52 * f["unreal"] + 2 * f["d"]
            if diff > bound:
                out.append((f"{label}: asset {a}: realized cost basis of the detail {float(f['realised'])!r} + unrealized cost basis of the report "
                            f"{float(rep)!r} != total cost of everything acquired {float(f['acquired'])!r} (difference {float(diff)!r})", {"conservation"}))
    return out


# ----------------------------------------------------------------------------- one batch
def run_batch(cases, out, stats, side=False):
    jobs = [{"multi": {k: v for k, v in m.items() if k != "crafted"}, "generator": "open_positions"} for m in cases]
    results = l5.run_workers(jobs)
    lines, idx = [], []
    for k, (m, r) in enumerate(zip(cases, results)):
        if "computed" not in r:
            continue
        fr = {a: [tuple(x) for x in d["all_fractions"]] for a, d in r["computed"].items()}
        lines.append(hist.line(70, [LANG[m["lang"]]] + l5.encode_rinput(m, fr)))
        idx.append(k)
    model = dict(zip(idx, core.run_model(lines)))
    for k, (m, r) in enumerate(zip(cases, results)):
        rep = {"multi": {kk: v for kk, v in m.items() if kk != "crafted"}, "side": side}
        stats["evaluations"] += 1
        if "computed" not in r:
            stats["rejected_before_report"] += 1          # compute_tax refused the input (e.g. overdrawn): outside the quantifier
            if r.get("err") not in ("RP2ValueError",):
                out.violation(f"implementation failed before the report: {r.get('err')}: {r.get('msg')}", rep, tags={"harness"}, found_input=False)
            continue
        mono = all(dates_monotone(c) for c in m["assets"])
        base_tags = set() if (mono or m.get("to") is None) else {"non-monotone-local-dates"}
        mo = model[k]
        dust = {c["asset"]: dust_fee_units(c, m.get("to")) for c in m["assets"]}
        if "err" in r:
            # the generator raised: no report
            tags = set(base_tags)
            facts = {c["asset"]: asset_facts(c, r["computed"][c["asset"]], m.get("to")) for c in m["assets"]}
            orphan = [a for a, f in facts.items() if not f["pos"] and f["unreal"] > f["below"]]
            if r["err"] == "KeyError" and orphan and all(dust[a] > 0 and facts[a]["rem_total"] == dust[a] for a in orphan):
                tags.add("dust-transfer-fee-no-balance")      # informational only: no known: line matches it any more
            if not side:
                out.violation(f"no report: the generator raised {r['err']}: {r.get('msg')} "
                              f"(assets whose lots keep an amount that no account holds: {orphan})", rep, tags=tags | {"crash"})
            if mo[0] == 0:
                stats["mismatch"] += 1
                out.violation(f"implementation raised {r['err']} ({r.get('msg')}) where the model produces a report", rep,
                              tags={"correspondence"}, found_input=False)
            continue
        stats["reports"] += 1
        if mo[0] != 0:
            stats["mismatch"] += 1
            out.violation(f"model returns error code {mo} where the implementation produces a report", rep, tags={"correspondence"}, found_input=False)
            names = None
        else:
            sheets = l5.decode_report(mo, 1)
            names = [s["name"] for s in sheets]
            mism = []
            for ms in sheets:
                os_ = l5.sheet_by_name(r["sheets"], ms["name"])
                if os_ is None:
                    mism.append((ms["name"], -1, -1, f"sheet missing, file has {[s['name'] for s in r['sheets']]}"))
                    continue
                if (ms["rows"], ms["cols"]) != (os_["nrows"], os_["ncols"]):
                    mism.append((ms["name"], -1, -1, f"size {os_['nrows']}x{os_['ncols']}, model {ms['rows']}x{ms['cols']}"))
                for rr, cc, txt in l5.compare_sheet(ms, os_, check_extra=True):
                    mism.append((ms["name"], rr, cc, txt))
                stats["cells"] += len(l5.final_cells(ms["writes"]))
            if mism:
                stats["mismatch"] += 1
        if not side and names is None:
            side_skip = True      # the translated sheet names come from the model; without them the oracle cannot locate the tables
        else:
            side_skip = False
        if not side and not side_skip:
            exp_names = names
            viol = judge(m, r, exp_names)
            for text, tags in viol:
                tg = set(tags) | base_tags
                out.violation(text, rep, tags=tg)
            listed_rows = sum(1 for s in r["sheets"] if s["name"] == exp_names[0] for c in s["cells"] if c[1] == 2 and c[0] >= HEADER_ROWS and c[2] == "float")
            partial = any(0 < sum(x[2] for x in d["all_fractions"] if x[1] == lot[0]) for d in r["computed"].values() for lot in d["ins"])
            if listed_rows >= 2 and partial:
                stats["nontrivial"].add(core.case_hash(rep["multi"]))
            stats["rows"] += listed_rows
        if names is not None and mism:
            out.violation("model and implementation disagree on the report cells: " + "; ".join(f"{s}[{a},{b}] {t}" for s, a, b, t in mism[:4]),
                          rep, tags={"correspondence"}, found_input=False)
        for kind in m.get("crafted", []):
            stats["crafted"][kind] = stats["crafted"].get(kind, 0) + 1
        stats["by_country"][m["country"] + "/" + m["lang"]] = stats["by_country"].get(m["country"] + "/" + m["lang"], 0) + 1
        if m.get("to") is not None:
            stats["with_to"] += 1


def corpus_cases():
    out = []
    if os.path.isdir(CORPUS):
        for f in sorted(os.listdir(CORPUS)):
            if f.endswith(".json"):
                with open(os.path.join(CORPUS, f), encoding="utf-8") as fh:
                    c = json.load(fh)["case"]
                out.append(c)
    return out


def known_replays(out, stats):
    """every known: line of C15 names a replay; it is re-run on each check (it must still fail, otherwise the line is stale)"""
    stale = []
    try:
        lines = [ln for ln in open(core.KNOWN, encoding="utf-8") if ln.startswith("known:") and "property=C15 " in ln]
    except OSError:
        lines = []
    for ln in lines:
        f = dict(kv.split("=", 1) for kv in ln.partition("::")[0].split()[1:] if "=" in kv)
        path = os.path.join(core.VERIF, f.get("replay", ""))
        try:
            with open(path, encoding="utf-8") as fh:
                c = json.load(fh)["case"]
        except (OSError, ValueError, KeyError):
            stale.append(f.get("id", "?") + " (replay unreadable)")
            continue
        before = len(out.violations)
        m = copy.deepcopy(c["multi"])
        m.setdefault("crafted", [])
        run_batch([m], out, stats, side=bool(c.get("side")))
        if not any(f.get("match") in v["tags"] for v in out.violations[before:]):
            stale.append(f.get("id", "?"))
    return stale


def run(tier, build, replay=None):
    out = core.Outcome("C15", tier)
    proofs = core.check_proofs(build, "C15.v")
    stats = {"evaluations": 0, "reports": 0, "rejected_before_report": 0, "mismatch": 0, "cells": 0, "rows": 0, "nontrivial": set(),
             "crafted": {}, "by_country": {}, "with_to": 0}
    sample = None
    stale = []
    if replay:
        m = copy.deepcopy(replay["multi"])
        m.setdefault("crafted", [])
        run_batch([m], out, stats, side=bool(replay.get("side")))
        sample = replay
    else:
        for c in corpus_cases():
            m = copy.deepcopy(c["multi"])
            m.setdefault("crafted", [])
            run_batch([m], out, stats, side=bool(c.get("side")))
        stale = known_replays(out, stats)
        n_main, n_side = (360, 40) if tier == "quick" else (8000, 800)
        chunk = 400
        cases = []
        for k in range(n_main):
            cases.append(gen_case(core.Rng(core.seed(), 15_000_000 + k), k))
        sample = {"multi": {kk: v for kk, v in cases[0].items() if kk != "crafted"}}
        for i in range(0, len(cases), chunk):
            run_batch(cases[i:i + chunk], out, stats)
        side = [gen_side_case(core.Rng(core.seed(), 15_500_000 + k), k) for k in range(n_side)]
        for i in range(0, len(side), chunk):
            run_batch(side[i:i + chunk], out, stats, side=True)
    core.proofs_verdict(out, proofs, build, "C15.v")
    out.coverage.update({
        "evaluations": stats["evaluations"],
        "distinct_nontrivial": len(stats["nontrivial"]),
        "rule": "generated multi-asset (1-6), multi-holder (1-3 exchanges x 1-3 holders) valid inputs without from-date, to-date none (65 %) or on / next to a "
                "transaction day, every country with its shipped languages, all four methods and schedules for us/generic; hand-shaped assets mixed in "
                "(fully sold, income only, one holder at zero, 1e-11 remainders, transfers, dust transfer fee, cost below 5e-14). Each case = one report "
                "generated by the real plugin in a fresh interpreter, read back from the .ods; compared cell by cell with the Coq model and judged by the "
                "exact-arithmetic oracle. non-trivial = at least two data rows on the Asset sheet and at least one partly consumed lot. A separate small "
                "stream (from-date, -n with an overdrawn account: outside the property's quantifier) is compared with the model only.",
        "samples": [sample] if sample else [],
        "traces_validated_against_impl": stats["reports"],
        "correspondence_mismatches": stats["mismatch"],
        "cells_compared": stats["cells"],
        "data_rows_judged": stats["rows"],
        "inputs_rejected_by_compute_tax": stats["rejected_before_report"],
        "with_to_date": stats["with_to"],
        "crafted_assets": stats["crafted"],
        "by_country_language": stats["by_country"],
        "stale_known_findings": stale,
    })
    out.assumptions = [
        "no from-date (the property is silent there; such runs are only compared with the model)",
        "to-date cuts assume local dates monotone in time (finding F9); cases with a to-date are generated with one UTC offset per asset",
        "numeric criterion: cell = correctly rounded double of a value within N*1e-28 x (cost of the asset's lots) of the exact rational "
        "(N = 4*(lots+fractions)+16); sums of cells within 2^-52 relative; lots whose unsold cost is below 5e-14 may be dropped",
        "nothing is assumed about small transfer fees: finding F8 is repaired (replay corpus/C15/f8-dust-fee-no-balance.json runs first), "
        "an asset whose lots keep an amount that no account holds is a violation",
    ]
    return out.finish(proofs, build)
