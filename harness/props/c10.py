"""C10 -- date filters only hide rows; they never change the figures shown."""
from fractions import Fraction

from harness import core, hist, l4, oracle
from harness.props.c09 import dates_monotone

FIG = ("ev", "lot", "amt", "proceeds", "cost", "gain", "long", "running")


def avg_price_ok(case, t, reported):
    """average price = cost of everything acquired up to the to-date / amount acquired up to the to-date (exact rationals,
    tolerance 1e-27 relative for the 31-digit roundings of at most a few dozen additions and one division)"""
    ins = [r for r in case["ins"] if t is None or hist.local_day(r["ts"]) <= t]
    crypto = sum(r["crypto_in"] for r in ins)
    got = oracle.frac_of_pair(reported)
    if not ins:
        return got == 0
    if crypto == 0:
        return True
    want = sum(oracle.in_cost_with_fee(r) for r in ins) / (crypto * oracle.U11)
    return abs(got - want) <= abs(want) * Fraction(1, 10 ** 27)


def cli_stage(out, tier, replay=None):
    """the same through the command line: rp2_us / rp2_generic with an [accounting_methods] schedule that changes method in a
    year with events, run without a window and with -f on / after the year of the change.  Every row of the windowed tax report
    must be a row of the unfiltered one (a from-date only hides rows; the tax report carries no figure that depends on it)."""
    import json
    from harness import l6
    if replay is not None:
        pairs = [(replay["base"], replay["windowed"])]
    else:
        rng = core.Rng(core.seed(), 1010)
        pairs = []
        for k in range(24 if tier == "quick" else 160):
            inp = l6.gen_input(rng, rng.choice(["dca", "lots", "lots", "plain"]), n_assets=1)
            years = sorted({d.year for a in inp["assets"] for d, _, _ in l6.all_events(a)})
            if len(years) < 2:
                continue
            y = rng.choice(years[1:])
            m1 = rng.choice(["fifo", "lifo", "hifo", "lofo"])
            m2 = rng.choice([m for m in ("fifo", "lifo", "hifo", "lofo") if m != m1])
            base = {"country": ("us", "generic")[k % 2], "opts": {"method": None, "lang": "en", "from": None, "to": None}, "inp": inp,
                    "ini_extra": f"[accounting_methods]\n1970 = {m1}\n{y} = {m2}\n", "dump": "full", "hashseed": 0, "supported": True,
                    "kind": "c10-cli", "window": "none"}
            later = [x for x in years if x >= y]
            frm = f"{rng.choice(later)}-{rng.choice(['01-01', '01-01', '03-15', '07-01'])}"
            win = dict(base, opts=dict(base["opts"], **{"from": frm}), window="from")
            pairs.append((base, win))
    res = l6.run_jobs([j for p in pairs for j in p])
    n = 0
    for k, (b, w) in enumerate(pairs):
        rb, rw = res[2 * k], res[2 * k + 1]
        case = {"base": b, "windowed": w}
        if rb["rc"] != 0:
            continue
        n += 1
        if rw["rc"] != 0:
            out.violation(f"rp2_{b['country']} succeeds without a window and fails with -f {w['opts']['from']}: {rw['err']}", case, tags={"cli-window"})
            continue
        # (reports are matched by kind: the method prefix of the file names is the business of the C16 check)
        kind_of = lambda fn: fn[fn.index("tax_report"):]  # noqa: E731
        base_by_kind = {kind_of(fn): v for fn, v in rb["files"].items() if "tax_report" in fn}
        for fn, fw in rw["files"].items():
            if "tax_report" not in fn or kind_of(fn) not in base_by_kind or fw.get("bad") or base_by_kind[kind_of(fn)].get("bad"):
                continue
            all_rows = {}
            # a row = its cells without the visual style (the first row shown of a report carries a border style)
            rowkey = lambda r: json.dumps([None if c is None else list(c[:4]) for c in r])  # noqa: E731  (type, value, formula, text)
            for _, rows in base_by_kind[kind_of(fn)]["sheets"]:
                for r in rows:
                    key = rowkey(r)
                    all_rows[key] = all_rows.get(key, 0) + 1
            bad = None
            for name, rows in fw["sheets"]:
                if name == "Legend":            # states the window itself
                    continue
                for r in rows:
                    if not any(c and c[1] not in (None, "") for c in r):
                        continue                # blank / padding row
                    key = rowkey(r)
                    if all_rows.get(key, 0) <= 0:
                        bad = (name, r)
                        break
                    all_rows[key] -= 1
                if bad:
                    break
            if bad:
                out.violation(f"rp2_{b['country']} -f {w['opts']['from']} with schedule {b['ini_extra'].split(chr(10))[1:3]}: {fn} sheet `{bad[0]}` shows the row "
                              f"{[c[1] for c in bad[1] if c][:12]} that the unfiltered report does not have: a from-date must only hide rows",
                              case, tags={"cli-window"})
                break
    return n


def run(tier, build, replay=None):
    out = core.Outcome("C10", tier)
    proofs = core.check_proofs(build, "C10.v")
    if replay and "windowed" in replay:
        n_cli = cli_stage(out, tier, replay)
        core.proofs_verdict(out, proofs, build, "C10.v")
        out.coverage.update({"evaluations": n_cli, "distinct_nontrivial": n_cli, "rule": "replay of a command-line pair (unfiltered / -f)"})
        return out.finish(proofs, build)
    if replay:
        core.impl_env_setup()
        c, f, t = replay["case"], replay.get("from"), replay.get("to")
        b = hist.impl_compute(c)
        i = hist.impl_compute(c, from_day=f, to_day=t)
        raw = core.run_model([l4.model_line(c, b, f, t, True, i)])
        data = {"jobs": [[0, f, t]], "impl": [i], "model": [l4.decode_computed(raw[0], c)], "base": {"cases": [c], "impl": [b]}}
    else:
        data = l4.run(tier)
    base = data["base"]
    nontriv, mism = set(), 0
    kinds = {"none": 0, "from": 0, "to": 0, "both": 0, "empty": 0}
    for (idx, f, t), i, m in zip(data["jobs"], data["impl"], data["model"]):
        c = base["cases"][idx]
        b = base["impl"][idx]["ok"]
        rep = {"case": c, "from": f, "to": t}
        kinds["none" if f is None and t is None else "from" if t is None else "to" if f is None else "both"] += 1
        if "ok" not in i:
            out.violation(f"the unfiltered run succeeds but the run with window ({f}, {t}) fails: {i}", rep, tags={"window-fails"})
            continue
        mono = dates_monotone(c)
        tags = set() if mono or t is None else {"non-monotone-local-dates"}       # F9 concerns the to-date cut only
        lo = -10 ** 9 if f is None else f
        hi = 10 ** 9 if t is None else t
        evs = {e["row"]: e for e in hist.taxable_oracle(c)}
        inwin = lambda ts: lo <= hist.local_day(ts) <= hi  # noqa: E731
        evwin = lambda row: row in evs and inwin(evs[row]["ts"])  # noqa: E731  (a fraction of an unknown row is never expected)
        # fractions: exactly those whose event date lies in the window, figures identical to the unfiltered run
        want = [tuple(map(str, (x[k] for k in FIG))) for x in b["fractions"] if evwin(x["ev"])]
        got = [tuple(map(str, (x[k] for k in FIG))) for x in i["ok"]["fractions"]]
        if want != got:
            d = next(((a, g) for a, g in zip(want + [None], got + [None]) if a != g))
            out.violation(f"fractions shown for window ({f}, {t}) differ from the unfiltered run restricted to the window: expected {d[0]}, shown {d[1]}",
                          rep, tags=tags | {"fractions"})
        if not got:
            kinds["empty"] += 1
        # transactions shown
        for key, rows in (("ins", c["ins"]), ("outs", c["outs"]), ("intras", c["intras"])):
            wantrows = [r["row"] for r in sorted(rows, key=lambda r: r["ts"][0]) if inwin(r["ts"])]
            gotrows = [x[0] for x in i["ok"][key]]
            if wantrows != gotrows:
                out.violation(f"{key} shown for window ({f}, {t}): rows {gotrows}, rows dated in the window: {wantrows}", rep, tags=tags | {"rows"})
            # running sums / derived figures of shown rows are those of the unfiltered run
            bmap = {x[0]: x for x in b[key]}
            for x in i["ok"][key]:
                bx = list(bmap.get(x[0], []))
                xx = list(x)
                if key == "ins":        # sold % is accumulated over the shown fractions only (documented), skip it
                    bx = bx[:3] + bx[4:]
                    xx = xx[:3] + xx[4:]
                if bx != xx:
                    out.violation(f"{key} row {x[0]}: figures change under the window: {xx} vs unfiltered {bx}", rep, tags={"row-figures"})
        # fraction labels count all history up to the to-date
        lab = oracle.labels(c, b["fractions"], t)
        for x in i["ok"]["fractions"]:
            w = lab.get((x["ev"], x["lot"]))
            g = (x["ev_frac"][0], x["ev_frac"][1], x["lot_frac"][0] if x["lot_frac"] else None, x["lot_frac"][1] if x["lot_frac"] else None)
            if w is not None and w != g:
                out.violation(f"fraction ({x['ev']}->{x['lot']}) labelled {g}, counting all fractions up to the to-date gives {w}", rep,
                              tags=tags | {"labels"})
        # balances and average price reflect all history up to the to-date (not from the from-date)
        flows = oracle.flows(c, t, by_date=True)
        got_b = {(c["exchanges"].index(x[0]), c["holders"].index(x[1])): x[2:] for x in i["ok"]["balances"]}
        if {k: list(v) for k, v in got_b.items()} != {k: list(v) for k, v in flows.items()}:
            out.violation(f"balances under window ({f}, {t}) do not reflect all history up to the to-date", rep, tags=tags | {"balances"})
        # yearly summary lines cover whole years starting with the from-date's year (sums over ALL fractions of those
        # years dated up to the to-date, not only over the fractions shown)
        want_y = oracle.yearly(c, b["fractions"], t, f)
        got_y = {(y[0], y[1], y[2]): [y[3], oracle.dec_of_pair(y[4]), oracle.dec_of_pair(y[5]), oracle.dec_of_pair(y[6])] for y in i["ok"]["yearly"]}
        if want_y != got_y:
            diff = sorted(set(want_y) ^ set(got_y)) or [k for k in want_y if want_y[k] != got_y.get(k)]
            out.violation(f"yearly summary under window ({f}, {t}) does not cover whole years from the from-date's year up to the to-date: "
                          f"lines {diff[:3]} differ (expected {[want_y.get(k) for k in diff[:2]]}, reported {[got_y.get(k) for k in diff[:2]]})",
                          rep, tags=tags | {"yearly-window"})
        if not avg_price_ok(c, t, i["ok"]["price_per_unit"]):
            out.violation(f"average price under window ({f}, {t}) is {oracle.dec_of_pair(i['ok']['price_per_unit'])}: not the cost of all acquisitions up to the "
                          "to-date divided by their amount", rep, tags=tags | {"average-price"})
        if want and len(want) < len(b["fractions"]):
            nontriv.add(core.case_hash(rep))
        if "err" in m or l4.diff_keys(i["ok"], m):
            mism += 1
            out.violation(f"model and implementation disagree under window ({f}, {t}) on {l4.diff_keys(i['ok'], m) if 'err' not in m else m}",
                          rep, tags={"correspondence"}, found_input=False)
    n_cli = cli_stage(out, tier) if not replay else 0
    core.proofs_verdict(out, proofs, build, "C10.v")
    out.coverage.update({
        "command_line_pairs_unfiltered_vs_from_date": n_cli,
        "evaluations": len(data["jobs"]),
        "distinct_nontrivial": len(nontriv),
        "rule": "each generated history is run unfiltered and with a window (from / to / both / one-day, on, between and outside transaction days); the windowed "
                "ComputedData must be the unfiltered one restricted to the window, figure by figure; non-trivial = the window hides some fractions and shows others",
        "samples": [{"case": base["cases"][data["jobs"][0][0]], "from": data["jobs"][0][1], "to": data["jobs"][0][2]}] if data["jobs"] else [],
        "traces_validated_against_impl": len(data["jobs"]),
        "correspondence_mismatches": mism,
        "window_kinds": kinds,
        "end_to_end_stream": hist.ods_stats(base["cases"]),
    })
    out.assumptions = ["'exactly the rows whose date lies in the window' is claimed for histories whose local dates are monotone in time (finding F9)"]
    return out.finish(proofs, build)
