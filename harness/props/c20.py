"""C20 -- Japanese tax report: one sheet per asset-year, chained in year order.

Every case is ONE generation of tax_report_jp.ods in a fresh interpreter (harness/l5_worker.py) on a
generated multi-asset input whose years are sparse, unordered across the three tables, disposal-only or
contain only fee-less transfers.  The .ods read back is
  (a) compared cell by cell with the report the Coq model (Model/JpReport.v + Model/JpLegend.v, driver cmd 84: Legend sheet first) produces from the
      same transactions (static template cells included, so extra / shifted / missing rows show), and
  (b) judged against the property text by the independent oracle below (no use of the model, geometry taken
      from the template's own labels), which is what yields the concrete failing input.
"""
import glob
import json
import os
import re
from decimal import Decimal, Context, ROUND_HALF_EVEN

from harness import core, hist, l5

U = hist.U
LANG_CODE = {"en": 0, "kl": 1}
PREFIX = {"en": "", "kl": "__test_"}           # locales/kl: "{}_{}" -> "__test_{}_{}", "{}_Summary" -> "__test_{}_Summary"
CTX = Context(prec=31, rounding=ROUND_HALF_EVEN)
CORPUS = os.path.join(core.VERIF, "corpus", "C20")
OFFSETS = [0, 0, 32400, 32400, -43200, 50400]
IN_TYPES = ["BUY", "BUY", "BUY", "GIFT", "DONATE", "AIRDROP", "HARDFORK", "INCOME", "INTEREST", "MINING", "STAKING", "WAGES"]
OUT_TYPES = ["SELL", "SELL", "SELL", "GIFT", "DONATE", "FEE", "LOST", "STAKING"]
AMOUNTS = [U, 2 * U, 5 * U, U // 2, U // 4, 123456789012, 3 * U + 1, 10 * U]
PRICES = [100 * U, 200 * U, 1234567 * 10 ** 6, 50 * U, U, 31415926535 * 1000, 7 * U // 2]


# ----------------------------------------------------------------------------- generator
def _ts(rng, year, off, lo=None):
    """an instant whose LOCAL year (offset off) is `year`, later than lo; often within hours of New Year so that the UTC
    year differs from the local one"""
    y0 = hist.day_us(year, 1, 1) - off * 1_000_000
    y1 = hist.day_us(year + 1, 1, 1) - off * 1_000_000 - 1
    r = rng.below(10)
    if r < 2:
        t = y0 + rng.choice([0, 1, 1800_000_000, 3 * 3600_000_000])
    elif r < 4:
        t = y1 - rng.choice([0, 1, 1800_000_000, 3 * 3600_000_000])
    else:
        t = y0 + rng.below(365) * hist.DAY + rng.choice(hist.TIMES)
    t = min(max(t, y0), y1)
    if lo is not None and t <= lo:
        t = lo + rng.choice([1, 1, 1_000_000, 3600_000_000])       # strictly later: the balance replay orders equal instants by table
        if t > y1:
            return None
    return t


def gen_asset(rng, name, years, ne, nh, mixed):
    """a valid single-asset history over the given local years (ascending); each year gets a kind:
    purchases only / disposals only / fee-less transfers only / transfers with fee / mixed"""
    off0 = rng.choice(OFFSETS)
    bal, ins, outs, intras = {}, [], [], []
    t_last = None
    first = True
    for y in years:
        if mixed and not first and rng.chance(50):
            # local years that interleave in time: a purchase dated 1 January y 01:00 (+14:00) happens BEFORE a purchase dated
            # 31 December y-1 21:00 (-12:00); both belong on the sheet of their own local year
            ta = hist.day_us(y, 1, 1) + 3600_000_000 - 50400 * 1_000_000
            tb = hist.day_us(y, 1, 1) - 3 * 3600_000_000 + 43200 * 1_000_000
            if t_last is not None and t_last < ta:
                for t, off in ((ta, 50400), (tb, -43200)):
                    acct = (rng.below(ne), rng.below(nh))
                    amt = rng.choice(AMOUNTS)
                    ins.append({"ts": [t, off], "exch": acct[0], "holder": acct[1], "type": "BUY", "spot": rng.choice(PRICES), "crypto_in": amt})
                    bal[acct] = bal.get(acct, 0) + amt
                t_last = tb
        kind = rng.choice(["buy", "sell", "sell", "move0", "move0", "movefee", "mixed", "mixed", "income"])
        if first:
            kind = rng.choice(["buy", "buy", "mixed", "income"])
        n = rng.range(1, 4)
        for k in range(n):
            off = rng.choice(OFFSETS) if mixed else off0
            t = _ts(rng, y, off, t_last)
            if t is None:
                break
            funded = sorted(a for a, b in bal.items() if b > 0)
            what = kind
            if kind == "mixed":
                what = rng.choice(["buy", "sell", "move0", "movefee", "income"])
            if what in ("sell", "move0", "movefee") and not funded:
                if first and not ins:
                    what = "buy"
                else:
                    continue
            t_last = t
            ts = [t, off]
            if what in ("buy", "income"):
                acct = (rng.below(ne), rng.below(nh))
                ty = rng.choice(IN_TYPES) if what == "buy" else rng.choice(hist.EARN)
                amt = rng.choice(AMOUNTS)
                row = {"ts": ts, "exch": acct[0], "holder": acct[1], "type": ty, "spot": rng.choice(PRICES), "crypto_in": amt}
                r = rng.below(10)
                if r == 0:
                    row["fiat_fee"] = rng.choice([5 * U, 123456789, 1])
                elif r == 1 and ty == "BUY":
                    row["crypto_fee"] = rng.choice([1000, U // 100])
                elif r == 2:
                    row["fiat_in_no_fee"] = max(1, amt * row["spot"] // U + rng.choice([1, -1, 12345 * U]))
                ins.append(row)
                bal[acct] = bal.get(acct, 0) + amt
            elif what == "sell":
                acct = rng.choice(funded)
                avail = bal[acct]
                total = avail if rng.chance(25) else max(1, avail // rng.choice([2, 3, 10]))
                ty = rng.choice(OUT_TYPES)
                fee = 0
                if ty == "FEE":
                    nofee, fee = 0, total
                else:
                    if total > 1 and rng.chance(35):
                        fee = min(total - 1, rng.choice([1000, U // 1000, max(1, total // 100)]))
                    nofee = total - fee
                row = {"ts": ts, "exch": acct[0], "holder": acct[1], "type": ty, "spot": rng.choice(PRICES),
                       "crypto_out_no_fee": nofee, "crypto_fee": fee}
                r = rng.below(12)
                if r == 0:
                    row["fiat_fee"] = max(0, fee * row["spot"] // U + rng.choice([0, 1, 50 * U]))
                elif r == 1 and ty != "FEE":
                    row["fiat_out_no_fee"] = max(1, nofee * row["spot"] // U + rng.choice([1, 777 * U]))
                elif r == 2:
                    row["crypto_out_with_fee"] = total
                outs.append(row)
                bal[acct] = avail - total
            else:
                acct = rng.choice(funded)
                avail = bal[acct]
                to = (rng.below(ne), rng.below(nh))
                sent = avail if rng.chance(30) else max(1, avail // rng.choice([2, 3, 7]))
                fee = 0 if what == "move0" else min(sent, rng.choice([1000, U // 1000, max(1, sent // 50)]))
                row = {"ts": ts, "from_exch": acct[0], "from_holder": acct[1], "to_exch": to[0], "to_holder": to[1],
                       "spot": rng.choice(PRICES), "crypto_sent": sent, "crypto_received": sent - fee}
                if fee > 0 and rng.chance(2):
                    fee, row["spot"], row["crypto_received"] = 1, 1000, sent - 1       # dust: the lost amount is worth 1e-19 yen (F14)
                if fee == 0 and rng.chance(50):
                    row["spot"] = None if rng.chance(50) else 0
                intras.append(row)
                bal[acct] = avail - sent
                bal[to] = bal.get(to, 0) + sent - fee
        first = first and not ins
    if not ins:
        ins.append({"ts": [hist.day_us(years[0], 1, 2), 0], "exch": 0, "holder": 0, "type": "BUY", "spot": PRICES[0], "crypto_in": U})
    if rng.chance(30):
        rng.shuffle(ins)
        rng.shuffle(outs)
        rng.shuffle(intras)
    r = 3
    for row in ins:
        row["row"] = r
        r += 1
    r += 3
    for row in outs:
        row["row"] = r
        r += 1
    r += 3
    for row in intras:
        row["row"] = r
        r += 1
    return {"asset": name, "ins": ins, "outs": outs, "intras": intras}


def gen_case(rng, k=0):
    ne, nh = rng.range(1, 2), rng.range(1, 2)
    n = rng.choice([1, 2, 2, 3, 4])
    names = list(l5.ASSET_NAMES)
    rng.shuffle(names)
    pool = sorted(rng.shuffle(list(range(2016, 2025)))[:rng.range(2, 6)])      # sparse set of years
    mixed = rng.chance(25)
    assets = []
    for j in range(n):
        ys = [y for y in pool if rng.chance(60)] or [rng.choice(pool)]
        assets.append(gen_asset(rng, names[j], ys, ne, nh, mixed))
    m = {"country": "jp", "lang": "en" if k % 2 == 0 else "kl", "env": None, "sched": [[1970, "fifo"]], "from": None, "to": None,
         "allow_neg": False, "exchanges": [f"E{i}" for i in range(ne)], "holders": [f"H{i}" for i in range(nh)], "assets": assets}
    if k % 10 == 3:
        m["sched"] = [[2015, "fifo"]]          # one-entry schedule not keyed 1970: the legend shows the method by value (F10 repaired)
    if not mixed:
        days = sorted({hist.local_day(r["ts"]) for c in assets for r in c["ins"] + c["outs"] + c["intras"]})
        w = rng.below(20)
        if w == 0:
            m["from"] = rng.choice(days) + rng.choice([0, 1, -1])
        elif w == 1:
            m["to"] = rng.choice(days) + rng.choice([0, 1, -1])
        elif w == 2:
            a, b = sorted([rng.choice(days), rng.choice(days)])
            m["from"], m["to"] = a, b                                           # rejected by the JP generator (F7, C16)
    return m


# ----------------------------------------------------------------------------- model side
def model_line(cmd, multi, fracs, extra=()):
    return hist.line(cmd, list(extra) + [LANG_CODE[multi["lang"]]] + l5.encode_rinput(multi, fracs))


DON_RE = re.compile(r"^\x00(-?\d+) (-?\d+)$")


def render_model(sheets):
    """donation cells: the model hands over the exact decimal, the text is formatted here the way the writer does
    (f"0 (￥{float(d):0,.2f})")"""
    for sh in sheets:
        ws = []
        for r, c, p in sh["writes"]:
            if p[0] == "str":
                m = DON_RE.match(p[1])
                if m:
                    p = ("str", f"0 (￥{float(Decimal(int(m.group(1))).scaleb(int(m.group(2)))):0,.2f})")
            ws.append((r, c, p))
        sh["writes"] = ws
    return sheets


def correspond(multi, res, mres):
    """-> list of texts (empty = model and implementation agree)"""
    if "err" in res and res.get("stage") != "generated":
        want = {"RP2RuntimeError": 9, "ValueError": 5}.get(res["err"])
        if res.get("stage") != "computed":
            return [f"implementation failed before the generator: {res['err']}: {res.get('msg')}"]
        if mres[0] != want:
            return [f"implementation raises {res['err']} ({res.get('msg')}), model answers {mres[:1]}"]
        return []
    if mres[0] != 0:
        return [f"implementation writes the report, model answers error code {mres[0]}"]
    model = render_model(l5.decode_report(mres, 1))
    impl = [s for s in res["sheets"]]
    out = []
    if not impl or impl[0]["name"] != PREFIX[multi["lang"]] + "Legend":
        out.append(f"first sheet is {impl[0]['name'] if impl else None}, expected the legend")
    # the model (cmd 84: Model/JpLegend.v jp_report_full) describes the whole file, the Legend sheet first
    if [s["name"] for s in impl] != [s["name"] for s in model]:
        out.append(f"sheets {[s['name'] for s in impl]}, model {[s['name'] for s in model]}")
    for ms in model:
        s = l5.sheet_by_name(impl, ms["name"])
        if s is None:
            continue
        if s["nrows"] != ms["rows"] or s["ncols"] != ms["cols"]:
            out.append(f"sheet {ms['name']}: {s['nrows']} x {s['ncols']}, model {ms['rows']} x {ms['cols']}")
        for r, c, text in l5.compare_sheet(ms, s, check_extra=True)[:6]:
            out.append(f"sheet {ms['name']} cell ({r},{c}): {text}")
    return out


# ----------------------------------------------------------------------------- independent oracle (property text)
def dmul(a_units, b_units):
    return CTX.multiply(Decimal(a_units).scaleb(-11), Decimal(b_units).scaleb(-11))


def local_md(ts):
    from datetime import datetime, timedelta, timezone
    dt = datetime(1970, 1, 1, tzinfo=timezone.utc) + timedelta(microseconds=ts[0] + ts[1] * 1_000_000)
    return dt.year, dt.month, dt.day


def expected_rows(multi, case):
    """{year: [row tuples]} for every visible transaction; a fee-less transfer contributes its year but no row.
    tuple: (month, day, client, TYPE, purchased amount, purchased yen, sold amount, sold yen | text, fee)"""
    lo = -10 ** 9 if multi.get("from") is None else multi["from"]
    hi = 10 ** 9 if multi.get("to") is None else multi["to"]
    vis = lambda r: lo <= hist.local_day(r["ts"]) <= hi  # noqa: E731
    ex = multi["exchanges"]
    out = {}

    def fee_yen(r):
        cf = r.get("crypto_fee") or 0
        if cf > 0:
            return float(dmul(cf, r["spot"]))
        ff = r.get("fiat_fee") or 0
        return float(Decimal(ff).scaleb(-11)) if ff > 0 else 0.0
    for r in case["ins"]:
        if not vis(r):
            continue
        y, mo, d = local_md(r["ts"])
        yen = float(dmul(r["crypto_in"], r["spot"]))
        sold = (0.0, yen) if r["type"] in hist.EARN else (None, None)
        out.setdefault(y, []).append((float(mo), float(d), ex[r["exch"]], r["type"], float(Decimal(r["crypto_in"]).scaleb(-11)), yen) + sold + (fee_yen(r),))
    for r in case["outs"]:
        if not vis(r):
            continue
        y, mo, d = local_md(r["ts"])
        total = r.get("crypto_out_with_fee")
        if total is None:
            total = r["crypto_out_no_fee"] + r["crypto_fee"]
        yen = dmul(r["crypto_out_no_fee"], r["spot"])
        shown = f"0 (￥{float(yen):0,.2f})" if r["type"] == "DONATE" else float(yen)
        out.setdefault(y, []).append((float(mo), float(d), ex[r["exch"]], r["type"], None, None, float(Decimal(total).scaleb(-11)), shown, fee_yen(r)))
    for r in case["intras"]:
        if not vis(r):
            continue
        y, mo, d = local_md(r["ts"])
        rows = out.setdefault(y, [])
        fee = r["crypto_sent"] - r["crypto_received"]
        if fee > 0:
            rows.append((float(mo), float(d), "Transfer", "FEE", None, None, float(Decimal(fee).scaleb(-11)), float(dmul(fee, r.get("spot") or 0)), 0.0))
    return out


def legend_oracle(multi, res):
    """the Legend (first sheet) states the accounting method(s) and the date filters actually used: found through the
    template's own labels in column A, values read from column B"""
    v = []
    pre = PREFIX[multi["lang"]]
    if not res["sheets"] or res["sheets"][0]["name"] != pre + "Legend":
        return [(f"the first sheet is {res['sheets'][0]['name'] if res['sheets'] else None!r}, not the legend", {"legend", "legend-missing"})]
    cells = cellmap(res["sheets"][0])
    rows = [r for (r, c), (val, f) in cells.items() if c == 0 and val == pre + "Accounting Method"]
    if len(rows) != 1:
        return [(f"legend: {len(rows)} cells labelled 'Accounting Method' in column A", {"legend", "legend-layout"})]
    r = rows[0]
    sched = multi["sched"]
    if len(sched) == 1:
        want_m = sched[0][1].upper()
    else:
        parts, old = [], 1970
        for y, m in sched:
            parts.append(f"{old}->{y}:{m.upper()}" if y - old > 1 else f"{y}:{m.upper()}")
            old = y
        want_m = ", ".join(parts)
    from harness import impl as _impl
    want = [want_m,
            "non-specified" if multi.get("from") is None else str(_impl.date_of_day(multi["from"])),
            "non-specified" if multi.get("to") is None else str(_impl.date_of_day(multi["to"]))]
    what = ["accounting method", "from-date filter", "to-date filter"]
    for k in range(3):
        val, f = cells.get((r + k, 1), (None, None))
        if f is not None or val != want[k]:
            v.append((f"legend: the {what[k]} cell ({r + k},1) holds {val!r} {f!r}, the run used {want[k]!r}", {"legend", "legend-stale"}))
    return v


REF_RE = re.compile(r"^='([^']*)'\.([A-Z])(\d+)$")


def cellmap(sheet):
    d = {}
    for r, c, t, v, f in sheet["cells"]:
        if isinstance(v, dict) and "float" in v:
            v = float.fromhex(v["float"])
        d[(r, c)] = (v, f)
    return d


def geometry(cells):
    """positions of the result cells, found through the template's own labels"""
    def find(text, col):
        hits = [r for (r, c), (v, f) in cells.items() if c == col and v == text]
        return hits[0] if len(hits) == 1 else None
    h = find("End Balance", 8)
    hs = find("Start Balance", 4)
    ha = find("Avg. Unit Price", 6)
    g = find("Net Income Amt", 8)
    if None in (h, hs, ha, g) or hs != h or ha != h:
        return None
    return {"open": [(h + 1, 4), (h + 2, 4)], "close": [(h + 1, 8), (h + 2, 8)], "avg": (h + 2, 6), "net": (g + 1, 8), "header": h}


def deref(f):
    m = REF_RE.match(f or "")
    if not m:
        return None
    return m.group(1), (int(m.group(3)) - 1, ord(m.group(2)) - 65)


def oracle(multi, res):
    """-> list of (text, tags) judging the .ods against the property text"""
    v = []
    pre = PREFIX[multi["lang"]]
    sheets = {}
    for s in res["sheets"]:
        if s["name"] in sheets:
            v.append((f"two sheets are named {s['name']}", {"sheets"}))
        sheets[s["name"]] = s
    want_calc, want_sum = {}, {}
    per_asset_years = {}
    for case in multi["assets"]:
        rows = expected_rows(multi, case)
        per_asset_years[case["asset"]] = sorted(rows)
        for y, rr in rows.items():
            want_calc[f"{pre}{case['asset']}_{y}"] = (case["asset"], y, rr)
            want_sum.setdefault(y, []).append(case["asset"])
    names = [n for n in sheets if n != pre + "Legend"]
    for n in want_calc:
        if n not in sheets:
            v.append((f"no calculation sheet {n} although the asset has transactions in that year", {"sheets", "missing-sheet"}))
    for y in want_sum:
        if f"{pre}{y}_Summary" not in sheets:
            v.append((f"no summary sheet for {y}", {"sheets", "missing-summary"}))
    for n in names:
        if n not in want_calc and n not in {f"{pre}{y}_Summary" for y in want_sum}:
            v.append((f"sheet {n} corresponds to no asset-year / year with transactions", {"sheets", "extra-sheet"}))
    geo = {}
    for n, (asset, y, rr) in want_calc.items():
        if n not in sheets:
            continue
        cells = cellmap(sheets[n])
        g = geometry(cells)
        geo[n] = (g, cells)
        if g is None:
            v.append((f"sheet {n}: result section not found under the template's labels", {"layout"}))
            continue
        # transaction rows: between the column header and the totals line, identified by a month number in column A
        first_formula = min([r for (r, c), (val, f) in cells.items() if r >= 20 and f is not None], default=10 ** 6)
        trows = sorted(r for (r, c), (val, f) in cells.items() if c == 0 and 20 <= r < first_formula and isinstance(val, float))
        got = []
        for r in trows:
            got.append(tuple(cells.get((r, c), (None, None))[0] for c in range(9)))
        key = lambda t: tuple("" if x is None else str(x) for x in t)  # noqa: E731
        if sorted(got, key=key) != sorted(rr, key=key):
            miss = [t for t in rr if t not in got]
            extra = [t for t in got if t not in rr]
            dup = [t for t in set(got) if got.count(t) > rr.count(t)]
            v.append((f"sheet {n}: transaction rows differ from the year's transactions: missing {miss[:2]}, unexpected {extra[:2]}, repeated {dup[:2]}",
                      {"rows"}))
        # opening balance
        earlier = [yy for yy in per_asset_years[asset] if yy < y]
        for k, pos in enumerate(g["open"]):
            val, f = cells.get(pos, (None, None))
            if not earlier:
                if f is not None or val != 0.0:
                    v.append((f"sheet {n}: first year of the asset, opening balance cell {pos} holds {val!r} {f!r} instead of 0", {"opening", "opening-not-zero"}))
                continue
            prev = f"{pre}{asset}_{max(earlier)}"
            d = deref(f)
            if d is None:
                v.append((f"sheet {n}: opening balance cell {pos} holds {val!r} {f!r}, expected a reference to {prev}", {"opening", "opening-chain"}))
                continue
            if d[0] not in sheets:
                v.append((f"sheet {n}: opening balance refers to sheet {d[0]!r}, which does not exist (most recent earlier year sheet is {prev})",
                          {"opening", "opening-chain", "dangling-reference"}))
                continue
            if d[0] != prev:
                v.append((f"sheet {n}: opening balance refers to {d[0]!r}, the most recent earlier year sheet of the asset is {prev}", {"opening", "opening-chain", "wrong-year"}))
                continue
            gp = geo.get(prev) or (geometry(cellmap(sheets[prev])), None)
            if gp[0] is None or d[1] != gp[0]["close"][k]:
                v.append((f"sheet {n}: opening balance refers to {f}, the closing-balance cell of {prev} is {gp[0]['close'][k] if gp[0] else None} (0-based row, col)",
                          {"opening", "opening-chain", "wrong-row"}))
    for y, assets in want_sum.items():
        n = f"{pre}{y}_Summary"
        if n not in sheets:
            continue
        cells = cellmap(sheets[n])
        lines = {}
        # asset lines: below the column header ("Asset" in column A), above the totals line (the =SUM(...) formulas)
        head = [r for (r, c), (val, f) in cells.items() if c == 0 and val == "Asset"]
        totals = min([r for (r, c), (val, f) in cells.items() if f is not None and f.startswith("=SUM(")], default=10 ** 6)
        if len(head) != 1:
            v.append((f"summary {n}: column header not found", {"layout"}))
            continue
        for (r, c), (val, f) in sorted(cells.items()):
            if c == 0 and head[0] < r < totals and isinstance(val, str) and val != "":
                lines.setdefault(val, []).append(r)
        if sorted(lines) != sorted(assets) or any(len(x) != 1 for x in lines.values()):
            v.append((f"summary {n}: lines for {dict(lines)}, assets with transactions in {y}: {sorted(assets)}", {"summary", "summary-lines"}))
        for a, rs in lines.items():
            tn = f"{pre}{a}_{y}"
            g = geo.get(tn, (None, None))[0]
            for r in rs:
                for col, what in ((3, "avg"), (4, "close0"), (5, "close1"), (6, "net")):
                    d = deref(cells.get((r, col), (None, None))[1])
                    tgt = None if g is None else (g["avg"] if what == "avg" else g["net"] if what == "net" else g["close"][int(what[-1])])
                    if d is None or d[0] != tn or d[1] != tgt:
                        v.append((f"summary {n} line {a} column {col}: {cells.get((r, col))} does not point at the result cell {tgt} of sheet {tn}", {"summary", "summary-reference"}))
                    elif geo[tn][1].get(tgt, (None, None))[1] is None:
                        v.append((f"summary {n} line {a} column {col}: target cell {tgt} of {tn} holds no formula", {"summary", "summary-reference"}))
    return v


# ----------------------------------------------------------------------------- case features
def features(multi):
    f = set()
    for case in multi["assets"]:
        yi = [hist.local_year(r["ts"]) for r in sorted(case["ins"], key=lambda r: r["ts"][0])]
        yo = [hist.local_year(r["ts"]) for r in sorted(case["outs"], key=lambda r: r["ts"][0])]
        yx = [hist.local_year(r["ts"]) for r in sorted(case["intras"], key=lambda r: r["ts"][0])]
        seen = list(dict.fromkeys(yi + yo + yx))
        if seen != sorted(seen):
            f.add("unordered")
        ys = sorted(set(seen))
        if any(b - a > 1 for a, b in zip(ys, ys[1:])):
            f.add("gap")
        if any(y not in yi and y in yo for y in ys):
            f.add("disposal-only-year")
        free = {hist.local_year(r["ts"]) for r in case["intras"] if r["crypto_sent"] == r["crypto_received"]}
        if any(y in free and y not in yi and y not in yo and all(hist.local_year(r["ts"]) != y or r["crypto_sent"] == r["crypto_received"] for r in case["intras"])
               for y in ys):
            f.add("feeless-transfer-only-year")
        if any(hist.local_year(r["ts"]) != hist.local_year([r["ts"][0], 0]) for r in case["ins"] + case["outs"] + case["intras"]):
            f.add("utc-year-differs")
        if len(ys) >= 2:
            f.add("multi-year")
        for r in case["intras"]:
            fee = r["crypto_sent"] - r["crypto_received"]
            if fee > 0 and hist.round_half_even_13(fee * (r.get("spot") or 0)) <= 0:
                f.add("dust-transfer-fee")
    if len(multi["assets"]) > 1:
        f.add("multi-asset")
    if multi.get("from") is not None and multi.get("to") is not None:
        f.add("from-and-to")
    elif multi.get("from") is not None or multi.get("to") is not None:
        f.add("window")
    return f


def fracs_of(res):
    return {a: [tuple(x) for x in d["all_fractions"]] for a, d in res.get("computed", {}).items()}


def extraction_cross_check(cases, results):
    """the two F5 witnesses are evaluated inside Coq by vm_compute (Proofs/JpRefuted.v: refuted_* with both flags off,
    repaired_* with both on); the extracted OCaml model must give the same sheets and opening-balance cells"""
    want = {
        "f5-unordered-years.json": {
            82: (["2019_Summary", "2021_Summary", "2020_Summary", "BTC_2019", "BTC_2021", "BTC_2020"],
                 [("BTC_2021", 30, 4, "='BTC_2020'.I32"), ("BTC_2020", 30, 4, "='BTC_2019'.I31"), ("BTC_2020", 30, 8, "=E31+F31-H31"), ("BTC_2019", 31, 8, "=E32+F32-H32")]),
            81: (["2019_Summary", "2020_Summary", "2021_Summary", "BTC_2019", "BTC_2020", "BTC_2021"],
                 [("BTC_2020", 30, 4, "='BTC_2019'.I32"), ("BTC_2021", 30, 4, "='BTC_2020'.I31")])},
        "f5-gap-year.json": {
            82: (["2019_Summary", "2021_Summary", "BTC_2019", "BTC_2021"], [("BTC_2021", 30, 4, "='BTC_2020'.I31")]),
            81: (["2019_Summary", "2021_Summary", "BTC_2019", "BTC_2021"], [("BTC_2021", 30, 4, "='BTC_2019'.I31")])},
    }
    out = []
    for (name, m), res in zip(cases, results):
        if name == "f14-dust-transfer-fee.json" and res.get("stage") in ("computed", "generated"):
            # Proofs/JpRefuted.v refuted_dust_fee_crash: guard on the yen value -> Err EValue; guard on the lost amount -> row 22 = 1e-11 units, 1e-19 yen
            r82, r81 = core.run_model([model_line(82, m, fracs_of(res)), model_line(81, m, fracs_of(res))])
            if r82 != [5]:
                out.append(f"{name}: extracted model cmd 82 answers {r82[:3]}, vm_compute in Coq gives Err EValue")
            sheets = l5.decode_report(r81, 1) if r81[0] == 0 else []
            cells = l5.final_cells(sheets[1]["writes"]) if len(sheets) == 2 else {}
            got = [cells.get((22, c)) for c in (6, 7)]
            if [s["name"] for s in sheets] != ["2019_Summary", "BTC_2019"] or not all(g and g[0] == "num" for g in got) \
                    or [l5.dec_of(g[1], g[2]) for g in got] != [Decimal("1e-11"), Decimal("1e-19")]:
                out.append(f"{name}: extracted model cmd 81 gives {[s['name'] for s in sheets]} / {got}, vm_compute in Coq gives row 22 = 1e-11 units, 1e-19 yen")
            continue
        if name not in want or res.get("stage") not in ("computed", "generated"):
            continue
        for cmd, (names, cells) in want[name].items():
            r = core.run_model([model_line(cmd, m, fracs_of(res))])[0]
            if r[0] != 0:
                out.append(f"{name}: extracted model cmd {cmd} answers {r[:1]}")
                continue
            sheets = l5.decode_report(r, 1)
            if [s["name"] for s in sheets] != names:
                out.append(f"{name}: extracted model cmd {cmd} gives sheets {[s['name'] for s in sheets]}, vm_compute in Coq gives {names}")
            for sn, row, col, f in cells:
                got = l5.final_cells(l5.sheet_by_name(sheets, sn)["writes"]).get((row, col)) if l5.sheet_by_name(sheets, sn) else None
                if got != ("formula", f):
                    out.append(f"{name}: extracted model cmd {cmd}, sheet {sn} cell ({row},{col}) = {got}, vm_compute in Coq gives {f}")
    return out


def load_corpus():
    out = []
    # corpus first (incl. the replays of the fixed defects F5 and F14)
    for p in sorted(glob.glob(os.path.join(CORPUS, "*.json"))):
        with open(p, encoding="utf-8") as f:
            out.append((os.path.basename(p), json.load(f)["case"]))
    return out


def run(tier, build, replay=None):
    out = core.Outcome("C20", tier)
    proofs = core.check_proofs(build, "C20.v")
    if replay:
        cases = [("replay", replay)]
    else:
        cases = load_corpus()
        rng = core.Rng(core.seed(), 20)
        n = 110 if tier == "quick" else 3200
        if not str(build.translator.get("jp_report", "")).startswith("translated"):
            n *= 2                      # source shape not recognised: the tie rests on the correspondence alone -> boosted stream
        cases += [(f"gen{k}", gen_case(rng, k)) for k in range(n)]
    results = l5.run_workers([{"multi": m, "generator": "tax_report_jp"} for _, m in cases])
    lines, idx = [], []
    for k, ((_, m), res) in enumerate(zip(cases, results)):
        if res.get("stage") in ("computed", "generated"):
            lines.append(model_line(84, m, fracs_of(res)))
            idx.append(k)
    mres = dict(zip(idx, core.run_model(lines))) if build.driver_ok else {}
    nontriv, mism, feats, errors, cells_compared = set(), 0, {}, {}, 0
    xcheck = extraction_cross_check(cases, results) if build.driver_ok and not replay else []
    for text in xcheck:
        out.violation(text, None, tags={"extraction"}, found_input=False)
    for k, ((name, m), res) in enumerate(zip(cases, results)):
        rep = m
        fs = features(m)
        for x in fs:
            feats[x] = feats.get(x, 0) + 1
        if "err" in res and res.get("stage") != "generated":
            errors[res["err"]] = errors.get(res["err"], 0) + 1
            if res.get("stage") != "computed":
                out.violation(f"{name}: the generated input was rejected before the report generator ran: {res['err']}: {res.get('msg')}", rep,
                              tags={"harness-invalid-input"}, found_input=False)
                continue
            if res["err"] == "RP2RuntimeError" and "from-and-to" in fs:
                pass                                            # F7: deliberate restriction, outside the property (C16)
            elif res["err"] == "ValueError" and "dust-transfer-fee" in fs and "invalid value: None" in res.get("msg", ""):
                out.violation(f"{name}: no report is written, the generator crashes ({res['err']}: {res.get('msg')}): a transfer that lost an amount worth "
                              "less than 5e-14 yen has a sold amount but no yen value, and the writer hands None to the spreadsheet library; "
                              "the year's transactions are listed nowhere", rep, tags={"dust-transfer-fee-crash", "generator-error"})
            else:
                out.violation(f"{name}: the report generator fails on a valid input: {res['err']}: {res.get('msg')}", rep, tags={"generator-error"})
        else:
            for text, tags in oracle(m, res) + legend_oracle(m, res):
                out.violation(f"{name}: {text}", rep, tags=tags)
            if fs & {"unordered", "gap", "disposal-only-year", "feeless-transfer-only-year"} and "multi-year" in fs:
                nontriv.add(core.case_hash(m))
            cells_compared += sum(len(s["cells"]) for s in res["sheets"])
        if k in mres:
            d = correspond(m, res, mres[k])
            if d:
                mism += 1
                out.violation(f"{name}: model and implementation disagree: " + " | ".join(d[:5]), rep, tags={"correspondence"}, found_input=False)
        elif build.driver_ok and res.get("stage") in ("computed", "generated"):
            out.violation(f"{name}: no model result", rep, tags={"correspondence"}, found_input=False)
    core.proofs_verdict(out, proofs, build, "C20.v")
    out.coverage.update({
        "evaluations": len(cases),
        "distinct_nontrivial": len(nontriv),
        "rule": "each evaluation = one tax_report_jp.ods generated in a fresh interpreter from a generated 1-4 asset input (languages en / kl alternate) and read back; "
                "compared cell by cell (static template cells included, Legend sheet included) with the report of the Coq model, and judged by an independent oracle against the property text "
                "(sheet per asset-year, every transaction once with its figures, summary lines dereferenced, opening-balance references dereferenced; legend method / date-filter cells); "
                "non-trivial = some asset spans several years that are unordered across the tables, have a gap, a disposal-only year or a year of fee-less transfers only",
        "samples": [cases[0][1]] if cases else [],
        "traces_validated_against_impl": len(mres),
        "correspondence_mismatches": mism,
        "cells_compared": cells_compared,
        "input_features": feats,
        "generator_errors": errors,
        "extraction_cross_check": "the F5 and F14 witnesses: extracted model (cmd 81 / 82) = vm_compute inside Coq (Proofs/JpRefuted.v): " + ("agree" if not xcheck else "DIFFER"),
        "source_flags": {"years_sorted / previous_existing_year / intra_yen_guard_on_crypto as read by the translator": build.translator.get("jp_report")},
    })
    out.assumptions = [
        "yen values are amount x spot price of the row (the writer ignores exchange-supplied fiat columns); income-typed acquisitions also show a sale of 0 units worth the acquisition; "
        "a donation shows '0 (￥value)'; a transfer that lost nothing on the way has no row (but its year has a sheet)",
        "both -f and -t given: the generator refuses by design (F7, property C16); only one of them: the sheets cover the visible transactions",
        "the Legend sheet (first sheet) is compared cell by cell with Model/JpLegend.v: template texts as labels (non-empty), the method string and the two date-filter cells exactly; "
        "its prose is not examined.  the schedule is one entry, fifo (the only method the JP country plugin accepts), keyed 1970 or -- every tenth case -- 2015",
    ]
    return out.finish(proofs, build)
