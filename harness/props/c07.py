"""C07 -- account balances equal the flows of each account and reconcile with unsold lots."""
import json
import os

from harness import core, hist, l2, l4, oracle
from harness.props.c09 import dates_monotone

CORPUS = os.path.join(core.VERIF, "corpus", "C07")


def corpus_runs():
    """corpus/C07/*.json (replays of repaired defects: {"case": {"case": history, "from": f, "to": t}}), run first on every
    check with exactly the stored window -> (jobs, impl, model, base cases, base impl), indices relative to the returned base"""
    reps = []
    if os.path.isdir(CORPUS):
        for f in sorted(os.listdir(CORPUS)):
            if f.endswith(".json"):
                with open(os.path.join(CORPUS, f), encoding="utf-8") as fh:
                    reps.append(json.load(fh)["case"])
    if not reps:
        return [], [], [], [], []
    cases = [r["case"] for r in reps]
    base_impl = core.pool_map(l2._impl_matcher, cases, init=core.impl_env_setup)
    impl = core.pool_map(l4._impl_win, [(r["case"], r.get("from"), r.get("to"), True) for r in reps], init=core.impl_env_setup)
    lines = []
    for r, b in zip(reps, base_impl):
        fr = [(x["ev"], x["lot"], x["amt"]) for x in b["ok"]["fractions"]] if "ok" in b else []
        lines.append(hist.line(30, l4.encode_input(r["case"], fr, r.get("from"), r.get("to"), True)))
    raw = core.run_model(lines)
    model = [l4.decode_computed(x, r["case"]) for x, r in zip(raw, reps)]
    jobs = [[k, r.get("from"), r.get("to")] for k, r in enumerate(reps)]
    return jobs, impl, model, cases, base_impl


def report_stage(out, tier, replay=None):
    """the 'Account Balances' table of rp2_full_report.ods (per-account lines and per-holder totals) is part of what the
    property speaks about: the reports generated for the C13/C19 checks (shared, cached run) are judged on that table"""
    from harness import l5full
    recs = l5full.judge_cases([replay]) if replay else l5full.run(tier)["records"]
    n = 0
    for rec in recs:
        if rec.get("c13") is None:
            continue
        n += 1
        for text, tags in rec["c13"]:
            if set(tags) & {"totals", "balances"}:
                out.violation("rp2_full_report.ods: " + text, rec["case"], tags=set(tags) | {"account-balances-table"})
                break
    return n


def run(tier, build, replay=None):
    out = core.Outcome("C07", tier)
    proofs = core.check_proofs(build, "C07.v")
    if replay and "assets" in replay:           # replay of a full-report case of the report stage
        n = report_stage(out, tier, replay)
        core.proofs_verdict(out, proofs, build, "C07.v")
        out.coverage.update({"evaluations": n, "distinct_nontrivial": n, "rule": "replay of a full-report case"})
        return out.finish(proofs, build)
    if replay:
        core.impl_env_setup()
        c, f, t = replay["case"], replay.get("from"), replay.get("to")
        b = hist.impl_compute(c)
        i = hist.impl_compute(c, from_day=f, to_day=t)
        raw = core.run_model([l4.model_line(c, b, f, t, True, i)])
        data = {"jobs": [[0, f, t]], "impl": [i], "model": [l4.decode_computed(raw[0], c)], "base": {"cases": [c], "impl": [b]}}
    else:
        gen = l4.run(tier)
        cj, ci, cm, cc, cb = corpus_runs()
        n0 = len(cc)
        data = {"jobs": cj + [[idx + n0, f, t] for idx, f, t in gen["jobs"]], "impl": ci + gen["impl"], "model": cm + gen["model"],
                "base": {"cases": cc + gen["base"]["cases"], "impl": cb + gen["base"]["impl"]}}
    base = data["base"]
    nontriv, mism = set(), 0
    for (idx, f, t), i, m in zip(data["jobs"], data["impl"], data["model"]):
        c = base["cases"][idx]
        rep = {"case": c, "from": f, "to": t}
        if "ok" not in i:
            continue
        mono = dates_monotone(c)
        tags = set() if mono or t is None else {"non-monotone-local-dates"}       # F9 concerns the to-date cut only
        want = oracle.flows(c, t, by_date=True)
        got = {}
        for ex, ho, fin, acq, sent, recv in i["ok"]["balances"]:
            k = (c["exchanges"].index(ex), c["holders"].index(ho))
            if k in got:
                out.violation(f"account {ex}/{ho} appears twice in the balance table", rep, tags={"balances"})
            got[k] = [fin, acq, sent, recv]
            if fin != acq + recv - sent:
                out.violation(f"account {ex}/{ho}: final {fin} != acquired {acq} + received {recv} - sent {sent}", rep, tags={"balances"})
        for k, w in want.items():
            if k not in got:
                out.violation(f"account {k} is touched by a transaction up to the to-date but missing from the balance table", rep, tags=tags | {"balances"})
            elif got[k] != w:
                out.violation(f"account {k}: reported [final, acquired, sent, received] = {got[k]}, flows of its transactions are {w}", rep,
                              tags=tags | {"balances"})
        for k in got:
            if k not in want:
                out.violation(f"account {k} is reported but no transaction up to the to-date touches it", rep, tags=tags | {"balances"})
        names = [f"{ex}_{ho}" for ex, ho, *_ in i["ok"]["balances"]]
        if names != sorted(names):
            out.violation("balance table is not sorted by account", rep, tags={"balance-order"})
        # reconciliation with unsold lots (whole history)
        if t is None:
            total_final = sum(v[0] for v in got.values())
            fr = base["impl"][idx]["ok"]["fractions"]
            left = sum(r["crypto_in"] for r in c["ins"]) - sum(x["amt"] for x in fr if x["lot"] is not None)
            consistent = all(r.get("crypto_out_with_fee") in (None, r["crypto_out_no_fee"] + r["crypto_fee"]) for r in c["outs"])
            if total_final != left and consistent:
                evs = hist.taxable_oracle(c)
                # informational tag only (the shape of the repaired finding F8): no known: line matches it any more
                dust = sum(e["amt"] for e in evs if e["cls"] == 2 and hist.is_dust_fee(e))
                tg = {"dust-transfer-fee"} if dust and left - total_final == dust else set()
                out.violation(f"sum of final balances {total_final} != amount left unconsumed in lots {left}", rep, tags=tg | {"reconciliation"})
        if len(got) >= 2 and c["intras"]:
            nontriv.add(core.case_hash(rep))
        if "err" in m or i["ok"]["balances"] != m["balances"] or i["ok"]["price_per_unit"] != m["price_per_unit"]:
            mism += 1
            out.violation(f"model and implementation disagree on balances: {str(i['ok']['balances'])[:200]} / {str(m.get('balances'))[:200]}",
                          rep, tags={"correspondence"}, found_input=False)
    n_reports = report_stage(out, tier) if not replay else 0
    out.coverage["full_reports_judged_on_the_balances_table"] = n_reports
    core.proofs_verdict(out, proofs, build, "C07.v")
    out.coverage.update({
        "evaluations": len(data["jobs"]),
        "distinct_nontrivial": len(nontriv),
        "rule": "corpus/C07 replays first (stored window), then generated histories over 1-3 exchanges x 1-3 holders with transfers (also to self, "
                "also with fees worth less than 5e-14), windows none/from/to/both; balance table compared with "
                "flows recomputed from the raw rows, with the lots' unconsumed remainder (whole-history runs) and with the Coq model; non-trivial = "
                ">= 2 accounts and at least one transfer",
        "samples": [{"case": base["cases"][data["jobs"][0][0]], "from": data["jobs"][0][1], "to": data["jobs"][0][2]}] if data["jobs"] else [],
        "traces_validated_against_impl": len(data["jobs"]),
        "correspondence_mismatches": mism,
        "end_to_end_stream": hist.ods_stats(base["cases"]),
    })
    out.assumptions = ["reconciliation assumes a supplied crypto_out_with_fee equal to amount + fee; nothing is assumed about small transfer fees "
                       "(finding F8 is repaired; its replay corpus/C07/f8-dust-transfer-fee.json runs first, whole history)",
                       "to-date cut assumes local dates monotone in time (finding F9)"]
    return out.finish(proofs, build)
