"""C14 -- the US / IE tax report lists every gain/loss fraction of the window exactly once, on the sheet
of its transaction type, with the computed figures; empty sheets are omitted; nothing is lost or
overwritten when several assets share a sheet.

Three independent judgements per generated report:
  1. correspondence: the .ods produced by the real plugin vs the report of the Coq model
     (Model/TaxReport.v fed with the implementation's own fractions), sheet by sheet, cell by cell,
     capacity included;
  2. oracle: the .ods vs the property text directly (this module; knows nothing of the model): multiset of
     data rows per sheet == multiset of the window's fractions routed by the property's own type -> sheet list;
  3. the theorems of Properties/C14.v re-checked against the regenerated tables.
"""
import glob
import json
import os
from collections import Counter
from decimal import Decimal

from harness import core, hist, l5

GEN = {"us": "tax_report_us", "ie": "tax_report_ie"}
CMD = {"us": 60, "ie": 61}
CORPUS = os.path.join(core.VERIF, "corpus", "C14")

# the property text: "sales on Capital Gains, gifts on Gifts, donations on Donations, fee/lost/transfer fees on
# Investment Expenses, each income type on its own sheet"
SHEET_OF = {"SELL": "Capital Gains", "GIFT": "Gifts", "DONATE": "Donations", "FEE": "Investment Expenses",
            "LOST": "Investment Expenses", "MOVE": "Investment Expenses", "AIRDROP": "Airdrops", "HARDFORK": "Hard Forks",
            "INCOME": "Income", "INTEREST": "Interest", "MINING": "Mining", "STAKING": "Staking", "WAGES": "Wages"}
# form-8949 layout of the shipped templates: (a) description = amount + asset, (b) date acquired, (c) date sold,
# (d) proceeds, (e) cost basis, (h) gain, then the additional-information block
COL = {"amount": 0, "asset": 1, "acquired": 2, "sold": 3, "proceeds": 4, "cost": 5, "gain": 8, "term": 14, "ts": 15}
OUT_RETYPE = ["SELL", "GIFT", "DONATE", "LOST", "STAKING"]


# ----------------------------------------------------------------------------- generation
def diversify(rng, multi):
    """hist.gen_history makes 60 % of the disposals SELL; spread the other disposal types (any non-FEE
    out type is valid with the same amounts) so that sheets are shared and all types occur"""
    for c in multi["assets"]:
        for r in c["outs"]:
            if r["type"] != "FEE" and rng.chance(45):
                r["type"] = rng.choice(OUT_RETYPE)
    return multi


def big_case(rng, country):
    """far more rows on one sheet than the template has (102): exercises append_rows and the row counter shared by
    two assets; n is large enough that a sheet sized with fewer rows than fractions, or a row counter advancing by
    more than one, runs out of rows"""
    def asset(name, n, t0, ty):
        ins = [{"row": 3, "ts": [t0, 0], "exch": 0, "holder": 0, "type": "BUY", "spot": 10 * hist.U, "crypto_in": (n + 5) * hist.U}]
        outs = [{"row": 7 + k, "ts": [t0 + (k + 1) * hist.DAY, 0], "exch": 0, "holder": 0, "type": ty, "spot": 20 * hist.U,
                 "crypto_out_no_fee": hist.U, "crypto_fee": 0} for k in range(n)]
        return {"asset": name, "exchanges": ["E0"], "holders": ["H0"], "ins": ins, "outs": outs, "intras": []}
    n = rng.range(150, 230)
    ty = rng.choice(["SELL", "FEE2", "GIFT", "DONATE"])
    a = asset("BIG", n, hist.day_us(2015, 1, 1), "SELL" if ty == "FEE2" else ty)
    b = asset("AAA", rng.range(1, 9), hist.day_us(2019, 6, 1), "SELL" if ty == "FEE2" else ty)
    if ty == "FEE2":     # Investment Expenses: several types share one sheet
        for c in (a, b):
            for k, r in enumerate(c["outs"]):
                if k % 3 == 0:
                    r.update(type="FEE", crypto_out_no_fee=0, crypto_fee=hist.U)
                else:
                    r["type"] = "LOST"
    return {"country": country, "lang": l5.LANGS[country][0], "env": None, "sched": [[1970, "fifo"]], "from": None, "to": None,
            "allow_neg": False, "exchanges": ["E0"], "holders": ["H0"], "assets": [a, b]}


def gen_cases(tier, rng, boost=1):
    n = (150 if tier == "quick" else 10000) * boost
    cases = []
    for k in range(n):
        country = "ie" if k % 3 == 2 else "us"
        big = (k % 80 in (5, 45))           # quick: two us, two ie
        if big:
            m = big_case(rng, country)
        else:
            m = l5.gen_multi(rng, country=country, n_assets=rng.choice([1, 2, 2, 3, 3, 4]), n_max=rng.choice([6, 10, 14]),
                             window=True, earn_pct=rng.choice([25, 45, 70]))
            diversify(rng, m)
            if k % 25 == 7:            # a window that hides everything
                m["from"], m["to"] = 25000, None
            if k % 25 == 8:
                m["from"], m["to"] = None, 10
            if k % 10 == 3 and len(m["sched"]) == 1:       # one-entry schedule not keyed 1970 (legend method taken by value; F10 repaired)
                m["sched"][0][0] = 2015
        cases.append({"multi": m, "generator": GEN[country]})
    return cases


# ----------------------------------------------------------------------------- oracle (property text)
_header_cache = {}


def template_header_height(country):
    """rows occupied by the shipped template's own header on each sheet (the data rows come after)"""
    if country not in _header_cache:
        import ezodf
        pat = os.path.join(core.REPO, "src", "rp2", "plugin", "report", "data", country, f"template_tax_report_{country}_*.ods")
        doc = ezodf.opendoc(sorted(glob.glob(pat))[0])
        h = {}
        for sh in doc.sheets:
            last = -1
            for r in range(sh.nrows()):
                for c in range(sh.ncols()):
                    if sh[r, c].value not in (None, "") or sh[r, c].formula is not None:
                        last = r
            h[sh.name[2:] if sh.name.startswith("__") else sh.name] = last + 1
        _header_cache[country] = h
    return _header_cache[country]


def cell_value(c):
    v = c[3]
    if isinstance(v, dict) and "float" in v:
        return float.fromhex(v["float"])
    return v


def parse_date(s):
    """'mm/dd/yyyy' (us) or 'yyyy/mm/dd' (ie) -> (y, m, d)"""
    try:
        p = [int(x) for x in str(s).split("/")]
    except ValueError:
        return ("unparsable", s)
    if len(p) != 3:
        return ("unparsable", s)
    return (p[0], p[1], p[2]) if len(str(s).split("/")[0]) == 4 else (p[2], p[0], p[1])


def ymd(ts):
    from harness import impl
    d = impl.date_of_day(hist.local_day(ts))
    return (d.year, d.month, d.day)


def fl(pair):
    return float(Decimal(pair[0]).scaleb(pair[1]))


def expected_rows(multi, computed):
    """sheet -> Counter of row tuples, from the ComputedData dump (window fractions with their computed figures)
    and the input rows (type, timestamps)"""
    want = {}
    for case in multi["assets"]:
        a = case["asset"]
        ev = {}
        for r in case["ins"]:
            ev[r["row"]] = (r["type"], r["ts"])
        for r in case["outs"]:
            ev[r["row"]] = (r["type"], r["ts"])
        for r in case["intras"]:
            ev[r["row"]] = ("MOVE", r["ts"])
        lots = {r["row"]: r["ts"] for r in case["ins"]}
        for f in computed[a]["fractions"]:
            ty, ts = ev[f["ev"]]
            has_lot = f["lot"] is not None
            row = (a, float(Decimal(f["amt"]).scaleb(-11)), ymd(lots[f["lot"]]) if has_lot else None, ymd(ts), fl(f["proceeds"]),
                   fl(f["cost"]) if has_lot else None, fl(f["gain"]), "LONG" if f["long"] else "SHORT", l5.render_ts(*ts))
            want.setdefault(SHEET_OF.get(ty, f"<no sheet for {ty}>"), Counter())[row] += 1
    return want


def found_rows(country, sheets):
    """sheet -> Counter of row tuples read from the .ods (every non-empty row below the template header)"""
    heights = template_header_height(country)
    got, problems = {}, []
    for sh in sheets:
        if sh["name"] == "Legend":
            continue
        h = heights.get(sh["name"])
        if h is None:
            problems.append(f"sheet {sh['name']!r} does not come from the template")
            continue
        rows = {}
        for c in sh["cells"]:
            if c[0] >= h:
                rows.setdefault(c[0], {})[c[1]] = cell_value(c)
        cnt = Counter()
        for r, cells in sorted(rows.items()):
            g = lambda k: cells.get(COL[k])  # noqa: E731
            acq = g("acquired")
            cnt[(g("asset"), g("amount"), parse_date(acq) if acq not in (None, "") else None, parse_date(g("sold")), g("proceeds"),
                 g("cost") if g("cost") not in (None, "") else None, g("gain"), g("term"), g("ts"))] += 1
        got[sh["name"]] = cnt
    return got, problems


def oracle(multi, res):
    """-> list of (text, tags)"""
    bad = []
    want = expected_rows(multi, res["computed"])
    if res.get("stage") != "generated":
        types = sorted({t for t, n in ((k, sum(v.values())) for k, v in want.items()) if n})
        bad.append((f"the report is not produced for a valid input: {res.get('err')}: {res.get('msg')} (fractions expected on {types})",
                    {"no-report", f"error-{res.get('err')}"}))
        return bad
    got, problems = found_rows(multi["country"], res["sheets"])
    bad += [(p, {"sheets"}) for p in problems]
    names = [s["name"] for s in res["sheets"]]
    if len(set(names)) != len(names):
        bad.append((f"sheet names repeat: {names}", {"sheets"}))
    for sheet in sorted(set(want) | set(got)):
        w, g = want.get(sheet, Counter()), got.get(sheet)
        if g is None:
            if sum(w.values()):
                bad.append((f"{sum(w.values())} fraction(s) belong on sheet {sheet!r} but the report has no such sheet; first: {next(iter(w))}",
                            {"missing-sheet"}))
            continue
        if not sum(w.values()):
            if sum(g.values()):
                bad.append((f"sheet {sheet!r} lists {sum(g.values())} row(s) but no fraction of the window has its type; first: {next(iter(g))}",
                            {"wrong-sheet"}))
            else:
                bad.append((f"sheet {sheet!r} has no rows but is present", {"empty-sheet-kept"}))
            continue
        if not sum(g.values()):
            bad.append((f"sheet {sheet!r} has no rows but is present", {"empty-sheet-kept"}))
        missing, extra = w - g, g - w
        if missing or extra:
            m1 = next(iter(missing)) if missing else None
            e1 = next(iter(extra)) if extra else None
            bad.append((f"sheet {sheet!r}: {sum(missing.values())} fraction(s) of the window not listed with their computed figures (first: {m1}), "
                        f"{sum(extra.values())} row(s) that are no fraction of the window or are duplicates (first: {e1}); "
                        f"{sum(g.values())} rows listed, {sum(w.values())} fractions expected", {"rows"}))
    return bad


# ----------------------------------------------------------------------------- correspondence
def model_line(job, res):
    m = job["multi"]
    fr = {a: [(x[0], x[1], x[2]) for x in d["all_fractions"]] for a, d in res["computed"].items()}
    return hist.line(CMD[m["country"]], l5.encode_rinput(m, fr))


def correspond(job, res, raw):
    """-> list of texts (empty = model and implementation agree)"""
    if raw[0] != 0:
        if res.get("stage") == "generated":
            return [f"model fails with error {raw[0]} but the implementation produced a report"]
        if res.get("err") in ("KeyError", "IndexError") and raw[0] == 9:
            return []
        return [f"model error {raw[0]}, implementation {res.get('err')}: {res.get('msg')}"]
    if res.get("stage") != "generated":
        return [f"implementation fails ({res.get('err')}: {res.get('msg')}) but the model produces a report"]
    ms = l5.decode_report(raw, 1)
    out = []
    if [s["name"] for s in ms] != [s["name"] for s in res["sheets"]]:
        out.append(f"sheets: model {[s['name'] for s in ms]}, implementation {[s['name'] for s in res['sheets']]}")
    for s in ms:
        o = l5.sheet_by_name(res["sheets"], s["name"])
        if o is None:
            continue
        if (s["rows"], s["cols"]) != (o["nrows"], o["ncols"]):
            out.append(f"sheet {s['name']!r}: capacity model {s['rows']} x {s['cols']}, implementation {o['nrows']} x {o['ncols']}")
        for r, c, txt in l5.compare_sheet(s, o, check_extra=True)[:4]:
            out.append(f"sheet {s['name']!r} cell ({r}, {c}): {txt}")
    return out


def load_corpus():
    out = []
    for p in sorted(glob.glob(os.path.join(CORPUS, "*.json"))):
        with open(p, encoding="utf-8") as f:
            out.append(json.load(f)["case"])
    return out


def run(tier, build, replay=None):
    out = core.Outcome("C14", tier)
    proofs = core.check_proofs(build, "C14.v")
    fallback = not str(build.translator.get("tax_report", "")).startswith("translated")
    if replay:
        jobs = [replay]
    else:       # fragment not recognised: the model runs on the accepted tables, so the comparison alone carries the tie -> twice the cases (quick)
        jobs = load_corpus() + gen_cases(tier, core.Rng(core.seed(), 1400), boost=2 if (fallback and tier == "quick") else 1)
    results = l5.run_workers(jobs)
    valid = [(j, r) for j, r in zip(jobs, results) if "computed" in r]
    invalid = len(jobs) - len(valid)
    raws = core.run_model([model_line(j, r) for j, r in valid]) if build.driver_ok else [[-998]] * len(valid)
    nontriv, mism = set(), 0
    dist = {"us": 0, "ie": 0, "assets": Counter(), "window": Counter(), "methods": Counter(), "types": Counter(), "rows": 0,
            "shared_sheet_reports": 0, "max_rows_on_a_sheet": 0, "reports_without_rows": 0}
    for (job, res), raw in zip(valid, raws):
        m = job["multi"]
        dist[m["country"]] += 1
        dist["assets"][len(m["assets"])] += 1
        dist["window"]["none" if m["from"] is None and m["to"] is None else "from" if m["to"] is None else "to" if m["from"] is None else "both"] += 1
        for _, meth in m["sched"]:
            dist["methods"][meth] += 1
        want = expected_rows(m, res["computed"])
        per_sheet_assets = {s: {row[0] for row in c} for s, c in want.items()}
        nrows = sum(sum(c.values()) for c in want.values())
        dist["rows"] += nrows
        dist["reports_without_rows"] += 1 if nrows == 0 else 0
        dist["max_rows_on_a_sheet"] = max([dist["max_rows_on_a_sheet"]] + [sum(c.values()) for c in want.values()])
        for case in m["assets"]:
            for r in case["ins"] + case["outs"]:
                dist["types"][r["type"]] += 1
            dist["types"]["MOVE"] += len(case["intras"])
        shared = any(len(a) >= 2 for a in per_sheet_assets.values())
        dist["shared_sheet_reports"] += 1 if shared else 0
        if shared or len([1 for c in want.values() if sum(c.values())]) >= 3:
            nontriv.add(core.case_hash(job))
        for text, tags in oracle(m, res):
            out.violation(text, job, tags=set(tags) | {f"country-{m['country']}"})
        diffs = correspond(job, res, raw)
        if diffs:
            mism += 1
            out.violation("model and implementation disagree on the tax report: " + " | ".join(diffs[:6]), job,
                          tags={"correspondence"}, found_input=False)
    if not proofs.ok and build.failed:
        proofs.log += "\nfiles that did not compile: " + ", ".join(build.failed) + "\n" + core._errors_of(build.make_log)[-1500:]
    core.proofs_verdict(out, proofs, build, "C14.v")
    for k in ("assets", "window", "methods", "types"):
        dist[k] = dict(sorted((str(a), b) for a, b in dist[k].items()))
    out.coverage.update({
        "evaluations": len(valid),
        "distinct_nontrivial": len(nontriv),
        "rule": "multi-asset inputs (1-4 assets over shared exchanges/holders, all 14 transaction types over the run, windows none/from/to/both incl. empty, "
                "us with single methods and multi-year schedules, ie fifo, two 150+ row sheets per 80 cases) -> one report per fresh interpreter through "
                "the real plugin; the .ods is compared cell by cell with the Coq model and judged against the property text by an independent oracle; "
                "non-trivial = two assets share a sheet or at least three sheets carry rows",
        "samples": [valid[0][0]] if valid else [],
        "traces_validated_against_impl": len(valid),
        "correspondence_mismatches": mism,
        "inputs_rejected_before_the_report": invalid,
        "distribution": dist,
        "translator_fallback_tax_report": fallback,
    })
    out.assumptions = [
        "the fractions of the window and their figures are taken from the implementation's own ComputedData (C01-C10 cover them); C14 is about the report layer",
        "unique-id cells (columns 11, 13) are empty in every generated input: transactions are constructed without unique ids",
        "cell styles and the translated header / legend prose are not compared (only that the cells are non-empty)",
    ]
    return out.finish(proofs, build)
