"""C19 -- hyperlinks in the full report lead to the row of the same transaction."""
from harness import core, full_oracle, l5full


def judge(multi, res):
    """-> (violations [(text, tags)], links dereferenced, hidden subjects) or None when no report can be judged"""
    if res.get("err"):
        if res.get("stage") == "computed" and res["err"] == "KeyError" and "_AssetAndYear" in res.get("msg", ""):
            return ([(f"building the link of a Summary line raised KeyError {res.get('msg', '')[:120]}: the year has a summary line but none of its "
                      "gain/loss rows is shown (from-date inside the year); no report is written", {"summary-link-keyerror"})], 0, 0)
        return None
    return full_oracle.check_c19(multi, res)


def collisions(multi):
    """row ids used by more than one asset"""
    seen, n = {}, 0
    for c in multi["assets"]:
        for r in {x["row"] for x in c["ins"] + c["outs"] + c["intras"]}:
            n += 1 if r in seen else 0
            seen[r] = True
    return n


def run(tier, build, replay=None):
    out = core.Outcome("C19", tier)
    proofs = core.check_proofs(build, "C19.v")
    if replay:
        cases = [replay]
        impl, model = l5full.run_cases(cases)
    else:
        data = l5full.run(tier)
        cases, impl, model = data["cases"], data["impl"], data["model"]
    nontriv, mism, judged, links, hidden, colliding = set(), 0, 0, 0, 0, 0
    for multi, res, raw in zip(cases, impl, model):
        v = judge(multi, res)
        if v is None:
            continue
        viol, nl, nh = v
        judged += 1
        links += nl
        hidden += nh
        col = collisions(multi)
        colliding += 1 if col else 0
        shrunk = None
        for text, tags in viol[:3]:
            if shrunk is None:
                shrunk = l5full.shrink(multi, lambda m, r, tg=tags: any(tg <= t2 for _, t2 in ((judge(m, r) or ([], 0, 0))[0])))
            out.violation(text, shrunk, tags=tags)
        if nl >= 2 and (nh >= 1 or col):
            nontriv.add(core.case_hash(multi))
        if not res.get("err") or res.get("err") == "KeyError":
            diff = l5full.correspondence(multi, res, raw)
            if diff:
                mism += 1
                out.violation("model and implementation disagree on the report: " + "; ".join(diff[:4]), multi, tags={"correspondence"}, found_input=False)
    core.proofs_verdict(out, proofs, build, "C19.v")
    out.coverage.update({
        "evaluations": judged,
        "distinct_nontrivial": len(nontriv),
        "rule": "every HYPERLINK formula of the Tax and Summary sheets of each generated report is parsed and dereferenced in the same file: the target row "
                "must describe the very transaction the fraction was computed from (timestamp, type, amounts, exchange/holder, unique id, and no second "
                "row doing so) / be the first gain-loss row of that year; a subject hidden by the date filter must carry no link; the same files are "
                "compared cell by cell with the Coq model (which carries the row map across assets as the code does); non-trivial = at least two links "
                "dereferenced and (row ids shared between assets or a subject hidden by the window)",
        "samples": cases[:1],
        "traces_validated_against_impl": judged,
        "links_dereferenced": links,
        "hidden_subjects_checked_unlinked": hidden,
        "cases_with_row_ids_shared_between_assets": colliding,
        "correspondence_mismatches": mism,
    })
    out.assumptions = [
        "theorems are about the Coq model of the generator; that the file holds the modelled formulas rests on the cell-by-cell comparison",
        "row ids are distinct within one asset (the input parser numbers rows per sheet; artificial fee transactions get fresh negative ids)",
        "'first gain/loss row of the year' is claimed for histories whose local dates are monotone in time (finding F9)",
    ]
    return out.finish(proofs, build)
