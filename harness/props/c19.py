"""C19 -- hyperlinks in the full report lead to the row of the same transaction."""
from harness import core, full_oracle, l5full


def run(tier, build, replay=None):
    out = core.Outcome("C19", tier)
    proofs = core.check_proofs(build, "C19.v")
    recs = l5full.judge_cases([replay]) if replay else l5full.run(tier)["records"]
    nontriv, mism, judged, links, hidden, colliding = set(), 0, 0, 0, 0, 0
    for rec in recs:
        multi = rec["case"]
        if rec["c19"] is None:
            continue
        viol, nl, nh = rec["c19"]
        judged += 1
        links += nl
        hidden += nh
        col = rec["stats"]["collisions"]
        colliding += 1 if col else 0
        shrunk = None
        for text, tags in viol[:3]:
            tags = set(tags)
            if shrunk is None:
                shrunk = l5full.shrink(multi, lambda m, r, tg=tags: any(tg <= t2 for _, t2 in ((full_oracle.judge_c19(m, r) or ([], 0, 0))[0])))
            out.violation(text, shrunk, tags=tags)
        if nl >= 2 and (nh >= 1 or col):
            nontriv.add(core.case_hash(multi))
        if rec["corr_links"]:
            mism += 1
            out.violation("model and implementation disagree on the hyperlinks of the report: " + "; ".join(rec["corr_links"][:4]), multi,
                          tags={"correspondence"}, found_input=False)
    l5full.proofs_verdict(out, proofs, build, "C19.v")
    out.coverage.update({
        "evaluations": judged,
        "distinct_nontrivial": len(nontriv),
        "rule": "every HYPERLINK formula of the Tax and Summary sheets of each generated report is parsed and dereferenced in the same file: the target row "
                "must describe the very transaction the fraction was computed from (timestamp, type, amounts, exchange/holder, unique id, and no second "
                "row doing so) / be the first gain-loss row of that year; a subject hidden by the date filter must carry no link; which cells are links and "
                "where they lead is compared with the Coq model (which carries the row map across assets exactly as the source does); non-trivial = at "
                "least two links dereferenced and (row ids shared between assets or a subject hidden by the window)",
        "samples": [r["case"] for r in recs[:1]],
        "traces_validated_against_impl": judged,
        "links_dereferenced": links,
        "hidden_subjects_checked_unlinked": hidden,
        "cases_with_row_ids_shared_between_assets": colliding,
        "correspondence_mismatches": mism,
    })
    out.assumptions = [
        "theorems are about the Coq model of the generator; that the file holds the modelled formulas rests on the comparison of every link cell",
        "row ids are distinct within one asset (the input parser numbers rows per sheet; artificial fee transactions get fresh negative ids)",
        "'first gain/loss row of the year' is claimed for histories whose local dates are monotone in time (finding F9)",
    ]
    return out.finish(proofs, build)
