"""C16 -- every supported option combination runs to completion on every valid input.

Matrix: country x {default, every accepted -m} x {default, every shipped -g} x {none, from, to, both}
x generated valid inputs (shapes: plain, sparse years, fully sold, income only, multi holder, transfers),
plus schedule variants through [accounting_methods], plus a small stream of unsupported combinations
(for the correspondence of the control-flow model only).  Every run is a real subprocess of the
country's rp2_entry.  Oracle (property text): exit status 0 and every configured report present,
non-empty and readable.  Correspondence: exit status and file list = Model/MainRun.run."""
from datetime import date

from harness import core, l6

MAXDAY = 2932896
GEN_FILES = {0: "open_positions.ods", 1: "rp2_full_report.ods", 2: "tax_report_us.ods", 3: "tax_report_jp.ods", 4: "tax_report_ie.ods"}


def enc_str(s):
    return [len(s)] + [ord(ch) for ch in s]


def enc_opt(s):
    return [0, 0] if s is None else [1] + enc_str(s)


def facts_of_job(job):
    """[asset_facts] of the model, computed from the generated history (independent of rp2)"""
    o = job["opts"]
    frm = date.fromisoformat(o["from"]) if o.get("from") else None
    to = date.fromisoformat(o["to"]) if o.get("to") else None
    lo, hi = frm or date(1970, 1, 1), to or date(9999, 12, 31)
    configured = job.get("cfg_assets") or [a["asset"] for a in job["inp"]["assets"]]
    facts = []
    for a in job["inp"]["assets"]:
        types = set()
        for r in a["ins"]:
            if r["type"] in l6.EARN and lo <= l6.local_date(r["ts"]) <= hi:
                types.add(r["type"])
        for r in a["outs"]:
            if lo <= l6.local_date(r["ts"]) <= hi:
                types.add(r["type"])
        for r in a["intras"]:
            if r["crypto_sent"] != r["crypto_received"] and lo <= l6.local_date(r["ts"]) <= hi:
                types.add("MOVE")
        facts.append({"name": a["asset"], "present": a["asset"] in configured and not job.get("missing_sheet") == a["asset"],
                      "negative": l6.negative_balance(a),
                      "types": sorted(types), "hidden": l6.hidden_summary_year(a, frm, to), "holders": l6.holders_with_balance(a, to)})
    return facts


def model_line(job, cmd=90, extra=()):
    from harness import hist
    o = job["opts"]
    a = [l6.CCODE[job["country"]]]
    a += enc_opt(o.get("method")) + enc_opt(o.get("lang"))
    a += [l6.day_of(date.fromisoformat(o["from"])) if o.get("from") else 0,
          l6.day_of(date.fromisoformat(o["to"])) if o.get("to") else MAXDAY]
    a += enc_opt(o.get("asset")) + [1 if o.get("neg") else 0] + enc_str(o.get("prefix") or "") + [1 if o.get("plugin") else 0]
    assets = job.get("cfg_assets") or [x["asset"] for x in job["inp"]["assets"]]
    a.append(len(assets))
    for s in assets:
        a += enc_str(s)
    sched = job.get("sched") or []
    a.append(len(sched))
    for y, m in sched:
        a += [y] + enc_str(m)
    facts = facts_of_job(job)
    a.append(len(facts))
    for f in facts:
        a += enc_str(f["name"]) + [1 if f["present"] else 0, 1 if f["negative"] else 0, len(f["types"])]
        a += [hist.TCODE[t] for t in f["types"]]
        a += [1 if f["hidden"] else 0, f["holders"]]
    a += list(extra)
    return str(cmd) + " " + " ".join(map(str, a))


def dec_strs(res, i):
    n = res[i]
    i += 1
    out = []
    for _ in range(n):
        ln = res[i]
        out.append("".join(chr(x) for x in res[i + 1:i + 1 + ln]))
        i += 1 + ln
    return out, i


def decode_run(res):
    files, _ = dec_strs(res, 1)
    return res[0], files


def model_matrix(build):
    """per country: accepted -m choices, shipped languages, generators in discovery order, defaults (from the model)"""
    out = {}
    res = core.run_model([f"93 {l6.CCODE[c]}" for c in l6.COUNTRIES])
    for c, r in zip(l6.COUNTRIES, res):
        meths, i = dec_strs(r, 0)
        langs, i = dec_strs(r, i)
        n = r[i]
        gens = r[i + 1:i + 1 + n]
        i += 1 + n
        ln = r[i]
        dlang = "".join(chr(x) for x in r[i + 1:i + 1 + ln])
        i += 1 + ln
        ln = r[i]
        dmeth = "".join(chr(x) for x in r[i + 1:i + 1 + ln])
        out[c] = {"methods": meths, "langs": langs, "gens": list(gens), "default_lang": dlang, "default_method": dmeth}
    return out


def live_matrix():
    """the same facts asked from the live country objects and the data directory (subprocess: no import of rp2 here)"""
    import json
    import os
    import subprocess
    import tempfile
    code = r'''
import json, os, sys, importlib, pkgutil
out = {}
os.environ.setdefault("CURRENCY_CODE", "usd"); os.environ.setdefault("LONG_TERM_CAPITAL_GAINS", "365")
import rp2.plugin.report as rep
data = os.path.join(os.path.dirname(rep.__file__), "data")
import rp2, gettext
loc = os.path.join(os.path.dirname(rp2.__file__), "locales")
for c, cls in (("us","US"),("es","ES"),("jp","JP"),("ie","IE"),("generic","Generic")):
    m = importlib.import_module("rp2.plugin.country." + c)
    o = getattr(m, cls)()
    gens = sorted(o.get_report_generators())
    langs = None
    for g in gens:
        name = g.rsplit(".", 1)[-1]
        d = os.path.join(data, o.country_iso_code)
        have = set()
        for fn in os.listdir(d):
            pre = "template_" + name + "_"
            if fn.startswith(pre) and fn.endswith((".ods", ".txt")):
                have.add(fn[len(pre):-4])
        langs = have if langs is None else langs & have
    langs = sorted(l for l in langs if os.path.exists(os.path.join(loc, l, "LC_MESSAGES", "messages.mo")))
    out[c] = {"methods": sorted(o.get_accounting_methods()), "langs": langs, "gens": gens,
              "default_lang": o.get_default_generation_language(), "default_method": o.get_default_accounting_method()}
print(json.dumps(out))
'''
    d = tempfile.mkdtemp(prefix="rp2l6m_")
    try:
        env = {"PATH": "/usr/bin:/bin", "HOME": d, "PYTHONPATH": os.path.join(core.REPO, "src"), "PYTHONDONTWRITEBYTECODE": "1",
               "PYTHONHASHSEED": "0"}
        p = subprocess.run([l6.PY, "-c", code], cwd=d, env=env, stdout=subprocess.PIPE, stderr=subprocess.PIPE, text=True, timeout=120)
        return json.loads(p.stdout.strip().splitlines()[-1])
    finally:
        import shutil
        shutil.rmtree(d, ignore_errors=True)


# ----------------------------------------------------------------------------- the matrix
def build_jobs(tier, mm):
    rng = core.Rng(core.seed(), 16)
    jobs = []
    n_inputs = 2 if tier == "quick" else 12
    shapes = list(l6.SHAPES) + ["twins"]      # twins: equal-instant purchases on rows 9 / 10 (valid input; not used by C17's permutations)
    k = 0
    for c in l6.COUNTRIES:
        for m in [None] + mm[c]["methods"]:
            for g in [None] + mm[c]["langs"]:
                for w in ("none", "from", "to", "both"):
                    for _ in range(n_inputs):
                        shape = shapes[k % len(shapes)]
                        k += 1
                        inp = l6.gen_input(rng, shape)
                        f, t, label = l6.gen_window(rng, inp, w)
                        opts = {"method": m, "lang": g, "from": f, "to": t}
                        if rng.chance(20):
                            opts["prefix"] = rng.choice(["p_", "2021-", "x"])
                        if rng.chance(10):
                            opts["outdir"] = "default"
                        if rng.chance(10) and len(inp["assets"]) > 1:
                            opts["asset"] = rng.choice(inp["assets"])["asset"]
                        jobs.append({"country": c, "opts": opts, "inp": inp, "window": label, "kind": "matrix", "supported": True,
                                     "audit": True, "hashseed": 0})
    # schedules through the configuration file ([accounting_methods]); single entry keyed 1970, single entry keyed
    # otherwise, several entries ("mixed")
    n_s = 2 if tier == "quick" else 8
    for c in l6.COUNTRIES:
        ms = mm[c]["methods"]
        for _ in range(n_s):
            for style in ("single-1970", "single-other", "multi"):
                inp = l6.gen_input(rng, rng.choice(shapes))
                y0 = min(d.year for a in inp["assets"] for d, _, _ in l6.all_events(a))
                if style == "single-1970":
                    sched = [[1970, rng.choice(ms)]]
                elif style == "single-other":
                    sched = [[rng.choice([y0, y0 - 1, 2000]), rng.choice(ms)]]
                else:
                    years = sorted(set([rng.choice([1970, y0 - 1, y0])] + [y0 + 1 + rng.below(3) for _ in range(rng.range(1, 2))]))
                    sched = [[y, rng.choice(ms)] for y in years]
                w = rng.choice(["none", "from", "to", "both"])
                f, t, label = l6.gen_window(rng, inp, w)
                lang = rng.choice(mm[c]["langs"]) if c == "jp" else None
                extra = "[accounting_methods]\n" + "".join(f"{y} = {m}\n" for y, m in sched)
                jobs.append({"country": c, "opts": {"method": None, "lang": lang, "from": f, "to": t}, "inp": inp, "window": label,
                             "kind": "schedule-" + style, "sched": sched, "ini_extra": extra, "supported": True, "audit": True, "hashseed": 0})
    # many holders (report capacity): 21 and 22 holders with balances
    for nh in ((21, 22) if tier == "quick" else (1, 20, 21, 22, 23, 30)):
        inp = many_holders(nh)
        jobs.append({"country": "us", "opts": {}, "inp": inp, "window": "none", "kind": f"holders-{nh}", "supported": True,
                     "audit": True, "hashseed": 0})
    # unsupported / rejected combinations: correspondence of the control flow only (not judged by the oracle)
    neg = []
    inp = l6.gen_input(rng, "plain", 2)
    for c in l6.COUNTRIES:
        others = [m for m in l6.METHS if m not in mm[c]["methods"]]
        if others:
            neg.append({"country": c, "opts": {"method": others[0]}, "inp": inp, "kind": "neg-method-not-accepted"})
        neg.append({"country": c, "opts": {"method": mm[c]["methods"][0], "lang": mm[c]["langs"][0]}, "inp": inp, "kind": "neg-m-and-section",
                    "sched": [[1970, mm[c]["methods"][0]]], "ini_extra": f"[accounting_methods]\n1970 = {mm[c]['methods'][0]}\n"})
        neg.append({"country": c, "opts": {"lang": "xx"}, "inp": inp, "kind": "neg-unknown-language"})
        foreign = [l for l in ("en", "es", "kl", "ja", "en_IE") if l not in mm[c]["langs"]]
        neg.append({"country": c, "opts": {"lang": foreign[0]}, "inp": inp, "kind": "neg-language-without-template"})
        neg.append({"country": c, "opts": {"lang": mm[c]["langs"][0], "from": "2021-06-01", "to": "2020-06-01"}, "inp": inp, "kind": "neg-from-after-to"})
        neg.append({"country": c, "opts": {"lang": mm[c]["langs"][0]}, "inp": inp, "kind": "neg-unknown-method-in-section",
                    "sched": [[1970, "nofo"]], "ini_extra": "[accounting_methods]\n1970 = nofo\n"})
    over = overdrawn_input()
    neg.append({"country": "us", "opts": {}, "inp": over, "kind": "neg-negative-balance"})
    for j in neg:
        j.update({"window": "n/a", "supported": False, "audit": True, "hashseed": 0})
        j["opts"].setdefault("method", None)
    # the same overdrawn input with -n is a supported run
    jobs.append({"country": "us", "opts": {"neg": True}, "inp": over, "window": "none", "kind": "allow-negative", "supported": True,
                 "audit": True, "hashseed": 0})
    return jobs + neg


def many_holders(nh):
    holders = [f"H{i:02d}" for i in range(nh)]
    t0 = l6.day_of(date(2020, 1, 1)) * l6.DAY
    ins = [{"ts": [t0 + i * 3600_000_000, 0], "exch": 0, "holder": i, "type": "BUY", "spot": 100 * l6.U, "crypto_in": l6.U} for i in range(nh)]
    return {"shape": "many_holders", "exchanges": ["Coinbase"], "holders": holders, "off": 0,
            "assets": [{"asset": "BTC", "ins": ins, "outs": [], "intras": []}]}


def overdrawn_input():
    t0 = l6.day_of(date(2020, 3, 1)) * l6.DAY
    a = {"asset": "BTC",
         "ins": [{"ts": [t0, 0], "exch": 0, "holder": 0, "type": "BUY", "spot": 100 * l6.U, "crypto_in": 2 * l6.U},
                 {"ts": [t0 + 5 * l6.DAY, 0], "exch": 1, "holder": 0, "type": "BUY", "spot": 120 * l6.U, "crypto_in": l6.U}],
         "outs": [{"ts": [t0 + 9 * l6.DAY, 0], "exch": 1, "holder": 0, "type": "SELL", "spot": 150 * l6.U,
                   "crypto_out_no_fee": 2 * l6.U, "crypto_fee": 0}],
         "intras": []}
    return {"shape": "overdrawn", "exchanges": ["Coinbase", "Kraken"], "holders": ["Bob"], "off": 0, "assets": [a]}


# ----------------------------------------------------------------------------- composed model (Model/RunCompose.v, driver cmd 95)
def composable(job):
    """runs whose input has no taxable event (acquisitions only, default options of rp2_us): the rinput the report MODELS
    receive needs no matcher output, so the composed model (all modelled generators on one input) can be run on the very
    history of the CLI run"""
    o = job["opts"]
    if job["country"] != "us" or job.get("sched") or job.get("cfg_assets") or job.get("missing_sheet"):
        return False
    if any(o.get(k) for k in ("method", "lang", "from", "to", "asset", "neg", "plugin", "prefix")):
        return False
    return all(not a["outs"] and not a["intras"] and all(r["type"] == "BUY" for r in a["ins"]) for a in job["inp"]["assets"])


def composed_line(job):
    from harness import hist, l5, l5full
    inp = job["inp"]
    assets = [{"asset": a["asset"], "ins": [dict(r, row=3 + k) for k, r in enumerate(a["ins"])], "outs": [], "intras": []}
              for a in inp["assets"]]
    multi = {"country": "us", "lang": "en", "exchanges": inp["exchanges"], "holders": inp["holders"], "sched": [(1970, "fifo")],
             "from": None, "to": None, "allow_neg": False, "assets": assets}
    return hist.line(95, [0, 0] + l5.encode_rinput(multi, {a["asset"]: [] for a in assets}) + l5full.encode_env(multi))


def decode_composed(res):
    """-> (exit status, files) the composed model predicts: generators in discovery order, stop at the first failure"""
    if not res or res[0] != 0:
        return None
    files = []
    for k in range(res[1]):
        g, ok, _info = res[2 + 3 * k: 5 + 3 * k]
        if ok != 1:
            return 1, files
        files.append("fifo_" + GEN_FILES[g])
    return 0, files


# ----------------------------------------------------------------------------- judging
def expected_files(job, mm):
    """what the property text demands: one report per configured generator, named prefix + method|mixed + _ + report"""
    c = job["country"]
    sched = job.get("sched")
    if sched:
        label = sched[0][1] if len(sched) == 1 else "mixed"
    else:
        label = job["opts"].get("method") or mm[c]["default_method"]
    return sorted((job["opts"].get("prefix") or "") + label + "_" + GEN_FILES[g] for g in mm[c]["gens"])


def classify(job, res, mm):
    """narrow tags of a failing supported run (for KNOWN_FINDINGS matching) + a one-line description"""
    c, o = job["country"], job["opts"]
    err = res["err"]
    tags = {"run-failed", f"country={c}"}
    msg = f"{err.get('cls')}: {err.get('msg')}" if err.get("cls") else "; ".join(err.get("errors") or []) or "no diagnostic"
    text = (err.get("msg") or "") + " ".join(err.get("errors") or [])
    if c == "jp" and o.get("lang") is None and "Language ja not supported" in text:
        tags.add("jp-default-language-ja")
    if c == "jp" and o.get("from") and o.get("to") and "To and From Dates can not be specified" in text:
        tags.add("jp-from-and-to")
    if err.get("cls") == "IndexError" and any(l6.holders_with_balance(a, None) > 21 for a in job["inp"]["assets"]):
        tags.add("more-than-21-holders")
    if err.get("cls") == "KeyError" and "_AssetAndYear" in text:
        tags.add("f2-summary-link-keyerror")
    if err.get("cls") == "KeyError" and "TransactionType.LOST" in text and c == "ie":
        tags.add("f4-ie-lost-keyerror")
    if err.get("cls") == "KeyError" and text.strip().startswith("1970"):
        tags.add("f10-single-schedule-not-1970")
    return tags, msg


def describe(job):
    o = job["opts"]
    args = " ".join(l6.cli_args(job, "config.ini", "input.ods", "out" if o.get("outdir") != "default" else None))
    return f"rp2_{job['country']} {args}  [{job.get('kind')}, input shape {job['inp'].get('shape')}, window {job.get('window')}]"


def run(tier, build, replay=None):
    out = core.Outcome("C16", tier)
    proofs = core.check_proofs(build, "C16.v")
    mm = model_matrix(build)
    live = live_matrix()
    for c in l6.COUNTRIES:
        lm = live[c]
        gens_live = sorted(GEN_FILES[g] for g in mm[c]["gens"])
        gens_want = sorted(g.rsplit(".", 1)[-1] + ".ods" for g in lm["gens"])
        if (sorted(mm[c]["methods"]) != lm["methods"] or sorted(mm[c]["langs"]) != lm["langs"] or gens_live != gens_want
                or mm[c]["default_lang"] != lm["default_lang"] or mm[c]["default_method"] != lm["default_method"]):
            out.violation(f"country tables of the model differ from the live country object / data directory for {c}: model {mm[c]}, live {lm}",
                          {"country": c}, tags={"correspondence"}, found_input=False)
    if replay:
        jobs = [replay]
        results = l6.run_jobs(jobs)
    else:
        jobs, results = l6.matrix_runs(tier, lambda: corpus_jobs() + build_jobs(tier, mm))
    model = [decode_run(r) for r in core.run_model([model_line(j) for j in jobs])]
    comp_idx = [k for k, j in enumerate(jobs) if composable(j)]
    comp_raw = core.run_model([composed_line(jobs[k]) for k in comp_idx]) if comp_idx else []
    comp_mism = 0
    for k, raw in zip(comp_idx, comp_raw):
        pred = decode_composed(raw)
        res = results[k]
        got = sorted(fn for fn, f in res["files"].items() if not f.get("junk") and not f.get("stale"))
        if pred is None or (res["rc"], got) != (pred[0], sorted(pred[1])):
            comp_mism += 1
            out.violation(f"composed report models and implementation disagree on {describe(jobs[k])}: implementation exit {res['rc']} "
                          f"files {got}; modelled generators (cmd 95) give {pred} (raw {raw[:40]})",
                          jobs[k], tags={"correspondence"}, found_input=False)
    failing, nontrivial, mism = 0, set(), 0
    dist = {}
    for job, res, (mrc, mfiles) in zip(jobs, results, model):
        key = f"{job['country']}/{job.get('kind')}"
        dist[key] = dist.get(key, 0) + 1
        got_files = sorted(fn for fn, f in res["files"].items() if not f.get("junk") and not f.get("stale"))
        # correspondence: exit status and file list
        if (res["rc"], got_files) != (mrc, sorted(mfiles)):
            mism += 1
            out.violation(f"model and implementation disagree on {describe(job)}: implementation exit {res['rc']} files {got_files} "
                          f"({res['err'].get('cls')}: {res['err'].get('msg')}); model exit {mrc} files {sorted(mfiles)}",
                          job, tags={"correspondence"}, found_input=False)
        if not job.get("supported"):
            continue
        if job.get("window") not in ("none", "n/a") or job.get("kind") != "matrix":
            nontrivial.add(core.case_hash([job["country"], job["opts"], job.get("sched"), job["inp"]]))
        # oracle: the property itself
        want = expected_files(job, mm)
        bad = None
        if res["rc"] != 0:
            tags, msg = classify(job, res, mm)
            bad = f"exit status {res['rc']} ({msg}); files left behind: {got_files}"
        else:
            tags = {"report-missing", f"country={job['country']}"}
            if got_files != want:
                bad = f"exit status 0 but the reports written are {got_files}, expected {want}"
            else:
                for fn in want:
                    f = res["files"][fn]
                    if f.get("bad") or f.get("size", 0) <= 0 or not f.get("sheets"):
                        bad = f"report {fn} is unreadable or empty: {f.get('bad')} (size {f.get('size')})"
        if bad:
            failing += 1
            out.violation(f"{describe(job)}: {bad}", job, tags=tags)
    # totality of the compute stage (C16_compute_tax_outcome / C16_computed_data_exists) judged on the real code
    from harness import totality
    tot = totality.run(out, tier) if not replay else {}
    stale = [j["known_replay"] for j, r in zip(jobs, results) if j.get("known_replay") and r["rc"] == 0]
    if stale:
        out.notes.append("known-finding replays that no longer fail (stale KNOWN_FINDINGS lines): " + ", ".join(stale))
    core.proofs_verdict(out, proofs, build, "C16.v")
    sup = sum(1 for j in jobs if j.get("supported"))
    out.coverage.update({
        "evaluations": len(jobs),
        "distinct_nontrivial": len(nontrivial),
        "rule": "one real subprocess run of rp2_<country> per case: 5 entry points x (default + every accepted -m) x (default + every shipped -g) "
                "x {none, from, to, both} x generated valid inputs (6 shapes), schedules through [accounting_methods], 21/22 holders, -n; "
                "non-trivial = a date window or a non-default schedule/shape is involved",
        "samples": [{"cmd": describe(j), "exit": r["rc"], "files": sorted(r["files"])} for j, r in list(zip(jobs, results))[:3]],
        "traces_validated_against_impl": len(jobs),
        "correspondence_mismatches": mism,
        "composed_model_runs": len(comp_idx), "composed_model_mismatches": comp_mism,
        "totality_stream": tot,
        "supported_runs": sup, "supported_runs_failing": failing,
        "matrix": {c: {"methods": mm[c]["methods"], "languages": mm[c]["langs"], "default_language": mm[c]["default_lang"]} for c in l6.COUNTRIES},
        "case_distribution": dist, "stale_known_findings": stale,
    })
    out.assumptions = [
        "MainRun (the model the CLI matrix is compared with) treats a generator as 'succeeds unless a known failure condition holds'; "
        "Properties/C16.v (composition) proves that on the facts computed from the rinput this predicate agrees with the four executable "
        "report models (C16_generator_outcome_of_models / _iff; full report: converse only by the 22-holder witness) and that every "
        "configured report is produced under reports_ok_hyps (C16_reports_all_produced, C16_run_total_of_models)",
        "ComputedData exists for every asset: no longer assumed -- C16_run_total_of_models_from_rows takes hypotheses about the input "
        "(every asset built by the constructors from rows in sheet order, events of one instant in one local year, schedule covering "
        "every event year, fractions = the matcher's output, -n or no debit overdrawing its account; Proofs/ComputeTotal.v), and "
        "C16_compute_tax_outcome says compute_tax fails only by exhausted lots or an overdraft without -n; the totality stream "
        "(harness/totality.py) replays that prediction on the implementation's compute_tax for generated histories x 5 windows x {-n, no -n}, "
        "incl. a to-date before the first acquisition (average price 0, no division) and the STAKING acquisitions of amount <= 0 that the "
        "constructor lets through: rp2 rejects them in the matcher stage with RP2ValueError, as the model's matcher does (EValue) -- "
        "no model discrepancy; they are outside every totality statement",
        "still assumed: reports_side_hyps = template large enough for the input-independent cells, open-positions catalogue/template for the language, "
        "13-decimal comparisons defined (sizes), every listed asset has a positive balance (C07 reconciliation; F8 breaks it), "
        "tax-report rows constructible (mk_items), single-entry schedule keyed 1970 in the open-positions MODEL (stricter than the code)",
        "the input facts MainRun is given in the CLI correspondence (taxable types in the window, hidden summary year, holders with balance, "
        "negative balance) are computed by the harness from the generated history; the composed model (cmd 95) is run on the CLI's own "
        "history only for runs without taxable events (holders-N jobs)",
        "generated inputs use one UTC offset per input and pairwise distinct timestamps (mixed offsets: F9, other properties)",
    ]
    return out.finish(proofs, build)


def corpus_jobs():
    """replays of the repaired defects (corpus/C16) and of the known findings (findings/C16-*.json): run first, every time"""
    import json
    import os
    from harness import l2
    jobs = l2.corpus_cases("C16")
    d = os.path.join(core.VERIF, "findings")
    for f in sorted(os.listdir(d)) if os.path.isdir(d) else []:
        if f.startswith("C16-") and f.endswith(".json"):
            j = json.load(open(os.path.join(d, f)))["case"]
            j["known_replay"] = f
            jobs.append(j)
    return jobs
