"""C01 -- disposals consume lots in the order the accounting method prescribes."""
from harness import core, hist, l2


def check_order(case, fracs):
    """Replays the implementation's own fractions against the property text.
    -> (violations:list[str], nontrivial:bool, tags:set)"""
    lots = hist.sorted_lots(case)
    pos = {l["row"]: k for k, l in enumerate(lots)}
    by_row = {l["row"]: l for l in lots}
    rem = {l["row"]: l["crypto_in"] for l in lots}
    evs = {e["row"]: e for e in hist.taxable_oracle(case)}
    bad, nontrivial, choice, partial = [], False, False, False
    tags = set()
    for k, (ev, lot, amt) in enumerate(fracs):
        if lot is None:
            continue
        e = evs.get(ev)
        if e is None or lot not in by_row:
            bad.append(f"fraction {k}: unknown event {ev} or lot {lot}")
            continue
        m = hist.method_for(case["sched"], hist.local_year(e["ts"]))
        avail = [l for l in lots if l["ts"][0] <= e["us"] and rem[l["row"]] > 0]
        if len(avail) >= 2:
            choice = True
        if not avail:
            bad.append(f"fraction {k}: event {ev} takes from lot {lot} but no lot has balance")
            continue
        best = min(avail, key=lambda l: hist.rank(m, l, pos[l["row"]]))
        if best["row"] != lot:
            bad.append(f"fraction {k}: event row {ev} ({m}, year {hist.local_year(e['ts'])}) takes {amt} from lot row {lot} "
                       f"although lot row {best['row']} ranks first among lots with balance")
            same_inst = [x for x in evs.values() if x["us"] == e["us"] and hist.local_year(x["ts"]) != hist.local_year(e["ts"])]
            if same_inst:
                tags.add("same-instant-different-year")
        if rem.get(lot, 0) != amt and amt < rem.get(lot, 0):
            partial = True
        rem[lot] = rem.get(lot, 0) - amt
    nontrivial = choice and partial
    return bad, nontrivial, tags


def _impl_session(cases):
    """several assets in ONE run: rp2_main creates the accounting-method objects once and shares them between all assets,
    so whatever a method object remembers from one asset is still there for the next"""
    methods = {}
    return [hist.impl_compute(c, full=False, methods=methods) for c in cases]


def sessions(out, base, tier, replay=None):
    """the lot order of an asset must not depend on which assets were processed before it in the same run"""
    rng = core.Rng(core.seed(), 11)
    if replay is not None:
        groups = [replay["session"]]
    else:
        ok = [c for c, i in zip(base["cases"], base["impl"]) if "ok" in i and len(c["ins"]) >= 2]
        n = 250 if tier == "quick" else 4000
        groups = []
        for _ in range(min(n, len(ok) // 3)):
            m = rng.choice(hist.METHS[1:])
            g = []
            for _k in range(rng.range(2, 3)):
                c = dict(rng.choice(ok))
                c["sched"] = [[1970, m]]
                g.append(c)
            groups.append(g)
    res = core.pool_map(_impl_session, groups, init=core.impl_env_setup)
    nbad = 0
    for g, rs in zip(groups, res):
        for k, (c, r) in enumerate(zip(g, rs)):
            if "ok" not in r:
                continue
            bad, _nt, tags = check_order(c, [(f["ev"], f["lot"], f["amt"]) for f in r["ok"]["fractions"]])
            if bad and "same-instant-different-year" not in tags:
                nbad += 1
                out.violation(f"asset {k + 1} of {len(g)} processed in one run (shared accounting-method objects): " + bad[0],
                              {"session": g[:k + 1]}, tags={"order", "multi-asset-session"})
                break
    return len(groups)


def run(tier, build, replay=None):
    out = core.Outcome("C01", tier)
    proofs = core.check_proofs(build, "C01.v")
    if replay and "session" in replay:
        core.impl_env_setup()
        n = sessions(out, None, tier, replay)
        core.proofs_verdict(out, proofs, build, "C01.v")
        out.coverage.update({"evaluations": n, "distinct_nontrivial": n, "rule": "replay of a multi-asset session"})
        return out.finish(proofs, build)
    if replay:
        data = l2.run_cases([replay])          # (an end-to-end case goes through the files and parse_ods again)
    else:
        data = l2.run(tier)
    nontriv, mism, nerr = set(), 0, 0
    for c, i, m, s in zip(data["cases"], data["impl"], data["model"], data["spec"]):
        iv = l2.impl_fracs(i)
        mv = hist.decode_fracs(m)
        if iv[0] == "ok":
            bad, nt, tags = check_order(c, iv[1])
            if nt:
                nontriv.add(core.case_hash(c))
            for b in bad[:1]:
                out.violation(b, c, tags=tags | {"order"})
        else:
            nerr += 1
        # correspondence on the projection [(event, lot)]
        proj = lambda v: [(a, b) for a, b, _ in v[1]] if v[0] == "ok" else v[:2]  # noqa: E731
        if not (iv[0] == mv[0] and (proj(iv) == proj(mv) if iv[0] == "ok" else l2.same_outcome(iv, mv))):
            mism += 1
            if iv[0] == "ok" or mv[0] == "ok":
                if not (iv[0] == "ok" and check_order(c, iv[1])[0]):
                    # the implementation's own output obeys the property here (or it failed): report as broken correspondence
                    pass
            out.violation(f"model and implementation disagree on the lot pairing: impl {str(iv)[:300]} / model {str(mv)[:300]}",
                          c, tags={"correspondence"}, found_input=False)
    n_sessions = sessions(out, data, tier) if not replay else 0
    core.proofs_verdict(out, proofs, build, "C01.v")
    out.coverage.update({
        "multi_asset_sessions": n_sessions,
        "end_to_end_stream": hist.ods_stats(data["cases"]),
        "evaluations": len(data["cases"]),
        "distinct_nontrivial": len(nontriv),
        "rule": "generated single-asset histories (1-30 rows, all 14 types, equal instants ~30%, mixed offsets 25%, partial lots, exact exhaustion, "
                "repeated prices, 1-4 entry schedules); non-trivial = some fraction had >= 2 lots with balance to choose from AND some lot was consumed partially",
        "samples": data["cases"][:2],
        "traces_validated_against_impl": len(data["cases"]),
        "correspondence_mismatches": mism,
        "impl_errors": nerr,
    })
    out.assumptions = ["heapq.heappop returns a minimal entry; prezzemolo AVLTree.find_max_value_less_than returns the greatest key <= k; list.sort is stable (library behaviour)",
                       "amounts on the 1e-11 grid below 1e18 (what the ODS parser produces)"]
    return out.finish(proofs, build)
