"""C02 -- every disposal is fully covered by earlier lots; no lot is ever overspent."""
import copy

from harness import core, hist, l2

EXHAUSTED_MSG = "Total in-transaction crypto value < total taxable crypto value"


def check_conservation(case, fracs):
    lots = {l["row"]: l for l in case["ins"]}
    evs = {e["row"]: e for e in hist.taxable_oracle(case)}
    bad = []
    taken_lot, taken_ev = {}, {}
    for k, (ev, lot, amt) in enumerate(fracs):
        if not isinstance(amt, int) or amt <= 0:
            bad.append(f"fraction {k}: non-positive or off-grid amount {amt}")
            continue
        e = evs.get(ev)
        if e is None:
            continue   # C03's concern
        taken_ev[ev] = taken_ev.get(ev, 0) + amt
        if lot is not None:
            l = lots.get(lot)
            if l is None:
                bad.append(f"fraction {k}: unknown lot row {lot}")
                continue
            taken_lot[lot] = taken_lot.get(lot, 0) + amt
            if taken_lot[lot] > l["crypto_in"]:
                bad.append(f"lot row {lot} overspent after fraction {k}: {taken_lot[lot]} > {l['crypto_in']}")
            if l["ts"][0] > e["us"]:
                bad.append(f"fraction {k}: lot row {lot} acquired after the disposal row {ev}")
    for row, e in evs.items():
        # every taxable event incl. every transfer with a non-zero fee, however small its fiat value (C03)
        if taken_ev.get(row, 0) != e["amt"]:
            bad.append(f"event row {row}: fractions sum to {taken_ev.get(row, 0)}, amount leaving the holder is {e['amt']}")
    return bad, taken_lot


def sell_all_case(case, taken_lot):
    total = sum(l["crypto_in"] for l in case["ins"])
    left = total - sum(taken_lot.values())
    if left <= 0:
        return None
    c = copy.deepcopy(case)
    last = max(r["ts"][0] for r in case["ins"] + case["outs"] + case["intras"])
    off = case["ins"][0]["ts"][1]
    maxrow = max(r["row"] for r in case["ins"] + case["outs"] + case["intras"])
    c["outs"].append({"row": maxrow + 100, "ts": [last + hist.DAY, off], "exch": 0, "holder": 0, "type": "SELL",
                      "spot": hist.U, "crypto_out_no_fee": left, "crypto_fee": 0})
    return c


def _impl(case):
    return hist.impl_compute(case, full=False)


def _impl_to(args):
    case, t = args
    return hist.impl_compute(case, to_day=t, full=False)


def to_date_stage(out, data, tier, replay=None):
    """a to-date only limits what is reported: the whole history is still matched, so a history that is fully covered
    without a to-date must not be rejected with one (lots acquired after the to-date still cover later disposals)"""
    rng = core.Rng(core.seed(), 21)
    if replay is not None:
        jobs = [(replay["case"], replay["to"])]
    else:
        ok = [c for c, i in zip(data["cases"], data["impl"]) if "ok" in i]
        jobs = []
        for c in ok[:(600 if tier == "quick" else 8000)]:
            days = sorted({hist.local_day(r["ts"]) for r in c["ins"] + c["outs"] + c["intras"]})
            jobs.append((c, max(0, rng.choice(days) + rng.choice([0, 0, 1, -1, 30, -30]))))
    res = core.pool_map(_impl_to, jobs, init=core.impl_env_setup)
    for (c, t), r in zip(jobs, res):
        if "ok" not in r:
            out.violation(f"valid history (every disposal covered by earlier lots, accepted without a to-date) is rejected when the to-date "
                          f"day {t} is given: {r.get('err')}: {r.get('msg', '')[:160]}", {"case": c, "to": t}, tags={"to-date-rejects-valid"})
    return len(jobs)


def run(tier, build, replay=None):
    out = core.Outcome("C02", tier)
    proofs = core.check_proofs(build, "C02.v")
    if replay and "case" in replay and "to" in replay:
        core.impl_env_setup()
        n = to_date_stage(out, None, tier, replay)
        core.proofs_verdict(out, proofs, build, "C02.v")
        out.coverage.update({"evaluations": n, "distinct_nontrivial": n, "rule": "replay of a to-date run"})
        return out.finish(proofs, build)
    if replay:
        data = l2.run_cases([replay])          # (an end-to-end case goes through the files and parse_ods again)
    else:
        data = l2.run(tier)
    nontriv, mism = set(), 0
    stats = {"ok": 0, "rejected": 0, "sell_all": 0}
    ext_cases = []
    for c, i, m in zip(data["cases"], data["impl"], data["model"]):
        iv = l2.impl_fracs(i)
        mv = hist.decode_fracs(m)
        cov = hist.coverable(c)
        if iv[0] == "ok":
            stats["ok"] += 1
            bad, taken = check_conservation(c, iv[1])
            for b in bad[:1]:
                out.violation(b, c, tags={"conservation"})
            if cov is not None:
                out.violation(f"history overspends at taxable event #{cov} (lots acquired so far cannot cover it) but the run succeeded", c,
                              tags={"overspend-accepted"})
            if len(iv[1]) >= 3:
                nontriv.add(core.case_hash(c))
            if not bad and cov is None and not l2.is_ods(c) and len(ext_cases) < (1500 if tier == "quick" else 8000):
                e = sell_all_case(c, taken)
                if e:
                    ext_cases.append(e)
        else:
            stats["rejected"] += 1
            if cov is None:
                tags = {"valid-rejected"}
                out.violation(f"valid history (every disposal covered by earlier lots) rejected: {iv[1]}: {iv[2][:160]}", c, tags=tags)
            elif not (iv[1] == "value" and EXHAUSTED_MSG in iv[2]):
                out.violation(f"overspending history fails with an unexpected error: {iv[1]}: {iv[2][:160]}", c, tags={"wrong-error"})
            else:
                nontriv.add(core.case_hash(c))
        if not l2.same_outcome(iv, mv):
            mism += 1
            out.violation(f"model and implementation disagree: impl {str(iv)[:300]} / model {str(mv)[:300]}", c,
                          tags={"correspondence"}, found_input=False)
    # sell-everything extension
    ext_impl = core.pool_map(_impl, ext_cases, init=core.impl_env_setup) if ext_cases else []
    ext_model = core.run_model([hist.line(10, hist.encode_hist(c)) for c in ext_cases]) if ext_cases else []
    for c, i, m in zip(ext_cases, ext_impl, ext_model):
        iv = l2.impl_fracs(i)
        stats["sell_all"] += 1
        if iv[0] != "ok":
            out.violation(f"disposing of the entire remaining holding fails: {iv[1]}: {iv[2][:160]}", c, tags={"sell-all"})
        else:
            bad, taken = check_conservation(c, iv[1])
            left = [r["row"] for r in c["ins"] if taken.get(r["row"], 0) != r["crypto_in"]]
            if bad or left:
                out.violation(f"after disposing of the entire holding lots {left} are not exactly exhausted {bad[:1]}", c, tags={"sell-all"})
        if not l2.same_outcome(iv, hist.decode_fracs(m)):
            mism += 1
            out.violation("model and implementation disagree on a sell-all extension", c, tags={"correspondence"}, found_input=False)
    n_to = to_date_stage(out, data, tier) if not replay else 0
    out.coverage["runs_with_a_to_date"] = n_to
    core.proofs_verdict(out, proofs, build, "C02.v")
    out.coverage.update({
        "evaluations": len(data["cases"]) + len(ext_cases),
        "distinct_nontrivial": len(nontriv),
        "rule": "generated histories (valid and ~20% over-spending at a random prefix) plus a 'sell the whole remainder' extension of valid ones; "
                "non-trivial = at least 3 fractions, or an over-spending history that must be rejected",
        "samples": data["cases"][:2],
        "traces_validated_against_impl": len(data["cases"]) + len(ext_cases),
        "correspondence_mismatches": mism,
        "distribution": stats,
        "end_to_end_stream": hist.ods_stats(data["cases"]),
    })
    out.assumptions = ["amounts on the 1e-11 grid below 1e18", "optional crypto_out_with_fee, when supplied, is the amount leaving the holder"]
    return out.finish(proofs, build)
