"""C08 -- histories that overdraw an account are rejected unless -n is given."""
import re

from harness import core, hist, l2, l4, oracle

MSG = re.compile(r'balance of account "([^"]*)" \(holder "([^"]*)"\) went negative')


def _impl_strict(case):
    return hist.impl_compute(case, allow_neg=False, full=False)


def _impl_strict_from(args):
    case, f = args
    return hist.impl_compute(case, from_day=f, allow_neg=False, full=False)


def _boost():
    from harness import fingerprint
    return fingerprint.boost("l4")


def gen_cases(rng, n):
    cases = []
    for k in range(n):
        c = hist.gen_history(rng, overdraw_pct=60 if k % 2 else 20, accounts=(rng.range(1, 3), rng.range(1, 3)), mixed_pct=10)
        # dust overdrafts around the 1e-10 tolerance: shave the last debit
        if k % 5 == 0 and c["outs"]:
            r = c["outs"][-1]
            if r["type"] != "FEE":
                r["crypto_out_no_fee"] += rng.choice([4, 5, 6, 10, 11])
                r.pop("crypto_out_with_fee", None)
        # an exchange-supplied crypto_out_with_fee that differs slightly from amount + fee (rounded by the exchange): the
        # account is debited by amount + fee whatever that column says
        if k % 7 == 3:
            for r in c["outs"]:
                if r["type"] != "FEE" and rng.chance(60):
                    r["crypto_out_with_fee"] = max(1, r["crypto_out_no_fee"] + r["crypto_fee"] + rng.choice([-1000, -6, 6, 11, 1000, 10 ** 8]))
        cases.append(c)
    return cases


def run(tier, build, replay=None):
    out = core.Outcome("C08", tier)
    proofs = core.check_proofs(build, "C08.v")
    rng = core.Rng(core.seed(), 8)
    forced_from = None
    if replay and "ins" not in replay and "case" in replay:      # replay of a from-date violation: {"case": ..., "from": day}
        forced_from, replay = replay.get("from"), replay["case"]
    cases = [replay] if replay else l2.corpus_cases("C08") + gen_cases(rng, 3000 * _boost() if tier == "quick" else 40000)
    if not replay:
        # end-to-end twins (real .ini / .ods files through parse_ods, model command 31): a crypto fee of an acquisition is
        # debited from the account by the artificial fee-only disposal the parser creates
        rng_o = core.Rng(core.seed(), 88)
        for c in list(cases):
            if (hist.has_in_crypto_fee(c) or rng_o.chance(8)) and hist.ods_eligible(c):
                t = hist.ods_case(c, rng_o)
                if t is not None:
                    cases.append(t)
    strict = core.pool_map(_impl_strict, cases, init=core.impl_env_setup)
    loose = core.pool_map(l2._impl_matcher, cases, init=core.impl_env_setup)
    # the verdict must not depend on a from-date: the replay covers all history, not only the window shown
    fjobs = []
    for k, c in enumerate(cases):
        if k % 3 == 0 or replay:
            days = sorted({hist.local_day(r["ts"]) for r in c["ins"] + c["outs"] + c["intras"]})
            fjobs.append((k, forced_from if forced_from is not None else max(0, rng.choice(days) + rng.choice([0, 0, 1, -1, 30]))))
    fres = dict(zip([k for k, _ in fjobs], core.pool_map(_impl_strict_from, [(cases[k], f) for k, f in fjobs], init=core.impl_env_setup)))
    fday = dict(fjobs)
    lines, idxs = [], []
    for k, (c, lo) in enumerate(zip(cases, loose)):
        if "ok" in lo:
            lines.append(l4.model_line(c, lo, None, None, False, strict[k]))
            idxs.append(k)
    raw = dict(zip(idxs, core.run_model(lines)))
    nontriv, mism = set(), 0
    stats = {"rejected": 0, "accepted": 0, "matcher_failed": 0, "tolerance_zone": 0}
    for k, (c, st, lo) in enumerate(zip(cases, strict, loose)):
        if "ok" not in lo:
            stats["matcher_failed"] += 1      # rejected for another reason (lots exhausted): not this property
            continue
        must, ever = oracle.overdraft(c)
        rejected = "err" in st
        acct = None
        if rejected:
            mm = MSG.search(st.get("msg", ""))
            if st["err"] != "value" or not mm:
                out.violation(f"run without -n fails with an unexpected error: {st}", c, tags={"wrong-error"})
                continue
            acct = (c["exchanges"].index(mm.group(1)), c["holders"].index(mm.group(2)))
            stats["rejected"] += 1
        else:
            stats["accepted"] += 1
        if must is not None:
            nontriv.add(core.case_hash(c))
            if not rejected:
                out.violation(f"account {must} drops more than 1e-10 below zero but the history is accepted without -n", c, tags={"overdraft-accepted"})
            elif acct not in ever:
                out.violation(f"history rejected naming account {acct}, which is never below zero after one of its debits (overdrawn: {sorted(ever)})", c,
                              tags={"wrong-account"})
        elif not ever:
            if rejected:
                out.violation(f"no account ever goes negative but the history is rejected: {st['msg'][:160]}", c, tags={"valid-rejected"})
        else:
            stats["tolerance_zone"] += 1
        if k in fres:
            sf = fres[k]
            rej_f = "err" in sf
            same = rej_f == rejected and (not rejected or (sf.get("err") == st.get("err") and MSG.search(sf.get("msg", "")) and MSG.search(sf.get("msg", "")).groups() == MSG.search(st.get("msg", "")).groups()))
            if not same:
                out.violation(f"the verdict changes with a from-date (day {fday[k]}): without it {'rejected: ' + st.get('msg', '')[:120] if rejected else 'accepted'}, "
                              f"with it {'rejected: ' + sf.get('msg', '')[:120] if rej_f else 'accepted'}", {"case": c, "from": fday[k]}, tags={"from-date-changes-verdict"})
        # with -n: proceeds and reports the negative balance
        want = oracle.flows(c)
        got = {(c["exchanges"].index(b[0]), c["holders"].index(b[1])): b[2] for b in lo["ok"]["balances"]}
        for a, w in want.items():
            if got.get(a) != w[0]:
                out.violation(f"with -n the final balance of account {a} is reported as {got.get(a)}, flows give {w[0]}", c, tags={"allow-negative"})
        # correspondence: accept/reject + account
        m = raw.get(k)
        if m is not None:
            m_rej = m[0] == 7
            if m_rej != rejected or (rejected and tuple(m[1:3]) != acct) or (m[0] not in (0, 7)):
                mism += 1
                out.violation(f"model and implementation disagree: implementation {'rejects ' + str(acct) if rejected else 'accepts'}, model {m[:3]}", c,
                              tags={"correspondence"}, found_input=False)
    core.proofs_verdict(out, proofs, build, "C08.v")
    out.coverage.update({
        "evaluations": len(cases),
        "distinct_nontrivial": len(nontriv),
        "rule": "account-aware generated histories, 20-60% with an overdraft injected at a random debit (transient ones refilled later included), dust overdrafts "
                "of 4..11e-11 around the tolerance, same-instant buy/sell orderings; each run with and without -n; non-trivial = some account goes more than "
                "1e-10 below zero",
        "samples": cases[:2],
        "traces_validated_against_impl": len(idxs),
        "correspondence_mismatches": mism,
        "distribution": stats,
        "end_to_end_stream": hist.ods_stats(cases),
    })
    out.assumptions = ["balances between -1e-10 and 0 are not constrained by the property (the code rejects below -5e-11)"]
    return out.finish(proofs, build)
