"""C06 -- yearly gain/loss summary equals the sum of its detail fractions."""
from harness import core, hist, l4, oracle
from harness.props.c09 import dates_monotone


def run(tier, build, replay=None):
    out = core.Outcome("C06", tier)
    proofs = core.check_proofs(build, "C06.v")
    if replay:
        core.impl_env_setup()
        c, f, t = replay["case"], replay.get("from"), replay.get("to")
        b = hist.impl_compute(c)
        i = hist.impl_compute(c, from_day=f, to_day=t)
        raw = core.run_model([l4.model_line(c, b, f, t, True, i)])
        data = {"jobs": [[0, f, t]], "impl": [i], "model": [l4.decode_computed(raw[0], c)], "base": {"cases": [c], "impl": [b]}}
    else:
        data = l4.run(tier)
    base = data["base"]
    nontriv, mism = set(), 0
    for (idx, f, t), i, m in zip(data["jobs"], data["impl"], data["model"]):
        c = base["cases"][idx]
        rep = {"case": c, "from": f, "to": t}
        if "ok" not in i:
            continue
        mono = dates_monotone(c)
        want = oracle.yearly(c, base["impl"][idx]["ok"]["fractions"], t, f)
        got = {}
        for y in i["ok"]["yearly"]:
            key = (y[0], y[1], y[2])
            if key in got:
                out.violation(f"yearly line {key} appears twice", rep, tags={"yearly"})
            got[key] = [y[3], oracle.dec_of_pair(y[4]), oracle.dec_of_pair(y[5]), oracle.dec_of_pair(y[6])]
        # finding F9 (known) is recognised narrowly: a to-date, local dates not monotone in time, and the reported list is EXACTLY
        # what stopping at the first fraction dated after the to-date gives; any other deviation is reported as new
        tags = set()
        if not mono and t is not None and got != want and got == oracle.yearly(c, base["impl"][idx]["ok"]["fractions"], t, f, brk=True):
            tags = {"non-monotone-local-dates"}
        for key, w in want.items():
            g = got.get(key)
            if g is None:
                out.violation(f"fractions with (year, type, long) = {key} exist up to the to-date but the summary has no such line", rep, tags=tags | {"yearly"})
            elif g != w:
                out.violation(f"yearly line {key}: reported {g}, sums of its detail fractions are {w}", rep, tags=tags | {"yearly"})
        for key in got:
            if key not in want:
                out.violation(f"yearly line {key} has no detail fraction (or lies before the from-date's year)", rep, tags=tags | {"yearly"})
        keys = [(y[0], 0 if y[2] else 1, y[1].lower()) for y in i["ok"]["yearly"]]
        if keys != sorted(keys, reverse=True):
            out.violation("yearly lines are not in the documented order", rep, tags={"yearly-order"})
        if len(want) >= 2:
            nontriv.add(core.case_hash(rep))
        if "err" in m or i["ok"]["yearly"] != m["yearly"]:
            mism += 1
            out.violation(f"model and implementation disagree on the yearly list: {str(i['ok']['yearly'])[:200]} / {str(m.get('yearly'))[:200]}",
                          rep, tags={"correspondence"}, found_input=False)
    core.proofs_verdict(out, proofs, build, "C06.v")
    out.coverage.update({
        "evaluations": len(data["jobs"]),
        "distinct_nontrivial": len(nontriv),
        "rule": "generated histories spanning several years/types/holding periods x window kinds (none/from/to/both); the yearly list of the windowed run "
                "is compared with sums over the detail fractions of the unfiltered run (31-digit decimal sums in fraction order) and with the Coq model; "
                "non-trivial = at least two summary lines expected",
        "samples": [{"case": base["cases"][data["jobs"][0][0]], "from": data["jobs"][0][1], "to": data["jobs"][0][2]}] if data["jobs"] else [],
        "traces_validated_against_impl": len(data["jobs"]),
        "correspondence_mismatches": mism,
        "end_to_end_stream": hist.ods_stats(base["cases"]),
    })
    out.assumptions = ["'every fraction dated up to the to-date contributes' is claimed for histories whose local dates are monotone in time (finding F9)"]
    return out.finish(proofs, build)
