"""C12 -- malformed or contradictory input is rejected, never silently processed.

Every fault class of the property text is injected, one fault at a time, at every applicable position of small valid
inputs (real .ini/.ods files).  Required: the implementation raises (Configuration / open_ods / parse_ods), the Coq
model returns Err on the same files, and -- on a sample per class and for all option faults -- the console scripts exit
non-zero with an error message and leave no report in the output directory."""
import glob
import json
import os
import shutil

from harness import core, hist, l1, l1faults


def job_of(base, fault, d, k):
    a = l1faults.apply(base, fault)
    return {"dir": d, "k": k, "ini": a["ini"], "sheets": a["sheets"], "parse": a["parse"], "lay": a["lay"], "assets": base["assets"],
            "exchanges": base["exchanges"], "holders": base["holders"]}


def run_one(args):
    base, fault, d, k = args
    try:
        return l1.run_job(job_of(base, fault, d, k))
    except Exception as exc:  # noqa: BLE001
        return {"harness_error": f"{type(exc).__name__}: {exc}"}


def cli_one(args):
    base, fault, country = args
    a = l1faults.apply(base, fault)
    # fault["argv"]: the same options as a["args"] in another spelling argparse accepts (--method=X, -mX, unique prefix --meth X)
    return l1.cli_run({"country": country, "ini": a["ini"], "sheets": a["sheets"], "args": fault.get("argv") or a["args"] or fault.get("args", [])})


def impl_verdict(r):
    """-> (rejected, kind, message)"""
    imp = r["impl"]
    if "err" in imp["config"]:
        return True, imp["config"]["err"], "config: " + imp["config"]["msg"]
    for p in imp["parsed"]:
        if "err" in p:
            return True, p["err"], p["msg"]
    return False, None, ""


def model_verdict(r, mres, cfg_res):
    """-> (rejected | None when configparser itself rejects the file, code)"""
    if r["secs"] is None:
        return None, "configparser"
    if cfg_res is None:
        return None, "no-model"
    if cfg_res[0] != 0:
        return True, cfg_res[0]
    for m in mres:
        if m is not None and m[0] != 0:
            return True, m[0]
    return False, 0


KIND_OF_CODE = {5: "value", 6: "type"}


def ctor_type_stream():
    """14 types x 3 tables at the constructors: implementation raises exactly for the types the documentation does not allow"""
    from harness import impl
    cfg = impl.make_config(impl.country_obj("us"), ["B1"], ["E0"], ["H0"])
    ex, ho = ["E0"], ["H0"]
    res = []
    for ty in hist.TT:
        for table in ("in", "out", "intra"):
            try:
                if table == "in":
                    impl.mk_in(cfg, "B1", ex, ho, {"row": 1, "ts": [1600000000000000, 0], "exch": 0, "holder": 0, "type": ty, "spot": hist.U, "crypto_in": hist.U})
                elif table == "out":
                    fee = ty == "FEE"
                    impl.mk_out(cfg, "B1", ex, ho, {"row": 1, "ts": [1600000000000000, 0], "exch": 0, "holder": 0, "type": ty, "spot": hist.U,
                                                    "crypto_out_no_fee": 0 if fee else hist.U, "crypto_fee": hist.U if fee else 0})
                else:
                    from rp2.intra_transaction import IntraTransaction
                    IntraTransaction(cfg, impl.ts_string(1600000000000000, 0), "B1", "E0", "H0", "E0", "H0", impl.dec_of_units(hist.U),
                                     impl.dec_of_units(hist.U), impl.dec_of_units(hist.U), transaction_type=ty, row=1)     # pylint: disable=unexpected-keyword-arg
                res.append((ty, table, "ok"))
            except Exception as exc:  # noqa: BLE001
                res.append((ty, table, "err:" + impl.err_kind(exc)))
    return res


def ctor_model_lines():
    lines = []
    for ty in hist.TT:
        for table in ("in", "out"):
            c = {"sched": [[1970, "fifo"]], "ins": [], "outs": [], "intras": []}
            if table == "in":
                c["ins"] = [{"row": 1, "ts": [1600000000000000, 0], "exch": 0, "holder": 0, "type": ty, "spot": hist.U, "crypto_in": hist.U}]
            else:
                fee = ty == "FEE"
                c["ins"] = [{"row": 1, "ts": [1500000000000000, 0], "exch": 0, "holder": 0, "type": "BUY", "spot": hist.U, "crypto_in": 5 * hist.U}]
                c["outs"] = [{"row": 2, "ts": [1600000000000000, 0], "exch": 0, "holder": 0, "type": ty, "spot": hist.U,
                              "crypto_out_no_fee": 0 if fee else hist.U, "crypto_fee": hist.U if fee else 0}]
            lines.append(hist.line(13, hist.encode_hist(c)))
    return lines


def parse_cli_args(args):
    o = {"m": None, "f": None, "t": None, "a": None, "bad_date": False}
    from datetime import date
    i = 0
    while i < len(args):
        k, v = args[i], args[i + 1]
        if k in ("-f", "-t"):
            try:
                o[k[1]] = (date.fromisoformat(v) - date(1970, 1, 1)).days
            except ValueError:
                o["bad_date"] = True
        else:
            o[k[1]] = v
        i += 2
    return o


def options_model_line(country, args, secs):
    o = parse_cli_args(args)
    a = [l1.CCODE[country], 1 if o["m"] is not None else 0] + l1.enc_str(o["m"] or "")
    a += [o["f"] if o["f"] is not None else 0, o["t"] if o["t"] is not None else 2932896, 1 if o["a"] is not None else 0] + l1.enc_str(o["a"] or "")
    a += l1.encode_sections(secs)
    return hist.line(43, a), o


def run(tier, build, replay=None):
    out = core.Outcome("C12", tier)
    proofs = core.check_proofs(build, "C12.v")
    rng = core.Rng(core.seed(), 12)
    quick = tier == "quick"
    bases = []
    items = []      # (base index, fault)
    if replay:
        bases = [replay["base"]]
        items = [(0, replay["fault"])]
    else:
        for f in sorted(glob.glob(os.path.join(core.VERIF, "corpus", "C12", "*.json")) + glob.glob(os.path.join(core.VERIF, "findings", "C12-*.json"))):
            c = json.load(open(f))["case"]
            bases.append(c["base"])
            items.append((len(bases) - 1, c["fault"]))
        ncorp = len(bases)
        nsmall, nrand = (9, 0) if quick else (60, 40)
        if str(build.translator.get("parser", "")).startswith("fallback"):
            nsmall *= 2          # the parser fragment was not recognised: the model runs on the accepted tables, boost the stream
        for k in range(nsmall):
            bases.append(l1faults.small_base(rng, k, full_layout=(k % 3 != 2)))
        for k in range(nrand):
            bases.append(l1faults.random_base(rng, k))
        for bi in range(ncorp, len(bases)):
            items.append((bi, {"cls": "valid-base", "where": "", "ops": []}))
            for f in l1faults.faults_of(bases[bi], rng, exhaustive_types=True):
                items.append((bi, f))
    d = l1.workdir()
    try:
        results = core.pool_map(run_one, [(bases[bi], f, d, k) for k, (bi, f) in enumerate(items)], init=core.impl_env_setup)
    finally:
        shutil.rmtree(d, ignore_errors=True)
    lines, index = [], []
    for k, r in enumerate(results):
        if "harness_error" in r:
            continue
        for li, ln in enumerate(r["lines"]):
            if ln is not None:
                index.append((k, li))
                lines.append(ln)
        if r["secs"] is not None:
            index.append((k, "cfg"))
            lines.append(hist.line(42, l1.encode_sections(r["secs"])))
    mout = core.run_model(lines) if build.driver_ok else []
    per = {}
    for (k, li), mr in zip(index, mout):
        per.setdefault(k, {})[li] = mr
    classes, kinds, mism, valid_bases = {}, {}, 0, set()
    nontriv = set()
    for k, ((bi, f), r) in enumerate(zip(items, results)):
        case = {"base": bases[bi], "fault": f}
        cls = f["cls"]
        st = classes.setdefault(cls, {"injected": 0, "impl_rejected": 0, "model_rejected": 0, "library_rejected": 0, "cli_runs": 0})
        st["injected"] += 1
        if "harness_error" in r:
            out.violation(f"harness error while injecting {cls} at {f['where']}: {r['harness_error']}", case, tags={"harness"}, found_input=False)
            continue
        pm = per.get(k, {})
        rej, kind, msg = impl_verdict(r)
        mrej, mcode = model_verdict(r, [pm.get(li) for li in range(len(r["lines"]))], pm.get("cfg"))
        if cls == "valid-base":
            if rej:
                out.violation(f"harness: the fault-free base {bi} is rejected: {msg}", case, tags={"base-invalid"}, found_input=False)
            else:
                valid_bases.add(bi)
            if mrej:
                out.violation(f"model rejects the fault-free base {bi} (code {mcode})", case, tags={"correspondence"}, found_input=False)
            continue
        nontriv.add(core.case_hash([cls, f["where"], bases[bi]["k"], bases[bi]["lay"]]))
        if rej:
            st["impl_rejected"] += 1
        else:
            tags = {cls, "accepted-malformed-input"}
            if f.get("first_empty"):
                tags.add("repeated-table-after-empty-table")
            out.violation(f"{cls} at {f['where']} is accepted: parse_ods returns transactions instead of raising "
                          f"(table order {bases[bi].get('order')})", case, tags=tags)
        if mrej is None:
            st["library_rejected"] += 1
        else:
            if mrej:
                st["model_rejected"] += 1
            if mrej != rej:
                mism += 1
                out.violation(f"model/implementation disagree on {cls} at {f['where']}: implementation {'raises ' + str(kind) + ': ' + msg[:120] if rej else 'accepts'}, "
                              f"model {'Err ' + str(mcode) if mrej else 'Ok'}", case, tags={"correspondence"}, found_input=False)
            elif rej and mrej:
                kk = (kind, KIND_OF_CODE.get(mcode, mcode))
                kinds[str(kk)] = kinds.get(str(kk), 0) + 1
    # ---- constructors: 14 types x 3 tables
    ctor_stats = {}
    if not replay:
        core.impl_env_setup()
        cres = ctor_type_stream()
        mlines = ctor_model_lines()
        mc = core.run_model(mlines) if build.driver_ok else []
        mi = 0
        for ty, table, verdict in cres:
            allowed = (table == "in" and ty in l1faults.IN_TYPES) or (table == "out" and ty in l1faults.OUT_TYPES)
            if table == "intra":
                allowed = False       # a transfer has no transaction type to give: any attempt to pass one must fail
            ctor_stats[f"{table}:{ty}"] = verdict
            if allowed and verdict != "ok":
                out.violation(f"{ty} is documented for the {table.upper()} table but the constructor raises", {"type": ty, "table": table}, tags={"type-table"})
            if not allowed and verdict == "ok":
                out.violation(f"transaction type {ty} is not allowed in the {table.upper()} table but the constructor accepts it",
                              {"type": ty, "table": table}, tags={"type-not-allowed", "accepted-malformed-input"})
            if table != "intra" and mc:
                mok = mc[mi][0] == 0
                mi += 1
                if mok != (verdict == "ok"):
                    mism += 1
                    out.violation(f"model/implementation disagree on type {ty} in table {table}: impl {verdict}, model {'ok' if mok else 'err'}",
                                  {"type": ty, "table": table}, tags={"correspondence"}, found_input=False)
    # ---- command line: sample per class, every option fault, valid bases
    cli_jobs, cli_meta = [], []
    if replay:
        f = replay["fault"]
        cli_jobs.append((bases[0], f, f.get("country", "us")))
        cli_meta.append((0, f, "fault"))
    else:
        per_cls = 2 if quick else 8
        small = [bi for bi in sorted(valid_bases) if not bases[bi].get("random")]
        seen = {}
        rot = 0
        for k, ((bi, f), r) in enumerate(zip(items, results)):
            if f["cls"] == "valid-base" or bi not in small:
                continue
            n = seen.get(f["cls"], 0)
            # spread the sample over bases and positions: take every (stride)-th occurrence
            occ = seen.setdefault("occ:" + f["cls"], 0)
            seen["occ:" + f["cls"]] = occ + 1
            if n >= per_cls or occ % 7 != (0 if n == 0 else 3):
                continue
            seen[f["cls"]] = n + 1
            for country in {"us", l1.COUNTRIES[1 + rot % 4]}:
                cli_jobs.append((bases[bi], f, country))
                cli_meta.append((bi, f, "fault"))
            rot += 1
        for bi in small[:2]:
            for country in l1.COUNTRIES:
                cli_jobs.append((bases[bi], {"cls": "valid-base", "where": country, "ops": []}, country))
                cli_meta.append((bi, {"cls": "valid-base", "where": country, "ops": []}, "valid"))
        if small:
            b0 = bases[small[0]]
            for f in l1faults.option_faults(b0):
                cli_jobs.append((b0, f, f["country"]))
                cli_meta.append((small[0], f, "option"))
    cres = core.pool_map(cli_one, cli_jobs, init=core.impl_env_setup) if cli_jobs else []
    # the option model
    opt_lines, opt_idx = [], []
    for j, ((b, f, country), (bi, _, what)) in enumerate(zip(cli_jobs, cli_meta)):
        if what in ("option", "valid"):
            a = l1faults.apply(b, f)
            secs = l1.tokenise_ini(a["ini"])
            o = parse_cli_args(a["args"])
            if secs is not None and not o["bad_date"]:
                ln, _ = options_model_line(country, a["args"], secs)
                opt_lines.append(ln)
                opt_idx.append(j)
    opt_model = dict(zip(opt_idx, core.run_model(opt_lines))) if (opt_lines and build.driver_ok) else {}
    cli_countries = {}
    for j, ((b, f, country), (bi, _, what), r) in enumerate(zip(cli_jobs, cli_meta, cres)):
        case = {"base": b, "fault": dict(f, country=country)}
        cli_countries[country] = cli_countries.get(country, 0) + 1
        reports = [x for x in r["files"] if x.endswith(".ods")]
        if what == "valid":
            if r["rc"] != 0 or not reports:
                out.violation(f"harness: fault-free base does not run to completion under rp2_{country} (exit {r['rc']}): {r['text'][-300:]}", case,
                              tags={"base-invalid"}, found_input=False)
            if j in opt_model and opt_model[j][0] != 0:
                out.violation(f"option model rejects a default run of rp2_{country}", case, tags={"correspondence"}, found_input=False)
            continue
        st = classes.setdefault(f["cls"], {"injected": 0, "impl_rejected": 0, "model_rejected": 0, "library_rejected": 0, "cli_runs": 0})
        st["cli_runs"] += 1
        if what == "option":
            st["injected"] += 1
            nontriv.add(core.case_hash([f["cls"], f["where"]]))
        text = (r["text"] + r["log"]).strip()
        bad = []
        if r["rc"] == 0:
            bad.append("exit status 0")
        if reports:
            bad.append(f"report files written: {reports}")
        if r["rc"] != 0 and not text:
            bad.append("no error message")
        if bad:
            out.violation(f"rp2_{country} with {f['cls']} at {f['where']}: " + ", ".join(bad) + f" (exit {r['rc']}; output tail: {r['text'][-200:]!r})",
                          case, tags={f["cls"], "cli", "accepted-malformed-input" if r["rc"] == 0 else "report-written"})
        elif what == "option":
            st["impl_rejected"] += 1
        if what == "option" and j in opt_model:
            mcode = opt_model[j][0]
            if mcode != 0:
                st["model_rejected"] += 1
            if mcode != r["rc"]:
                mism += 1
                out.violation(f"option model and rp2_{country} disagree on {f['cls']} ({f['where']}): exit {r['rc']}, model {mcode}", case,
                              tags={"correspondence"}, found_input=False)
    core.proofs_verdict(out, proofs, build, "C12.v")
    out.coverage.update({
        "evaluations": len(items) + len(cli_jobs) + len(ctor_stats),
        "distinct_nontrivial": len(nontriv),
        "rule": "one fault per run, every class of the property text at every row / field / table / section position of small valid inputs "
                "(real .ini/.ods files; 6 table orders; full and partial column maps); non-trivial = distinct (class, position, base)",
        "samples": [{"cls": f["cls"], "where": f["where"], "ops": [list(map(str, op))[:4] for op in f["ops"]][:2]} for _, f in items[1:4]],
        "traces_validated_against_impl": len(items),
        "correspondence_mismatches": mism,
        "fault_classes": classes,
        "error_kind_pairs(impl,model)": kinds,
        "cli_runs": len(cli_jobs),
        "cli_countries": cli_countries,
        "constructor_type_table": ctor_stats,
        "bases": len(bases),
    })
    out.assumptions = [
        "python-dateutil decides whether a timestamp string carries a time zone (library); the model receives its verdict",
        "configparser / json / jsonschema reject files they cannot tokenise before RP2's own checks run (counted as library_rejected)",
        "argparse enforces the per-country choices of -m and the date format of -f/-t (exit status 2)",
        "an empty optional cell is not a fault; STAKING acquisitions may be non-positive; fee-typed disposals need no spot price; "
        "a transfer needs a spot price only when sent != received",
    ]
    return out.finish(proofs, build)
