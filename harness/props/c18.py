"""C18 -- no network, no subprocess, writes confined to the output and log directories.

Static half: theorems over the import table / call-site table regenerated from every *.py under
src/rp2 (Properties/C18.v); this module re-derives the verdict of every table entry in Python from the
same policy lists, so that a broken obligation comes with the offending module, line and call, and
cross-checks those verdicts with the extracted Coq checkers (cmd 92 / 94).

Dynamic half: every run of the L6 matrix (valid inputs, all five entry points) plus a stream of
invalid inputs executes under the audit hook of harness/audit/sitecustomize.py.  Required: no
network / process event; every path written, created, renamed or removed lies in the output directory
or in ./log of the working directory and belongs to the model's write set; input spreadsheet and
configuration byte-identical afterwards (SHA-256); independent before/after snapshot of the whole
temp tree.  A self-test proves that the hook fires.  PARTIAL: C extensions that bypass audit events are
not observed (the file-system snapshot still sees what they would write under the temp tree)."""
import os
import re

from harness import core, l6
from harness.props import c16
from harness.translate import frag_l6, policy_l6

NET_BASELINE = {"_socket", "select", "selectors", "socket", "urllib", "urllib.parse"}
FS_EVENTS = {"open-write", "os.remove", "os.rename", "os.mkdir", "os.rmdir", "os.truncate", "os.chmod", "os.chown", "os.link",
             "os.symlink", "os.utime", "os.mkfifo", "os.mknod"}
IGNORED_EVENTS = {"hook-installed", "modules", "os.putenv", "os.unsetenv", "os.chdir"}


# ----------------------------------------------------------------------------- static half
def top_level(m):
    return m.split(".")[0]


def import_ok(m, name):
    t = top_level(m)
    if t not in policy_l6.ALLOWED_TOPLEVEL or t in policy_l6.DENIED_TOPLEVEL:
        return False
    if any(m.startswith(d) for d in policy_l6.DENIED_DOTTED):
        return False
    if any(m == dm and name.startswith(dn) for dm, dn in policy_l6.DENIED_NAMES):
        return False
    return True


def read_only_mode(mode):
    return mode != "" and all(ch in "rbt" for ch in mode)


def is_write_site(st):
    return st["kind"] in ("fsmod", "libwrite") or (st["kind"] == "open" and not read_only_mode(st["mode"]))


def site_matches(rel, st, a):
    m, c, p, _ = a
    return rel == m and st["callee"] == c and (p == "" or st["prefix"].startswith(p))


def static_findings(repo):
    """-> (list of violations [(what, case, tags)], per-item verdicts for the cross-check with the Coq checkers)"""
    table = frag_l6.scan_imports(repo)
    bad = []
    mod_ok, site_verdicts = [], []
    for rel, (imports, sites) in table.items():
        ok = True
        seen = []
        for m, nm in imports:
            if (m, nm) in seen:
                continue
            seen.append((m, nm))
            if not import_ok(m, nm):
                ok = False
                what = f"src/rp2/{rel} imports `{m}`" + (f" (name `{nm}`)" if nm else "") + ": not on the allow-list of modules that can neither reach the network nor start a process"
                if top_level(m) in policy_l6.DENIED_TOPLEVEL or any(m.startswith(d) for d in policy_l6.DENIED_DOTTED):
                    what = f"src/rp2/{rel} imports the networking / process / foreign-code facility `{m}`" + (f" (name `{nm}`)" if nm else "")
                bad.append((what, {"static": "import", "module": rel, "imports": m, "name": nm}, {"static-import", f"import={top_level(m)}"}))
        mod_ok.append((rel, ok))
        for st in sites:
            dyn_ok = st["kind"] != "dynimport" or st["prefix"].startswith(policy_l6.PLUGIN_PREFIX)
            exec_ok = st["kind"] not in ("exec", "process", "network")
            w_ok = (not is_write_site(st)) or any(site_matches(rel, st, a) for a in policy_l6.MODELLED_WRITE_SITES)
            site_verdicts.append((dyn_ok, exec_ok, w_ok))
            loc = f"src/rp2/{rel}:{st['line']} ({st['func']}): {st['callee']}({st['arg']})"
            case = {"static": "call-site", "module": rel, "line": st["line"], "callee": st["callee"], "arg": st["arg"], "mode": st["mode"]}
            if not dyn_ok:
                bad.append((f"dynamic import without the constant prefix `{policy_l6.PLUGIN_PREFIX}`: {loc} (known prefix `{st['prefix']}`)",
                            case, {"static-dynamic-import"}))
            if not exec_ok:
                bad.append((f"{st['kind']} facility called: {loc}", case, {"static-" + st["kind"]}))
            if not w_ok:
                bad.append((f"file-modifying call site that is not one of the modelled ones (log handler, output directory, report file): {loc}"
                            + (f" mode `{st['mode']}`" if st["mode"] else ""), case, {"static-write-site"}))
    # each modelled site at most once
    for a in policy_l6.MODELLED_WRITE_SITES:
        n = sum(1 for rel, (_, sites) in table.items() for st in sites if is_write_site(st) and site_matches(rel, st, a))
        if n > 1:
            bad.append((f"{n} call sites match the modelled write site {a[:3]} ({a[3]}); exactly one is modelled", {"static": "dup-site", "site": a[:3]},
                        {"static-write-site"}))
    return bad, mod_ok, site_verdicts, table


# ----------------------------------------------------------------------------- dynamic half
def json_config(ini):
    """the same configuration in the deprecated JSON format (rejected with a pointer to rp2_config, after schema validation:
    every header column entry goes through the JSON schema)"""
    import configparser
    import json
    cp = configparser.ConfigParser()
    cp.read_string(ini)
    d = {}
    for sec in cp.sections():
        if sec.endswith("_header"):
            d[sec] = {k: int(v) for k, v in cp[sec].items()}
        elif sec == "general":
            for k, v in cp[sec].items():
                d[k] = [x.strip() for x in v.split(",")]
    return json.dumps(d, indent=1)


def invalid_jobs(tier, mm):
    """runs on invalid inputs: the confinement must hold on every error path too"""
    rng = core.Rng(core.seed(), 18)
    jobs = []
    n = 1 if tier == "quick" else 4
    for c in l6.COUNTRIES:
        lang = mm[c]["langs"][0]
        for _ in range(n):
            inp = l6.gen_input(rng, rng.choice(l6.SHAPES))
            base = {"country": c, "opts": {"lang": lang}, "inp": inp, "audit": True, "hashseed": 0, "supported": False}
            jobs.append(dict(base, kind="inv-corrupt-ods", corrupt_ods=True))
            jobs.append(dict(base, kind="inv-bad-ini-section", ini_text=l6.ini_text(inp) + "\n[bogus]\nx = 1\n"))
            jobs.append(dict(base, kind="inv-json-config", ini_text='{"assets": ["BTC"]}'))
            jobs.append(dict(base, kind="inv-json-config-full", ini_text=json_config(l6.ini_text(inp))))
            jobs.append(dict(base, kind="inv-unknown-holder", ini_text=l6.ini_text(inp, holders=["Nobody"])))
            jobs.append(dict(base, kind="inv-missing-sheet", ini_text=l6.ini_text(inp, assets=[a["asset"] for a in inp["assets"]] + ["DOGE"])))
            jobs.append(dict(base, kind="inv-unknown-asset-option", opts={"lang": lang, "asset": "NOPE"}))
            jobs.append(dict(base, kind="inv-bad-date", opts={"lang": lang, "extra": ["-f", "2021-13-45"]}))
            jobs.append(dict(base, kind="inv-unknown-option", opts={"lang": lang, "extra": ["--frobnicate"]}))
            jobs.append(dict(base, kind="inv-version", opts={"extra": ["-v"]}))
            jobs.append(dict(base, kind="inv-help", opts={"extra": ["-h"]}))
            # failures that are not RP2Errors: configparser rejects the file before rp2 validates anything
            good = l6.ini_text(inp)
            jobs.append(dict(base, kind="inv-ini-duplicate-section", ini_text=good + "\n[in_header]\ntimestamp = 0\n"))
            jobs.append(dict(base, kind="inv-ini-duplicate-option", ini_text=good.replace("[general]\n", "[general]\nassets = BTC\n", 1)))
            jobs.append(dict(base, kind="inv-ini-no-section-header", ini_text="assets = BTC\n" + good))
            jobs.append(dict(base, kind="inv-ini-garbage-line", ini_text=good + "\nthis line is neither a section nor an option\n"))
            jobs.append(dict(base, kind="inv-ods-not-spreadsheet", ods_text=True))
            bad = negative_amount(inp)
            jobs.append(dict(base, kind="inv-negative-amount", inp=bad))
            jobs.append(dict(base, kind="inv-overdrawn", inp=c16.overdrawn_input()))
    return jobs


def env_jobs(tier, mm):
    """runs with the environment variables rp2 reads (developer switches): RP2_ENABLE_PROFILER, LOG_LEVEL -- valid and invalid input"""
    rng = core.Rng(core.seed(), 181)
    jobs = []
    for c in l6.COUNTRIES:
        lang = mm[c]["langs"][0]
        for env in ({"RP2_ENABLE_PROFILER": "1"}, {"LOG_LEVEL": "DEBUG"}, {"RP2_ENABLE_PROFILER": "1", "LOG_LEVEL": "DEBUG"}):
            inp = l6.gen_input(rng, rng.choice(l6.SHAPES))
            base = {"country": c, "opts": {"lang": lang}, "inp": inp, "audit": True, "hashseed": 0, "supported": True, "env": env,
                    "kind": "env-" + "+".join(sorted(env))}
            if rng.chance(40):
                base["opts"]["outdir"] = "default"
            jobs.append(base)
            if tier != "quick" or "RP2_ENABLE_PROFILER" in env:
                jobs.append(dict(base, kind=base["kind"] + "-invalid", supported=False, ini_text=l6.ini_text(inp, holders=["Nobody"])))
    # an input spreadsheet of more than 1 MiB / 8 MiB (buffers that spill to disk only beyond a size): one country per run in the
    # quick tier, all in the thorough tier
    for k, c in enumerate(l6.COUNTRIES):
        if tier == "quick" and k != core.seed() % len(l6.COUNTRIES):
            continue
        inp = l6.gen_input(rng, rng.choice(l6.SHAPES))
        jobs.append({"country": c, "opts": {"lang": mm[c]["langs"][0]}, "inp": inp, "audit": True, "hashseed": 0, "supported": True,
                     "bulk": 1_300_000 if tier == "quick" or k % 2 else 9_000_000, "kind": "big-input"})
    return jobs


def negative_amount(inp):
    import copy
    bad = copy.deepcopy(inp)
    bad["assets"][0]["ins"][0]["crypto_in"] = -bad["assets"][0]["ins"][0]["crypto_in"]
    return bad


SELFTEST = [
    ("socket", "import socket\ns = socket.socket()\ntry:\n    s.connect(('127.0.0.1', 9))\nexcept OSError:\n    pass\n", "network"),
    ("resolve", "import socket\ntry:\n    socket.getaddrinfo('localhost', 80)\nexcept OSError:\n    pass\n", "network"),
    ("subprocess", "import subprocess\nsubprocess.run(['/bin/true'])\n", "process"),
    ("os.system", "import os\nos.system('true')\n", "process"),
    ("fork", "import os\npid = os.fork()\nif pid == 0:\n    os._exit(0)\nos.waitpid(pid, 0)\n", "process"),
    ("write-next-to-input", "import sys\nopen(sys.argv[-1] + '.bak', 'w').write('x')\n", "write-outside"),
    ("modify-input", "import sys\nopen(sys.argv[-1], 'ab').write(b'x')\n", "write-outside"),
    ("remove-config", "import os, sys\nos.remove(sys.argv[-2])\n", "write-outside"),
    ("mkdir-elsewhere", "import os\nos.mkdir('elsewhere')\n", "write-outside"),
    ("os.open-create", "import os\nfd = os.open('stray.bin', os.O_WRONLY | os.O_CREAT)\nos.close(fd)\n", "write-outside"),
    ("pathlib-write", "import pathlib, sys\npathlib.Path(sys.argv[-2]).with_suffix('.copy').write_text('x')\n", "write-outside"),
    ("rename-into-log", "import os\nos.makedirs('log', exist_ok=True)\nopen('log/rp2_x.log', 'w').close()\nos.rename('log/rp2_x.log', 'moved.log')\n", "write-outside"),
    ("urllib-module", "import urllib.request\n", "module"),
    ("clean", "import os\nos.makedirs('log', exist_ok=True)\nopen('log/rp2_1.log', 'a').write('x')\n", None),
]


def selftest_jobs():
    inp = c16.many_holders(1)
    return [{"country": "us", "opts": {}, "inp": inp, "audit": True, "hashseed": 0, "kind": "selftest-" + name, "code": code, "expect": exp}
            for name, code, exp in SELFTEST]


def inside(path, root):
    return path == root or path.startswith(root + "/")


def judge(job, res, model_paths):
    """-> list of (class, text): class in network / process / write-outside / write-unmodelled / input-changed / no-audit / module"""
    bad = []
    outdir = "$T/cwd/output" if job["opts"].get("outdir") == "default" else "$T/cwd/out"
    logdir = "$T/cwd/log"
    audit = res.get("audit")
    if not audit or audit[0].get("ev") != "hook-installed":
        return [("no-audit", "the audit hook left no trail: the run was not observed")]
    allowed_names = None
    if model_paths is not None:
        allowed_names = {p[len("out/"):] for p in model_paths if p.startswith("out/")}
    tmp_files = set()
    renamed_to = {}
    for e in audit:
        ev, a = e["ev"], e.get("args", [])
        if ev in IGNORED_EVENTS:
            if ev == "modules":
                extra = sorted(set(a[1]) - NET_BASELINE)
                if extra:
                    bad.append(("module", f"network / process capable modules loaded at run time beyond the baseline {sorted(NET_BASELINE)}: {extra}"))
            continue
        if ev.startswith(("socket.", "ssl.", "urllib.", "http.", "ftplib.", "smtplib.", "poplib.", "imaplib.", "nntplib.", "telnetlib.", "webbrowser.")):
            bad.append(("network", f"network event {ev}{tuple(a)[:3]}"))
            continue
        if ev.startswith(("subprocess.", "os.exec", "os.posix_spawn", "os.spawn", "os.fork", "pty.", "ctypes.")) or ev in ("os.system", "os.kill", "os.killpg", "os.startfile"):
            bad.append(("process", f"process / foreign-code event {ev}{tuple(a)[:2]}"))
            continue
        paths = []
        if ev in FS_EVENTS:
            paths = [a[0]] + ([a[1]] if ev in ("os.rename", "os.link", "os.symlink") else [])
        elif ev.startswith(("shutil.", "tempfile.")):
            bad.append(("write-outside", f"{ev}{tuple(a)[:2]}: file-system facility outside the modelled write sites"))
            continue
        else:
            continue
        for p in paths:
            if not isinstance(p, str):
                bad.append(("write-outside", f"{ev} on a non-path object {p!r}"))
                continue
            if not (inside(p, outdir) or inside(p, logdir)):
                bad.append(("write-outside", f"{ev} touches {p}, outside the output directory {outdir} and {logdir}"))
                continue
            # inside the allowed directories: must be the log file, the directories themselves, or a report of the write set
            if p in (outdir, logdir):
                continue
            rel = p[len(logdir) + 1:] if inside(p, logdir) else p[len(outdir) + 1:]
            if inside(p, logdir):
                if not re.fullmatch(r"rp2_[0-9_]+\.log", rel):
                    bad.append(("write-unmodelled", f"{ev} touches {p}: not the log file ./log/rp2_<timestamp>.log"))
                continue
            if re.fullmatch(r"[A-Za-z0-9_]{6,12}\.tmp", rel):
                tmp_files.add(rel)       # ezodf saves through <random>.tmp in the target directory, then renames
                if ev == "os.rename" and p == a[0]:
                    renamed_to[rel] = a[1]
                continue
            if allowed_names is not None and rel not in allowed_names:
                bad.append(("write-unmodelled", f"{ev} touches {p}: not in the model's write set {sorted(allowed_names)}"))
    for t in sorted(tmp_files):
        if t not in renamed_to:
            bad.append(("write-unmodelled", f"temporary file {outdir}/{t} was written but never renamed to a report"))
    # independent of the hook: before/after snapshot of the whole temp tree and SHA-256 of input and config
    if not res.get("sha_same"):
        bad.append(("input-changed", "the input spreadsheet or the configuration file changed (SHA-256 differs or file removed)"))
    for what, p in res.get("changed", []):
        q = "$T/" + p.rstrip("/")
        if not (inside(q, outdir) or inside(q, logdir)):
            bad.append(("write-outside", f"file system snapshot: {what} {q}"))
    return bad


def model_write_sets(jobs, results):
    """rendered write set of the model per job (paths relative to cwd: log/..., out/...)"""
    lines = []
    for j, r in zip(jobs, results):
        stamp = "S"
        lines.append(c16.model_line(j, cmd=91, extra=c16.enc_str(stamp) + c16.enc_str("out")))
    out = []
    for res in core.run_model(lines):
        if res[0] < 0:
            out.append(None)
            continue
        paths, _ = c16.dec_strs(res, 0)
        out.append(paths)
    return out


def run(tier, build, replay=None):
    out = core.Outcome("C18", tier)
    proofs = core.check_proofs(build, "C18.v")
    # ---- static half
    sbad, mod_ok, site_verdicts, table = static_findings(core.REPO)
    for what, case, tags in sbad:
        out.violation(what, case, tags=tags)
    verdicts = core.run_model(["92", "94"])
    names = ["imports_ok", "dynamic_imports_confined", "no_exec_process_network", "write_sites_modelled", "write_sites_unique",
             "scripts_cover_countries"]
    coq_static = dict(zip(names, verdicts[0]))
    py_static = {"imports_ok": all(ok for _, ok in mod_ok), "dynamic_imports_confined": all(v[0] for v in site_verdicts),
                 "no_exec_process_network": all(v[1] for v in site_verdicts), "write_sites_modelled": all(v[2] for v in site_verdicts)}
    for k, v in py_static.items():
        if bool(coq_static.get(k)) != v:
            out.violation(f"static checker {k}: Coq says {coq_static.get(k)}, the harness's re-derivation says {v}", {"static": k},
                          tags={"correspondence"}, found_input=False)
    if not coq_static.get("scripts_cover_countries") or not coq_static.get("write_sites_unique"):
        out.violation(f"static tables: {coq_static}", {"static": "tables"}, tags={"static-tables"}, found_input=False)
    n_imports = sum(len(set(i)) for _, (i, _) in table.items())
    n_sites = sum(len(s) for _, (_, s) in table.items())
    # ---- dynamic half
    mm = c16.model_matrix(build)
    if replay:
        if replay.get("static"):
            jobs, results = [], []
        else:
            jobs = [replay]
            results = l6.run_jobs(jobs)
        st_jobs, st_results = [], []
    else:
        jobs, results = l6.matrix_runs(tier, lambda: c16.corpus_jobs() + c16.build_jobs(tier, mm))
        if tier == "quick":
            # the matrix is shared with C16/C17; judge a seed-dependent half of it plus everything that is not a plain matrix run
            keep = [i for i, j in enumerate(jobs) if j.get("kind") != "matrix" or (i + core.seed()) % 2 == 0]
            jobs, results = [jobs[i] for i in keep], [results[i] for i in keep]
        inv = invalid_jobs(tier, mm) + env_jobs(tier, mm)
        jobs = jobs + inv
        results = results + l6.run_jobs(inv)
        # runs into an output directory that already holds symbolic links named like the reports and pointing outside it: the names
        # are those a successful run of the same job has just written
        link_jobs = []
        seen_c = set()
        for j, r in zip(jobs, results):
            names = sorted(n for n, v in (r.get("files") or {}).items() if n.endswith(".ods") and not (v or {}).get("stale"))
            if j.get("kind") == "matrix" and r.get("rc") == 0 and names and j["country"] not in seen_c and not j.get("pre") \
                    and j["opts"].get("outdir") != "default":
                seen_c.add(j["country"])
                if tier == "quick" and len(seen_c) > 2:
                    continue
                link_jobs.append(dict(j, kind="pre-existing-symlinks", audit=True,
                                      pre_links={n: ("existing" if k % 2 == 0 else "dangling") for k, n in enumerate(names)}))
        jobs = jobs + link_jobs
        results = results + l6.run_jobs(link_jobs)
        st_jobs = selftest_jobs()
        st_results = l6.run_jobs(st_jobs)
    wsets = model_write_sets(jobs, results) if jobs else []
    classes = {}
    entry_points, kinds = set(), {}
    n_events = 0
    for job, res, ws in zip(jobs, results, wsets):
        entry_points.add(job["country"])
        kinds[job.get("kind")] = kinds.get(job.get("kind"), 0) + 1
        n_events += len(res.get("audit") or [])
        for cls, text in judge(job, res, ws)[:3]:
            classes[cls] = classes.get(cls, 0) + 1
            out.violation(f"{c16.describe(job)} (exit {res['rc']}): {text}", job, tags={"dynamic-" + cls, f"country={job['country']}"})
    # ---- self-test: the hook and the judge must flag each planted event, and must not flag the clean script
    selftest = {}
    for job, res in zip(st_jobs, st_results):
        got = {cls for cls, _ in judge(job, res, None)}
        # scripts that touch the input legitimately trip several detectors; the expected class must be among them
        exp = job["expect"]
        ok = (exp in got) if exp else not got
        selftest[job["kind"]] = "flagged" if got else "clean"
        if not ok:
            out.violation(f"self-test {job['kind']}: expected the check to report `{exp}`, it reported {sorted(got)}: the dynamic half would pass vacuously",
                          {"selftest": job["kind"]}, tags={"selftest"}, found_input=False)
    core.proofs_verdict(out, proofs, build, "C18.v")
    out.coverage.update({
        "evaluations": len(jobs) + len(st_jobs) + n_imports + n_sites,
        "distinct_nontrivial": len({core.case_hash([j["country"], j["opts"], j.get("kind"), j["inp"]]) for j in jobs if j.get("kind") != "matrix" or j["opts"].get("from") or j["opts"].get("to")}),
        "rule": "static: every import statement and every watched call site of src/rp2 judged against the policy lists (Coq, by vm_compute over the "
                "regenerated tables; re-derived in Python for diagnostics).  dynamic: real subprocess runs of the five entry points under the audit "
                "hook (valid inputs of the L6 matrix + invalid inputs: corrupt ODS, bad sections, JSON config, unknown holder/asset, bad dates and "
                "options, -h/-v, negative amounts, overdrawn accounts, INI files configparser rejects (duplicate section / option, option before any "
                "section, garbage line); runs with RP2_ENABLE_PROFILER and LOG_LEVEL set); non-trivial = not a plain default-window matrix run",
        "samples": [{"cmd": c16.describe(j), "exit": r["rc"], "events": [e["ev"] for e in (r.get("audit") or [])][:12]} for j, r in list(zip(jobs, results))[:2]],
        "traces_validated_against_impl": len(jobs),
        "static": {"modules": len(table), "imports": n_imports, "call_sites": n_sites, "coq_checkers": coq_static},
        "dynamic": {"runs": len(jobs), "entry_points": sorted(entry_points), "audit_events": n_events, "kinds": kinds, "violation_classes": classes},
        "selftest": selftest,
    })
    out.assumptions = [
        "PARTIAL: the dynamic half observes PEP 578 audit events (socket.*, subprocess.Popen, os.system, os.exec*, os.posix_spawn, os.fork, open with a "
        "writing mode, os.remove/rename/mkdir/rmdir/..., shutil.*, tempfile.*); a C extension that bypasses them is not observed (what it would write "
        "below the temp tree is still seen by the before/after snapshot)",
        "network-capable modules loaded by the libraries themselves are tolerated narrowly: socket/_socket/select/selectors (pycountry -> importlib.metadata "
        "-> email.utils) and urllib.parse (pathlib); any other one is reported",
        "ezodf saves a document through `<random>.tmp` in the target directory followed by os.rename: such a file is accepted only inside the output "
        "directory and only if it is renamed to a member of the model's write set",
        "PYTHONDONTWRITEBYTECODE=1 for the runs (no __pycache__ writes into the source tree)",
        "rp2_config (rp2_configuration_translator) is not a country entry point: its open(..., 'w') of the .ini named on its command line is listed as a modelled site, it is not run",
    ]
    return out.finish(proofs, build)
