"""C04 -- proceeds, cost basis and gain of every fraction are arithmetically exact."""
from fractions import Fraction

from harness import core, hist, l2, l4, oracle

TOL = Fraction(1, 10 ** 27)


def rel_ok(got, want, scale=None):
    s = abs(want) if scale is None else scale
    return abs(got - want) <= TOL * s if s != 0 else got == want


def check_figures(case, dump):
    bad = []
    lots = {r["row"]: r for r in case["ins"]}
    ev_sum, lot_sum, lot_amt = {}, {}, {}
    for k, f in enumerate(dump["fractions"]):
        er = oracle.event_row(case, f["ev"], f["lot"] is None)
        if er is None:
            continue
        kind, r = er
        F = oracle.event_taxable_fiat(kind, r)
        A = oracle.event_total_amount(kind, r)
        want_p = F * f["amt"] / A
        got_p = oracle.frac_of_pair(f["proceeds"])
        if not rel_ok(got_p, want_p):
            bad.append(f"fraction {k} (event row {f['ev']}): proceeds {float(got_p)!r} differ from taxable fiat value x amount / total "
                       f"= {float(want_p)!r} (relative error {float(abs(got_p - want_p) / want_p) if want_p else 0:.3e})")
        want_c = Fraction(0)
        if f["lot"] is not None:
            l = lots[f["lot"]]
            want_c = oracle.in_cost_with_fee(l) * f["amt"] / l["crypto_in"]
            lot_sum[f["lot"]] = lot_sum.get(f["lot"], 0) + oracle.frac_of_pair(f["cost"])
            lot_amt[f["lot"]] = lot_amt.get(f["lot"], 0) + f["amt"]
        got_c = oracle.frac_of_pair(f["cost"])
        if not rel_ok(got_c, want_c):
            bad.append(f"fraction {k} (lot row {f['lot']}): cost basis {float(got_c)!r} differs from lot cost x amount / lot amount = {float(want_c)!r}")
        got_g = oracle.frac_of_pair(f["gain"])
        if not rel_ok(got_g, want_p - want_c, abs(want_p) + abs(want_c)):
            bad.append(f"fraction {k}: gain {float(got_g)!r} is not proceeds - cost basis = {float(want_p - want_c)!r}")
        ev_sum[f["ev"]] = ev_sum.get(f["ev"], 0) + got_p
    # reassembly
    done = {}
    for f in dump["fractions"]:
        done[f["ev"]] = done.get(f["ev"], 0) + f["amt"]
    for ev, s in ev_sum.items():
        er = oracle.event_row(case, ev, any(f["ev"] == ev and f["lot"] is None for f in dump["fractions"]))
        if er is None:
            continue
        kind, r = er
        if done[ev] == oracle.event_total_amount(kind, r):
            F = oracle.event_taxable_fiat(kind, r)
            if not rel_ok(s, F, abs(F) * 20):
                bad.append(f"event row {ev}: proceeds of its fractions add to {float(s)!r}, taxable fiat value is {float(F)!r}")
    for lot, s in lot_sum.items():
        if lot_amt[lot] == lots[lot]["crypto_in"]:
            C = oracle.in_cost_with_fee(lots[lot])
            if not rel_ok(s, C, abs(C) * 20):
                bad.append(f"lot row {lot} fully consumed: cost bases add to {float(s)!r}, lot cost is {float(C)!r}")
    return bad


def run(tier, build, replay=None):
    out = core.Outcome("C04", tier)
    proofs = core.check_proofs(build, "C04.v")
    if replay:
        core.impl_env_setup()
        i = hist.impl_compute(replay)
        base = {"cases": [replay], "impl": [i]}
        data = {"jobs": [], "impl": [], "model": [], "base": base}
        if "ok" in i:
            raw = core.run_model([l4.model_line(replay, i, None, None, True, i)])
            data = {"jobs": [[0, None, None]], "impl": [i], "model": [l4.decode_computed(raw[0], replay)], "base": base}
    else:
        data = l4.run(tier)
    base = data["base"]
    nontriv, nfr, mism = set(), 0, 0
    for c, i in zip(base["cases"], base["impl"]):
        if "ok" not in i:
            continue
        bad = check_figures(c, i["ok"])
        nfr += len(i["ok"]["fractions"])
        for b in bad[:1]:
            out.violation(b, c, tags={"figures"})
        if len(i["ok"]["fractions"]) >= 2 and any(r.get("fiat_out_no_fee") is not None or r.get("fiat_fee") is not None for r in c["outs"] + c["ins"]):
            nontriv.add(core.case_hash(c))
        elif len(i["ok"]["fractions"]) >= 3:
            nontriv.add(core.case_hash(c))
    # exact (31-digit) correspondence of every figure, including derived transaction fields
    for (idx, f, t), i, m in zip(data["jobs"], data["impl"], data["model"]):
        c = base["cases"][idx]
        if "ok" not in i or "err" in m:
            if ("ok" in i) != ("err" not in m):
                mism += 1
                out.violation(f"model {m.get('err')} vs implementation {i.get('err')}", {"case": c, "from": f, "to": t}, tags={"correspondence"}, found_input=False)
            continue
        fi = [(x["ev"], x["lot"], x["amt"], x["proceeds"], x["cost"], x["gain"], x["ev_pct"], x["lot_pct"]) for x in i["ok"]["fractions"]]
        fm = [(x["ev"], x["lot"], x["amt"], x["proceeds"], x["cost"], x["gain"], x["ev_pct"], x["lot_pct"]) for x in m["fractions"]]
        derived_i = ([x[4:] for x in i["ok"]["ins"]], [x[3:] for x in i["ok"]["outs"]], [x[2:] for x in i["ok"]["intras"]])
        derived_m = ([x[4:] for x in m["ins"]], [x[3:] for x in m["outs"]], [x[2:] for x in m["intras"]])
        if fi != fm or derived_i != derived_m:
            mism += 1
            d = next(((a, b) for a, b in zip(fi, fm) if a != b), (derived_i, derived_m))
            out.violation(f"a figure differs from the 31-digit model: impl {str(d[0])[:300]} / model {str(d[1])[:300]}",
                          {"case": c, "from": f, "to": t}, tags={"correspondence"}, found_input=False)
    core.proofs_verdict(out, proofs, build, "C04.v")
    out.coverage.update({
        "evaluations": nfr,
        "distinct_nontrivial": len(nontriv),
        "rule": "every fraction of every generated history is compared (a) with exact rational arithmetic from the raw rows (relative 1e-27, i.e. far "
                "below float precision) and (b) digit for digit with the 31-digit Coq decimal model; amounts 1e-11..1e9, prices 1e-8..1e7, optional "
                "exchange-supplied fiat columns; non-trivial = history with >= 3 fractions or supplied fiat values; evaluations = fractions checked",
        "samples": base["cases"][:2],
        "traces_validated_against_impl": len(data["jobs"]),
        "correspondence_mismatches": mism,
        "end_to_end_stream": hist.ods_stats(base["cases"]),
    })
    out.assumptions = ["CPython decimal (libmpdec) is modelled by Base/Dec.v (validated by the correspondence, accuracy proved in DecProofs.v)"]
    return out.finish(proofs, build)
