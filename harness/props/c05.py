"""C05 -- long-term vs short-term classification follows the holding period."""
from harness import core

DAY = 86400_000_000
COUNTRIES = ["us", "es", "jp", "ie", "generic"]
CCODE = {c: i for i, c in enumerate(COUNTRIES)}
MAXSIZE = 2 ** 63 - 1


def gen_cases(rng, n):
    cases = []
    offs = [h * 3600 for h in range(-12, 15)] + [19800, -34200, 20700]
    for k in range(n):
        country = COUNTRIES[k % 5]
        env = None
        if country == "generic":
            env = rng.choice([0, 1, 30, 364, 365, 366, 730, 1000, rng.range(0, 4000)])
        period = {"us": 365, "es": 365}.get(country, env if env is not None else rng.choice([365, 366, 730, 3650]))
        lot_us = rng.range(0, 4_000_000_000) * 1_000_000 + rng.choice([0, 0, 1, 999_999, rng.below(1_000_000)])
        style = rng.below(10)
        if style < 6:   # boundary-centred: exactly period days +/- small deltas
            delta = period * DAY + rng.choice([0, 0, -1, 1, -1_000_000, 1_000_000, -DAY, DAY, -DAY + 1, DAY - 1,
                                               -3600_000_000, 3600_000_000, rng.range(-2 * DAY, 2 * DAY)])
        elif style < 8:
            delta = rng.range(0, 3000) * DAY + rng.below(DAY)
        elif style == 8:  # far apart (JP/IE: still never long)
            delta = rng.range(3000, 2_900_000) * DAY
        else:
            delta = rng.below(DAY)
        if delta < 0:
            delta = 0
        ev_us = lot_us + delta
        cap = (253_402_300_000 - 15 * 3600) * 1_000_000     # local time (offset up to +14 h) must stay inside year 9999
        if ev_us > cap:
            ev_us = cap - rng.below(DAY)
            if ev_us < lot_us:
                lot_us = ev_us
        earn = rng.chance(8)
        cases.append({"country": country, "env": env, "earn": earn,
                      "ev": [ev_us, rng.choice(offs)], "lot": [lot_us, rng.choice(offs)]})
    return cases


def impl_one(case):
    from harness import impl
    try:
        country = impl.country_obj(case["country"], case["env"])
        cfg = impl.make_config(country, ["B1"], ["E0"], ["H0"])
        ex, ho = ["E0"], ["H0"]
        if case["earn"]:
            ev = impl.mk_in(cfg, "B1", ex, ho, {"row": 2, "ts": case["ev"], "exch": 0, "holder": 0, "type": "INTEREST",
                                                "spot": 10 ** 11, "crypto_in": 10 ** 11})
            lot = None
        else:
            ev = impl.mk_out(cfg, "B1", ex, ho, {"row": 2, "ts": case["ev"], "exch": 0, "holder": 0, "type": "SELL",
                                                 "spot": 10 ** 11, "crypto_out_no_fee": 10 ** 11, "crypto_fee": 0})
            lot = impl.mk_in(cfg, "B1", ex, ho, {"row": 1, "ts": case["lot"], "exch": 0, "holder": 0, "type": "BUY",
                                                 "spot": 10 ** 11, "crypto_in": 10 ** 11})
        from rp2.gain_loss import GainLoss
        gl = GainLoss(cfg, impl.dec_of_units(10 ** 11), ev, lot)
        return [1 if gl.is_long_term_capital_gains() else 0, country.get_long_term_capital_gain_period()]
    except Exception as exc:  # noqa: BLE001
        return ["err", impl.err_kind(exc), str(exc)[:200]]


def expected(case):
    """what the property text demands, computed independently of rp2 and of the model"""
    if case["earn"]:
        return 0
    c = case["country"]
    if c in ("jp", "ie"):
        return 0
    period = 365 if c in ("us", "es") else case["env"]
    return 1 if (case["ev"][0] - case["lot"][0]) // DAY >= period else 0


ENV_STREAM = ["365", "0", "1", "-1", "-365", "abc", "", "1.5", "1e3", " 42 ", "+7", "00012", "9999999"]
# literal forms of CPython's int(): sign, C white space, single underscores between digits, no base prefix / exponent, the
# digit limit of sys.get_int_max_str_digits() (4300: underscores and sign do not count, leading zeros do), and the three
# non-ASCII values (other scripts' digits, no-break space) that the ASCII-only model does not cover
ENV_EXTRA = ["+7", " 42 ", "1_000", "1__0", "\u0663", "0x10", "1e3", "-0", "_1", "1_", "+ 1", "- 1", "1 2", " ", "\t42\n", "\x1c42", "42\x1f",
             "\x0b7\x0c", "\uff14\uff12", "1\xa0", "--1", "+-1", "+", "-", "0_0", "-0_0", "+00", "1_2_3", "12a", "a12", "0b1", "0o7", "1,000",
             "1.0", ".5", "1e0", "inf", "nan", "True", "None", "9" * 4300, "9" * 4301, "0" * 4400 + "1", "-" + "9" * 4300,
             "1_" * 4299 + "1", "1_" * 4300 + "1", " " * 50 + "365" + "\n" * 3]
UNSET = object()


def gen_env_strings(rng, n):
    """random short strings over the alphabet int() cares about; about half are well-formed literals with decoration"""
    out = []
    alpha = list("0123456789") * 3 + list("__+- \t\n") + list("e.xa\x1c\x0b")
    for _ in range(n):
        if rng.chance(50):
            digits = "".join(rng.choice("0123456789") for _ in range(rng.range(1, 6)))
            if rng.chance(30) and len(digits) > 1:
                k = rng.range(1, len(digits) - 1)
                digits = digits[:k] + rng.choice(["_", "_", "__", " "]) + digits[k:]
            s = rng.choice(["", "", "+", "-", " ", "\t"]) + rng.choice(["", "", "+", "-"]) + digits + rng.choice(["", "", " ", "\n", "_", "\x1d"])
        else:
            s = "".join(rng.choice(alpha) for _ in range(rng.range(1, 7)))
        out.append(s)
    return out


def is_ascii(s):
    return all(ord(ch) < 128 for ch in s)


def max_str_digits():
    import sys
    return getattr(sys, "get_int_max_str_digits", lambda: 0)()


def env_model_line(s):
    """driver cmd 4: [max_digits; set?; len; code points]"""
    if s is UNSET:
        return f"4 {max_str_digits()} 0 0"
    return f"4 {max_str_digits()} 1 {len(s)} " + " ".join(str(ord(ch)) for ch in s)


def impl_env(s):
    import os
    from harness import impl  # noqa: F401
    os.environ["CURRENCY_CODE"] = "usd"
    if s is UNSET:
        os.environ.pop("LONG_TERM_CAPITAL_GAINS", None)
    else:
        os.environ["LONG_TERM_CAPITAL_GAINS"] = s
    try:
        from rp2.plugin.country.generic import Generic
        return ["ok", Generic().get_long_term_capital_gain_period()]
    except Exception as exc:  # noqa: BLE001
        from harness.impl import err_kind
        return ["err", err_kind(exc)]
    finally:
        os.environ.pop("LONG_TERM_CAPITAL_GAINS", None)


def expected_env(s):
    if s is UNSET:
        return ["err", "value"]
    try:
        v = int(s)
    except ValueError:
        return ["err", "value"]
    if s == "" or v < 0:
        return ["err", "value"]
    return ["ok", v]


def summary_stage(out, tier, replay=None):
    """'each fraction is classified on its own' is also visible in the yearly summary: its LONG and SHORT lines must split
    a disposal that spans lots on both sides of the threshold.  The windowed runs of the L4 layer (shared, cached) are
    judged with flags recomputed here from the two instants of every fraction."""
    from harness import hist, l4, oracle
    from harness.props.c09 import dates_monotone
    if replay is not None:
        core.impl_env_setup()
        c0, f0, t0 = replay["case"], replay.get("from"), replay.get("to")
        data = {"jobs": [[0, f0, t0]], "impl": [hist.impl_compute(c0, from_day=f0, to_day=t0)],
                "base": {"cases": [c0], "impl": [hist.impl_compute(c0)]}}
    else:
        data = l4.run(tier)
    base = data["base"]
    n = 0
    models = data.get("model") or [None] * len(data["jobs"])
    for (idx, f, t), i, m in zip(data["jobs"], data["impl"], models):
        c = base["cases"][idx]
        b = base["impl"][idx]
        if "ok" not in i or "ok" not in b or c.get("country", "us") != "us":
            continue
        n += 1
        evs = {e["row"]: e for e in hist.taxable_oracle(c)}
        lots = {r["row"]: r for r in c["ins"]}
        fr = []
        bad = None
        for x in b["ok"]["fractions"]:
            if x["ev"] not in evs or (x["lot"] is not None and x["lot"] not in lots):
                bad = bad or (f"fraction (event row {x['ev']}, lot row {x['lot']}) names a row that is no taxable transaction / acquisition "
                              "of the input: its holding period cannot be that of two input timestamps")
                break
            flag = 0 if x["lot"] is None else (1 if (evs[x["ev"]]["ts"][0] - lots[x["lot"]]["ts"][0]) // DAY >= 365 else 0)
            if flag != x["long"] and bad is None:
                bad = f"fraction (event row {x['ev']}, lot row {x['lot']}) is flagged {x['long']}, the two instants give {flag}"
            y = dict(x)
            y["long"] = flag
            fr.append(y)
        rep = {"case": c, "from": f, "to": t}
        if bad:
            out.violation(bad, rep, tags={"fraction-flag"})
            continue
        if m is not None and c.get("via") == "ods":
            # end-to-end stream: the flags of the run from real files vs the Coq parser + pipeline on the same cells
            li = [(x["ev"], x["lot"], x["long"]) for x in i["ok"]["fractions"]]
            lm = [(x["ev"], x["lot"], x["long"]) for x in m.get("fractions", [])]
            if "err" in m or li != lm:
                out.violation(f"model and implementation disagree on the long / short flags of an end-to-end run: {str(li)[:200]} / "
                              f"{str(m.get('err', lm))[:200]}", rep, tags={"correspondence"}, found_input=False)
        if not dates_monotone(c):
            continue            # the to-date cut of such histories is finding F9 (reported by C06 / C10)
        want = {k: v[0] for k, v in oracle.yearly(c, fr, t, f).items()}
        got = {(y[0], y[1], y[2]): y[3] for y in i["ok"]["yearly"]}
        if want != got:
            diff = sorted(set(want) ^ set(got)) or [k for k in want if want[k] != got.get(k)]
            out.violation(f"yearly summary under window ({f}, {t}): the LONG / SHORT lines do not split the fractions by their own holding "
                          f"periods: lines {diff[:3]} (expected crypto amounts {[want.get(k) for k in diff[:3]]}, reported {[got.get(k) for k in diff[:3]]})",
                          rep, tags={"summary-long-short-split"})
    out.coverage["end_to_end_stream"] = hist.ods_stats(base["cases"])
    return n


def run(tier, build, replay=None):
    out = core.Outcome("C05", tier)
    proofs = core.check_proofs(build, "C05.v")
    if replay and "case" in replay and "ins" in replay["case"]:       # replay of a windowed run of the summary stage
        n = summary_stage(out, tier, replay)
        core.proofs_verdict(out, proofs, build, "C05.v")
        out.coverage.update({"evaluations": n, "distinct_nontrivial": n, "rule": "replay of a windowed run (summary split)"})
        return out.finish(proofs, build)
    rng = core.Rng(core.seed(), 5)
    n = 10000 if tier == "quick" else 120000
    cases = [replay] if replay else gen_cases(rng, n)
    impl_res = core.pool_map(impl_one, cases, init=core.impl_env_setup)
    lines = []
    for c in cases:
        env = c["env"] if c["env"] is not None else 0
        lines.append(f"1 {CCODE[c['country']]} {env} {0 if c['earn'] else 1} {c['ev'][0]} {c['ev'][1]} {c['lot'][0]} {c['lot'][1]}")
    model_res = core.run_model(lines)
    mism, nontrivial = 0, set()
    for c, ir, mr in zip(cases, impl_res, model_res):
        exp = expected(c)
        days = (c["ev"][0] - c["lot"][0]) // DAY
        if not c["earn"] and c["country"] not in ("jp", "ie"):
            period = 365 if c["country"] in ("us", "es") else c["env"]
            if abs(days - period) <= 1:
                nontrivial.add(core.case_hash(c))
        if ir[0] == "err":
            out.violation(f"implementation raised {ir[1]}: {ir[2]}", c, tags={"impl-error"})
            continue
        if ir[0] != exp:
            out.violation(f"is_long_term_capital_gains() = {ir[0]}, property demands {exp} (elapsed whole days {days})", c,
                          tags={"flag-wrong", c["country"]})
        elif ir[0] != mr[0] or (c["country"] != "generic" and ir[1] != mr[1]) or (c["country"] == "generic" and ir[1] != c["env"]):
            mism += 1
            out.violation(f"model/implementation disagree: impl {ir}, model {mr}", c, tags={"correspondence"}, found_input=False)
    # generic env parsing stream (finite, fixed)
    env_cases = (ENV_STREAM + [UNSET] + [x for x in ENV_EXTRA if x not in ENV_STREAM]
                 + gen_env_strings(core.Rng(core.seed(), 55), 400 if tier == "quick" else 20000)) if not replay else []
    env_impl = [impl_env(s) for s in env_cases]
    show = lambda s: "<unset>" if s is UNSET else (s if len(s) <= 40 else s[:20] + f"...({len(s)} chars)")  # noqa: E731
    for s, r in zip(env_cases, env_impl):
        if r[:2] != expected_env(s)[:2] and not (r[0] == "err" and expected_env(s)[0] == "err"):
            out.violation(f"LONG_TERM_CAPITAL_GAINS={show(s)!r}: implementation {r if r[0] == 'err' else ['ok', '...']}, property demands "
                          f"{expected_env(s)[0]}", {"env": None if s is UNSET else s}, tags={"generic-env"})
    # the same values through the model of Generic.__init__ (Model/EntryC05Env.v, cmd 4): accept / reject and the value.
    # Non-ASCII values are outside the ASCII-only model of int() and are not compared (listed in the evidence).
    env_idx = [k for k, s in enumerate(env_cases) if s is UNSET or is_ascii(s)]
    env_excluded = sorted({s for s in env_cases if s is not UNSET and not is_ascii(s)})
    env_model = core.run_model([env_model_line(env_cases[k]) for k in env_idx]) if env_idx else []
    env_mism, env_accepted = 0, 0
    for k, m in zip(env_idx, env_model):
        s, r = env_cases[k], env_impl[k]
        want = [0, r[1]] if r[0] == "ok" else [5]
        env_accepted += r[0] == "ok"
        if list(m[:2]) != want or (r[0] == "err" and r[1] != "value"):
            env_mism += 1
            mism += 1
            out.violation(f"LONG_TERM_CAPITAL_GAINS={show(s)!r}: implementation {r if r[0] == 'err' else ['ok', str(r[1])[:30]]}, model of "
                          f"Generic.__init__ (cmd 4, digit limit {max_str_digits()}) {[str(x)[:30] for x in m[:2]]}",
                          {"env": None if s is UNSET else s}, tags={"correspondence", "generic-env"}, found_input=False)
    n_summary = summary_stage(out, tier) if not replay else 0
    out.coverage["windowed_runs_judged_on_the_summary_split"] = n_summary
    core.proofs_verdict(out, proofs, build, "C05.v")
    out.coverage.update({
        "evaluations": len(cases) + len(env_cases),
        "distinct_nontrivial": len(nontrivial),
        "rule": "timestamp pairs centred on the country's threshold (+-1us, +-1s, +-1h, +-1day), random offsets -12h..+14h, "
                "all 5 countries (generic with varying LONG_TERM_CAPITAL_GAINS), 8% income events; non-trivial = elapsed whole days within 1 of the threshold",
        "samples": cases[:3],
        "traces_validated_against_impl": len(cases),
        "correspondence_mismatches": mism,
        "generic_env_stream": {"values": len(env_cases), "compared_with_model": len(env_idx), "accepted_by_implementation": env_accepted,
                               "mismatches": env_mism, "int_max_str_digits": max_str_digits(),
                               "not_compared_non_ascii": [ascii(x) for x in env_excluded]},
    })
    out.assumptions = ["timedelta.days of CPython is floor division of the instant difference (library)",
                       "timestamps within years 1970..9999",
                       "LONG_TERM_CAPITAL_GAINS: the model of Generic.__init__ (C05_generic_env_accepts / _rejects / _ok_iff) covers pure-ASCII values "
                       "(int() of an ASCII str: C white space, one sign, digits with single inner underscores, the interpreter's digit limit, "
                       "which is a parameter of the model and is read from the running interpreter); values with non-ASCII characters (digits of "
                       "other scripts, Unicode white space, which CPython also accepts) are outside the model: they are run against the "
                       "implementation and the oracle only, and listed under generic_env_stream.not_compared_non_ascii"]
    return out.finish(proofs, build)
