"""C03 -- exactly the taxable transactions are taxed, each once and in full."""
from decimal import Decimal, getcontext

from harness import core, hist, l2

CLS = {"InTransaction": 0, "OutTransaction": 1, "IntraTransaction": 2}


def fiat_in_with_fee(r):
    """documented derivation, computed independently with 31-digit decimals"""
    getcontext().prec = 31

    def D(u):
        if isinstance(u, str):         # exact rational 'n/d' (effective rows of the end-to-end stream, hist.split_case)
            n, d = u.split("/")
            return (Decimal(n) / Decimal(d)).scaleb(-11)
        return Decimal(u).scaleb(-11)
    if r.get("fiat_in_with_fee") is not None:
        return D(r["fiat_in_with_fee"])
    no_fee = D(r["fiat_in_no_fee"]) if r.get("fiat_in_no_fee") is not None else D(r["crypto_in"]) * D(r["spot"])
    if r.get("crypto_fee") is not None and r.get("fiat_fee") is None:
        fee = D(r["crypto_fee"]) * D(r["spot"])
    else:
        fee = D(r.get("fiat_fee") or 0)
    return no_fee + fee


def check_events(case, dump):
    bad, tags = [], set()
    want = {}
    for e in hist.taxable_oracle(case):
        want[e["row"]] = e
    got = {}
    for row, cname, tname, earn, amt in dump["events"]:
        if row in got:
            bad.append(f"taxable event row {row} reported twice")
        got[row] = (CLS.get(cname), tname, earn, amt)
    for row, e in want.items():
        if row not in got:
            if e["cls"] == 2 and hist.is_dust_fee(e):
                # informational tag only (the shape of the repaired finding F8): no known: line matches it any more
                bad.append(f"transfer row {row} with non-zero fee {e['amt']}e-11 is not a taxable event (fiat value of the fee rounds to 0 at 13 decimals)")
                tags.add("dust-transfer-fee")
            else:
                bad.append(f"taxable transaction row {row} ({e['type']}) is missing from the taxable events")
        else:
            c, t, earn, amt = got[row]
            if c != e["cls"] or t != e["type"] or bool(earn) != e["earn"] or amt != e["amt"]:
                bad.append(f"taxable event row {row}: reported as class {c} type {t} earn {earn} amount {amt}, expected {e['cls']} {e['type']} {e['earn']} {e['amt']}")
    for row in got:
        if row not in want:
            bad.append(f"row {row} is reported as a taxable event but is a purchase / received gift / fee-less transfer")
    # income: once, full amount, fiat value, zero cost basis, no lot
    ins = {r["row"]: r for r in case["ins"]}
    by_ev = {}
    for f in dump["fractions"]:
        by_ev.setdefault(f["ev"], []).append(f)
    for row, e in want.items():
        if not e["earn"] or row not in got:
            continue
        fr = by_ev.get(row, [])
        if len(fr) != 1:
            bad.append(f"income row {row} has {len(fr)} fractions")
            continue
        f = fr[0]
        from harness.impl import dec_pair, norm_pair
        exp = list(norm_pair(*dec_pair(fiat_in_with_fee(ins[row]))))
        # proceeds = fiat value * amount / amount in 31-digit arithmetic: equal to the fiat value up to the two
        # roundings proved in C04 (relative 1.1e-30); exact equality would demand more than the property states
        from decimal import Decimal
        pv, ev_ = Decimal(f["proceeds"][0]).scaleb(f["proceeds"][1]), Decimal(exp[0]).scaleb(exp[1])
        # (a split row's value is itself derived with up to three more roundings)
        close = abs(pv - ev_) <= abs(ev_) * Decimal("1e-29" if ins[row].get("split_fee") else "2.2e-30")
        if f["lot"] is not None or f["amt"] != e["amt"] or f["cost"] != [0, 0] or not close:
            bad.append(f"income row {row}: fraction {f} (expected amount {e['amt']}, proceeds {exp}, cost 0, no lot)")
    for ev in by_ev:
        if ev not in want:
            bad.append(f"fractions exist for row {ev} which is not a taxable transaction")
    return bad, tags


def report_stage(out, tier, replay=None):
    """the property is also observable on the rows of tax_report_us.ods: no taxable transaction may be dropped,
    duplicated or listed under another type there either.  A handful of multi-asset US runs (fresh interpreter
    each, as the CLI) judged by the row oracle of the C14 check, which works from the input rows and the ComputedData."""
    from harness import l5
    from harness.props import c14
    if replay is not None:
        jobs = [replay]
    else:
        rng = core.Rng(core.seed(), 303)
        jobs = []
        for k in range(24 if tier == "quick" else 400):
            m = l5.gen_multi(rng, country="us", n_assets=rng.choice([2, 2, 3]), n_max=rng.choice([8, 12]), window=(k % 3 == 0), earn_pct=35)
            c14.diversify(rng, m)
            jobs.append({"multi": m, "generator": "tax_report_us"})
    for job, res in zip(jobs, l5.run_workers(jobs)):
        if "computed" not in res:
            continue
        for text, tags in c14.oracle(job["multi"], res):
            if tags & {"rows", "missing-sheet", "wrong-sheet", "no-report"}:
                out.violation("tax_report_us.ods: " + text, job, tags=set(tags) | {"tax-report-rows"})
                break
    return len(jobs)


def window_stage(out, tier, replay=None):
    """with -f / -t the taxable events shown are exactly the taxable transactions dated (own local calendar day) inside the
    window: judged on the shared windowed runs of the L4 checks.  Histories whose local dates are not monotone in time are
    not judged under a to-date (finding F9, recorded against C06/C07/C09/C10/C19)."""
    from harness import l4
    from harness.props.c09 import dates_monotone
    if replay is not None:
        core.impl_env_setup()
        cases, jobs = [replay["case"]], [[0, replay.get("from"), replay.get("to")]]
        impl = [hist.impl_compute(replay["case"], from_day=replay.get("from"), to_day=replay.get("to"))]
    else:
        data = l4.run(tier)
        cases, jobs, impl = data["base"]["cases"], data["jobs"], data["impl"]
    n = 0
    for (idx, f, t), i in zip(jobs, impl):
        if (f is None and t is None) or "ok" not in i:
            continue
        c = cases[idx]
        if t is not None and not dates_monotone(c):
            continue
        n += 1
        lo = -10 ** 9 if f is None else f
        hi = 10 ** 9 if t is None else t
        want = sorted((e["row"], e["cls"]) for e in hist.taxable_oracle(c) if lo <= hist.local_day(e["ts"]) <= hi)
        got = sorted((r, CLS.get(cn)) for r, cn, *_ in i["ok"]["events"])
        if want != got:
            d = sorted(set(want) ^ set(got))
            out.violation(f"taxable events shown for window ({f}, {t}): (row, table) {d[:4]} "
                          f"{'missing' if d and d[0] in want else 'unexpected'}; taxable transactions dated in the window: {want[:12]}, shown {got[:12]}",
                          {"case": c, "from": f, "to": t}, tags={"taxable-set-window"})
    return n


def run(tier, build, replay=None):
    out = core.Outcome("C03", tier)
    proofs = core.check_proofs(build, "C03.v")
    if replay and ("multi" in replay or ("case" in replay and "ins" not in replay)):   # replay of a report job / a windowed run
        data = {"cases": [], "impl": [], "events": []}
    elif replay:
        data = l2.run_cases([replay])          # (an end-to-end case goes through the files and parse_ods again)
    else:
        data = l2.run(tier)
    nontriv, mism = set(), 0
    types_seen = {}
    for c, i, ev in zip(data["cases"], data["impl"], data["events"]):
        if "ok" in i:
            bad, tags = check_events(c, i["ok"])
            for b in bad[:1]:
                out.violation(b, c, tags=tags | {"taxable-set"})
            kinds = {r["type"] for r in c["ins"]} | {r["type"] for r in c["outs"]} | ({"MOVE"} if c["intras"] else set())
            for k in kinds:
                types_seen[k] = types_seen.get(k, 0) + 1
            if len(kinds) >= 3:
                nontriv.add(core.case_hash(c))
            # correspondence: model's taxable events = implementation's
            if ev[0] == 0:
                n = ev[1]
                mev = [tuple(ev[2 + 4 * k: 6 + 4 * k]) for k in range(n)]
                iev = [(r, CLS.get(cn), e, a) for r, cn, _, e, a in i["ok"]["events"]]
                if mev != iev:
                    mism += 1
                    out.violation(f"model and implementation disagree on the taxable events: impl {iev[:8]} / model {mev[:8]}", c,
                                  tags={"correspondence"}, found_input=False)
            else:
                mism += 1
                out.violation(f"model fails ({ev[0]}) where the implementation succeeds", c, tags={"correspondence"}, found_input=False)
    n_reports = n_windowed = 0
    if not replay or (isinstance(replay, dict) and "multi" in replay):
        n_reports = report_stage(out, tier, replay)
    if not replay or (isinstance(replay, dict) and "case" in replay and "ins" not in replay):
        n_windowed = window_stage(out, tier, replay)
    core.proofs_verdict(out, proofs, build, "C03.v")
    out.coverage.update({
        "evaluations": len(data["cases"]),
        "distinct_nontrivial": len(nontriv),
        "rule": "generated histories over all 14 types and the three tables; non-trivial = at least 3 distinct transaction types in the history",
        "samples": data["cases"][:2],
        "traces_validated_against_impl": len(data["cases"]),
        "correspondence_mismatches": mism,
        "type_distribution": types_seen,
        "tax_reports_judged": n_reports,
        "windowed_runs_judged_on_the_taxable_events_shown": n_windowed,
        "end_to_end_stream": hist.ods_stats(data["cases"]),
    })
    out.assumptions = ["the oracle taxes a transfer iff its crypto fee is non-zero, whatever the fee is worth (histories with fees worth less than "
                       "5e-14 are generated and must pass: finding F8 is repaired, replay corpus/C03/f8-dust-transfer-fee.json); a negative fee "
                       "cannot be constructed (sent < received is rejected)"]
    return out.finish(proofs, build)
