"""Drives the implementation (rp2 from /repo/src) in-process: configuration,
country objects, transactions from case rows.  Import only after
core.impl_env_setup() has moved the process out of /repo and /verif."""
import os
import tempfile
from datetime import datetime, timedelta, timezone, date
from decimal import Decimal

UNITS = 11  # amounts are integers in units of 1e-11
EPOCH = datetime(1970, 1, 1, tzinfo=timezone.utc)
EPOCH_ORD = date(1970, 1, 1).toordinal()

_state = {}


def ts_string(utc_us, off_s):
    dt = (EPOCH + timedelta(microseconds=utc_us)).astimezone(timezone(timedelta(seconds=off_s)))
    return dt.isoformat(sep=" ", timespec="microseconds")


def day_of(d):
    """date -> day number since 1970-01-01"""
    return d.toordinal() - EPOCH_ORD


def date_of_day(n):
    return date.fromordinal(n + EPOCH_ORD)


def dec_of_units(u):
    from rp2.rp2_decimal import RP2Decimal
    return RP2Decimal(Decimal(u).scaleb(-UNITS))


def opt_units(u):
    return None if u is None else dec_of_units(u)


def dec_pair(d):
    """Decimal -> exact (m, e) with m * 10^e"""
    sign, digits, exp = d.as_tuple()
    m = int("".join(map(str, digits))) if digits else 0
    return (-m if sign else m, exp)


def norm_pair(m, e):
    """normalise (m, e): strip trailing zeros of m (value-level comparison)"""
    if m == 0:
        return (0, 0)
    while m % 10 == 0:
        m //= 10
        e += 1
    return (m, e)


def country_obj(code, env_period=None):
    if code == "generic":
        os.environ["CURRENCY_CODE"] = "usd"
        os.environ["LONG_TERM_CAPITAL_GAINS"] = str(365 if env_period is None else env_period)
        from rp2.plugin.country.generic import Generic
        return Generic()
    mod = __import__(f"rp2.plugin.country.{code}", fromlist=["x"])
    return getattr(mod, code.upper())()


INI_TEMPLATE = """[general]
assets = {assets}
exchanges = {exchanges}
holders = {holders}

[in_header]
timestamp = 0
asset = 6
exchange = 1
holder = 2
transaction_type = 5
spot_price = 8
crypto_in = 7
crypto_fee = 9
fiat_in_no_fee = 10
fiat_in_with_fee = 11
fiat_fee = 12
unique_id = 13
notes = 14

[out_header]
timestamp = 0
asset = 6
exchange = 1
holder = 2
transaction_type = 5
spot_price = 8
crypto_out_no_fee = 7
crypto_fee = 9
crypto_out_with_fee = 10
fiat_out_no_fee = 11
fiat_fee = 12
unique_id = 13
notes = 14

[intra_header]
timestamp = 0
asset = 6
from_exchange = 1
from_holder = 2
to_exchange = 3
to_holder = 4
spot_price = 8
crypto_sent = 7
crypto_received = 10
unique_id = 12
notes = 13
"""


def make_config(country, assets, exchanges, holders, from_day=None, to_day=None, allow_neg=False, extra_ini=""):
    from rp2.configuration import Configuration, MIN_DATE, MAX_DATE
    if _state.get("tmp_pid") != os.getpid():
        from harness import core
        _state["tmp"] = os.path.join(core.tmp_root(), f"cfg{os.getpid()}")
        os.makedirs(_state["tmp"], exist_ok=True)
        _state["tmp_pid"] = os.getpid()
        _state["ini"] = {}
    d = _state["tmp"]
    key = (tuple(assets), tuple(exchanges), tuple(holders), extra_ini)
    paths = _state.setdefault("ini", {})
    if key not in paths or not os.path.exists(paths[key]):
        # the name depends on the content and on the process: forked workers inherit _state (directory and
        # path table) from the parent, so a counter-based name would be written by several processes at once
        import hashlib
        os.makedirs(d, exist_ok=True)
        p = os.path.join(d, f"cfg_{hashlib.sha1(repr(key).encode()).hexdigest()[:16]}_{os.getpid()}.ini")
        with open(p + ".tmp", "w", encoding="utf-8") as f:
            f.write(INI_TEMPLATE.format(assets=", ".join(assets), exchanges=", ".join(exchanges), holders=", ".join(holders)) + extra_ini)
        os.replace(p + ".tmp", p)
        paths[key] = p
    return Configuration(paths[key], country,
                         from_date=MIN_DATE if from_day is None else date_of_day(from_day),
                         to_date=MAX_DATE if to_day is None else date_of_day(to_day),
                         allow_negative_balances=allow_neg)


def mk_in(cfg, asset, exchanges, holders, r):
    from rp2.in_transaction import InTransaction
    return InTransaction(cfg, ts_string(*r["ts"]), asset, exchanges[r["exch"]], holders[r["holder"]], r["type"],
                         dec_of_units(r["spot"]), dec_of_units(r["crypto_in"]),
                         crypto_fee=opt_units(r.get("crypto_fee")), fiat_in_no_fee=opt_units(r.get("fiat_in_no_fee")),
                         fiat_in_with_fee=opt_units(r.get("fiat_in_with_fee")), fiat_fee=opt_units(r.get("fiat_fee")),
                         row=r["row"], unique_id=r.get("uid"), notes=r.get("notes"))


def mk_out(cfg, asset, exchanges, holders, r):
    from rp2.out_transaction import OutTransaction
    return OutTransaction(cfg, ts_string(*r["ts"]), asset, exchanges[r["exch"]], holders[r["holder"]], r["type"],
                          dec_of_units(r["spot"]), dec_of_units(r["crypto_out_no_fee"]), dec_of_units(r["crypto_fee"]),
                          crypto_out_with_fee=opt_units(r.get("crypto_out_with_fee")),
                          fiat_out_no_fee=opt_units(r.get("fiat_out_no_fee")), fiat_fee=opt_units(r.get("fiat_fee")),
                          row=r["row"], unique_id=r.get("uid"), notes=r.get("notes"))


def mk_intra(cfg, asset, exchanges, holders, r):
    from rp2.intra_transaction import IntraTransaction
    return IntraTransaction(cfg, ts_string(*r["ts"]), asset, exchanges[r["from_exch"]], holders[r["from_holder"]],
                            exchanges[r["to_exch"]], holders[r["to_holder"]],
                            opt_units(r.get("spot")), dec_of_units(r["crypto_sent"]), dec_of_units(r["crypto_received"]),
                            row=r["row"], unique_id=r.get("uid"), notes=r.get("notes"))


def err_kind(exc):
    n = type(exc).__name__
    return {"RP2ValueError": "value", "RP2TypeError": "type", "RP2RuntimeError": "runtime",
            "KeyError": "key", "IndexError": "index", "InvalidOperation": "decimal"}.get(n, n)
