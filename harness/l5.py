"""L5 shared machinery: multi-asset report inputs, one fresh interpreter per report generation
(harness/l5_worker.py), encoding of the model input (Model/ReportInput.v: rd_rinput), decoding of
the model's expected report (Model/Grid.v: enc_report) and cell-by-cell comparison with the .ods
read back from the implementation."""
import json
import os
import re
import subprocess
import sys
from concurrent.futures import ThreadPoolExecutor
from decimal import Decimal

from harness import core, hist

WORKER = os.path.join(os.path.dirname(os.path.abspath(__file__)), "l5_worker.py")
CCODE = {"us": 0, "es": 1, "jp": 2, "ie": 3, "generic": 4}
PERIOD = {"us": 365, "es": 365, "jp": 2 ** 63 - 1, "ie": 2 ** 63 - 1}
MIN_DAY, MAX_DAY = 0, 2932896
LANGS = {"us": ["en"], "es": ["es"], "jp": ["en", "kl"], "ie": ["en_IE"], "generic": ["en"]}   # shipped templates (plugin/report/data)
ASSET_NAMES = ["BBB", "AAA", "CC1", "B1", "ZED", "A9"]


# ----------------------------------------------------------------------------- generation
def gen_multi(rng, country="us", n_assets=None, n_max=10, accounts=None, lang=None, window=True, sched=None,
              earn_pct=25, mixed_pct=15):
    """A valid multi-asset input: every asset is a hist.gen_history case over the same exchanges /
    holders; row numbers collide between assets (each sheet starts at row 3) and are not
    time-sorted in ~30 % of the assets."""
    ne, nh = accounts or (rng.range(1, 3), rng.range(1, 3))
    n = n_assets or rng.choice([1, 2, 2, 3, 4])
    names = list(ASSET_NAMES)
    rng.shuffle(names)
    sched = sched or hist.gen_sched(rng)
    if country not in ("us", "generic"):
        sched = [[1970, "fifo"]]
    assets = []
    for k in range(n):
        c = hist.gen_history(rng, n_max=n_max, accounts=(ne, nh), earn_pct=earn_pct, mixed_pct=mixed_pct)
        c["asset"] = names[k]
        c.pop("sched", None)
        assets.append(c)
    first_year = min(hist.local_year(r["ts"]) for c in assets for r in c["ins"] + c["outs"] + c["intras"])
    sched = [list(x) for x in sched]
    if min(y for y, _ in sched) > first_year or len(sched) == 1:
        sched[0][0] = 1970
    m = {"country": country, "lang": lang or rng.choice(LANGS[country]), "env": 365 if country == "generic" else None,
         "sched": sched, "from": None, "to": None, "allow_neg": False,
         "exchanges": assets[0]["exchanges"], "holders": assets[0]["holders"], "assets": assets}
    if window:
        days = sorted({hist.local_day(r["ts"]) for c in assets for r in c["ins"] + c["outs"] + c["intras"]})
        pick = lambda: max(0, rng.choice(days) + rng.choice([0, 0, 0, 1, -1, 30, -30, 183]))  # noqa: E731
        kind = rng.below(10)
        if kind < 3:
            pass
        elif kind < 5:
            m["from"] = pick()
        elif kind < 7:
            m["to"] = pick()
        else:
            a, b = sorted([pick(), pick()])
            m["from"], m["to"] = a, (a if kind == 9 else b)
    return m


def period_of(multi):
    return PERIOD.get(multi["country"], multi.get("env") or 0)


# ----------------------------------------------------------------------------- implementation
def run_worker(job, timeout=300):
    env = dict(os.environ)
    env["PYTHONHASHSEED"] = env.get("PYTHONHASHSEED", "0")
    env["PYTHONDONTWRITEBYTECODE"] = "1"
    env.pop("PYTHONPATH", None)
    try:
        p = subprocess.run(["/venv/bin/python", WORKER], input=json.dumps(job), capture_output=True, text=True,
                           timeout=timeout, env=env, cwd="/")
    except subprocess.TimeoutExpired:
        return {"err": "Timeout", "msg": "worker timed out", "files": []}
    try:
        return json.loads(p.stdout)
    except ValueError:
        return {"err": "WorkerCrash", "msg": (p.stderr or p.stdout)[-800:], "files": []}


def run_workers(jobs, procs=None):
    with ThreadPoolExecutor(procs or core.NCPU) as ex:
        return list(ex.map(run_worker, jobs))


# ----------------------------------------------------------------------------- model input
def enc_str(s):
    return [len(s)] + [ord(c) for c in s]


def encode_rinput(multi, fracs_by_asset):
    """[country; period; from; to; allow; exchanges; holders; sched; assets(sorted by name): name, hist, fractions]"""
    a = [CCODE[multi["country"]], period_of(multi),
         MIN_DAY if multi.get("from") is None else multi["from"], MAX_DAY if multi.get("to") is None else multi["to"],
         1 if multi.get("allow_neg") else 0]
    a.append(len(multi["exchanges"]))
    for s in multi["exchanges"]:
        a += enc_str(s)
    a.append(len(multi["holders"]))
    for s in multi["holders"]:
        a += enc_str(s)
    a.append(len(multi["sched"]))
    for y, m in multi["sched"]:
        a += [y, hist.MCODE[m]]
    cases = sorted(multi["assets"], key=lambda c: c["asset"])
    a.append(len(cases))
    for c in cases:
        a += enc_str(c["asset"])
        h = hist.encode_hist(dict(c, sched=[]))
        a += h[1:]                      # drop the (empty) schedule prefix
        fr = fracs_by_asset[c["asset"]]
        a.append(len(fr))
        for ev, lot, amt in fr:
            a += [ev, 0 if lot is None else 1, 0 if lot is None else lot, amt]
    return a


# ----------------------------------------------------------------------------- model output (Grid.v)
class R:
    def __init__(self, d, i=0):
        self.d, self.i = d, i

    def z(self):
        v = self.d[self.i]
        self.i += 1
        return v

    def s(self):
        n = self.z()
        return "".join(chr(self.z()) for _ in range(n))

    def payload(self):
        t = self.z()
        if t == 0:
            return ("empty",)
        if t == 1:
            return ("num", self.z(), self.z())
        if t == 2:
            return ("int", self.z())
        if t == 3:
            return ("str", self.s())
        if t == 4:
            return ("ts", self.z(), self.z())
        if t == 5:
            return ("day", self.z())
        if t == 6:
            sh = self.s()
            row = self.z()
            return ("link", sh, row, self.payload())
        if t == 7:
            return ("formula", self.s())
        if t == 8:
            return ("label",)
        raise ValueError(f"bad payload tag {t}")


def decode_report(res, start=0):
    """enc_report output -> [{'name', 'rows', 'cols', 'writes': [(r, c, payload)]}]"""
    r = R(res, start)
    sheets = []
    for _ in range(r.z()):
        name = r.s()
        rows, cols = r.z(), r.z()
        ws = []
        for _ in range(r.z()):
            row, col = r.z(), r.z()
            ws.append((row, col, r.payload()))
        sheets.append({"name": name, "rows": rows, "cols": cols, "writes": ws})
    return sheets


def final_cells(writes):
    d = {}
    for r, c, p in writes:
        d[(r, c)] = p
    return d


def dec_of(m, e):
    # exact (Decimal.scaleb would round to the 28 digits of the default context)
    return Decimal((0 if m >= 0 else 1, tuple(int(ch) for ch in str(abs(m))), e))


def render_ts(u, o):
    from harness import impl
    from datetime import timedelta, timezone
    return str((impl.EPOCH + timedelta(microseconds=u)).astimezone(timezone(timedelta(seconds=o))))


LINK_RE = re.compile(r'^=HYPERLINK\("#(.*)\.a(\d+):z(\d+)"; (.*)\)$', re.S)


def cell_mismatch(p, cell):
    """payload vs ods cell [vtype, value, formula] (None = empty cell) -> None | text"""
    vt, v, f = cell if cell else (None, None, None)
    if isinstance(v, dict) and "float" in v:
        v = float.fromhex(v["float"])
    k = p[0]
    if k == "empty":
        return None if (f is None and v in (None, "")) else f"expected empty, found {v!r} {f!r}"
    if k == "label":
        return None if (isinstance(v, str) and v != "") or f else f"expected a label, found {v!r}"
    if k in ("num", "int"):
        want = float(dec_of(p[1], p[2])) if k == "num" else float(p[1])
        if f is not None or not isinstance(v, float) or v != want:
            return f"expected number {want!r} ({p[1:]}), found {v!r} {f!r}"
        return None
    if k == "str":
        return None if (f is None and v == p[1]) or (p[1] == "" and v in (None, "") and f is None) else f"expected {p[1]!r}, found {v!r} {f!r}"
    if k == "ts":
        want = render_ts(p[1], p[2])
        return None if (f is None and v == want) else f"expected {want!r}, found {v!r} {f!r}"
    if k == "day":
        from harness import impl
        want = str(impl.date_of_day(p[1]))
        return None if (f is None and v == want) else f"expected {want!r}, found {v!r} {f!r}"
    if k == "formula":
        return None if f == p[1] else f"expected formula {p[1]!r}, found {f!r} (value {v!r})"
    if k == "link":
        m = LINK_RE.match(f or "")
        if not m:
            return f"expected a hyperlink to {p[1]!r} row {p[2]}, found value {v!r} formula {f!r}"
        if m.group(1) != p[1] or int(m.group(2)) != p[2] or int(m.group(3)) != p[2]:
            return f"hyperlink leads to {m.group(1)!r} rows {m.group(2)}:{m.group(3)}, expected {p[1]!r} row {p[2]}"
        inner, txt = p[3], m.group(4)
        if inner[0] in ("num", "int"):
            try:
                got = Decimal(txt)
            except Exception:  # noqa: BLE001
                return f"hyperlink payload {txt!r} is not a number"
            want = dec_of(inner[1], inner[2]) if inner[0] == "num" else Decimal(inner[1])
            return None if got == want else f"hyperlink payload {txt} differs from {want}"
        if inner[0] == "str":
            return None if txt == f'"{inner[1]}"' else f"hyperlink payload {txt!r}, expected {inner[1]!r}"
        if inner[0] == "ts":
            return None if txt == f'"{render_ts(inner[1], inner[2])}"' else f"hyperlink payload {txt!r}, expected {render_ts(inner[1], inner[2])!r}"
        return f"unsupported link payload {inner}"
    return f"unknown payload {p}"


def compare_sheet(model_sheet, ods_sheet, check_extra=True, ignore=lambda r, c: False):
    """-> list of (row, col, text); model cells must match, and (check_extra) every non-empty cell of the
    .ods must have been written by the model (labels included), so that extra / duplicated rows show."""
    out = []
    cells = {(r, c): (t, v, f) for r, c, t, v, f in ods_sheet["cells"]}
    fin = final_cells(model_sheet["writes"])
    for (r, c), p in fin.items():
        if ignore(r, c):
            continue
        if r >= ods_sheet["nrows"] or c >= ods_sheet["ncols"]:
            out.append((r, c, f"model writes outside the sheet ({ods_sheet['nrows']} x {ods_sheet['ncols']})"))
            continue
        mm = cell_mismatch(p, cells.get((r, c)))
        if mm:
            out.append((r, c, mm))
    if check_extra:
        for (r, c), cell in cells.items():
            if (r, c) not in fin and not ignore(r, c):
                out.append((r, c, f"cell holds {cell[1]!r} {cell[2]!r} but nothing should be written there"))
    return out


def sheet_by_name(sheets, name):
    for s in sheets:
        if s["name"] == name:
            return s
    return None
