"""History generator, encoder for the model, in-process implementation driver and
canonical dump of ComputedData (layers L2-L4)."""
from harness import core

DAY = 86400_000_000
TT = ["AIRDROP", "BUY", "DONATE", "FEE", "GIFT", "HARDFORK", "INCOME", "INTEREST",
      "LOST", "MINING", "MOVE", "SELL", "STAKING", "WAGES"]
TCODE = {t: i for i, t in enumerate(TT)}
EARN = ["AIRDROP", "HARDFORK", "INCOME", "INTEREST", "MINING", "STAKING", "WAGES"]
IN_NONEARN = ["BUY", "GIFT", "DONATE"]
OUT_TYPES = ["SELL", "GIFT", "DONATE", "FEE", "LOST", "STAKING"]
METHS = ["fifo", "lifo", "hifo", "lofo"]
MCODE = {m: i for i, m in enumerate(METHS)}
U = 10 ** 11

AMOUNTS = [1, 1000, 5 * 10 ** 9, 10 ** 10, 25 * 10 ** 9, 5 * 10 ** 10, U, 2 * U, 3 * U, 15 * 10 ** 10, 123456789012, 10 ** 20]
# huge many-digit amounts / prices: products need more than 31 significant digits, so every decimal rounding step of
# the fiat derivations is exercised (a difference of two rounded products is not the rounded product of the difference)
BIG_AMOUNTS = [10 ** 20, 98765432109876543211, 31415926535897932384]
PRICES = [1000, U // 100, U, 10 * U, 10 * U, 20 * U, 50 * U, 50 * U, 1234567 * 10 ** 6, 10 ** 15, 10 ** 18, 123456789012345678, 987654321]
OFFSETS = [0, 3600, -3600, 50400, -43200, 19800]


def day_us(y, m, d):
    from datetime import date
    return (date(y, m, d).toordinal() - date(1970, 1, 1).toordinal()) * DAY


INTERESTING_DAYS = [day_us(2019, 12, 31), day_us(2020, 1, 1), day_us(2020, 2, 29), day_us(2020, 12, 31), day_us(2021, 1, 1),
                    day_us(2021, 1, 1) + 365 * DAY, day_us(2018, 6, 1), day_us(2019, 6, 1), day_us(2022, 3, 1)]
TIMES = [0, 1800_000_000, 12 * 3600_000_000, 23 * 3600_000_000, DAY - 1, 1, 3600_000_000]


SUBSEC = [500_000, 800_000, 123_456, 999_999, 250_000, 1]


def gen_times(rng, n, mixed, subsec_pct=0):
    """n non-decreasing instants; ~30% equal to the previous one; subsec_pct % of the others get a sub-second part"""
    out = []
    style = rng.below(4)
    t = rng.choice(INTERESTING_DAYS) - rng.range(0, 400) * DAY if style else day_us(2017 + rng.below(4), 1 + rng.below(12), 1 + rng.below(28))
    for _ in range(n):
        r = rng.below(100)
        if out and r < 30:
            pass
        elif r < 45:
            t += rng.choice([1, 1_000_000, 3600_000_000])
        elif r < 60:
            # jump to just before / after an interesting boundary later than t
            later = [d for d in INTERESTING_DAYS if d > t]
            t = (rng.choice(later) if later else t + DAY) + rng.choice([-1, 0, 1, -3600_000_000, 1800_000_000])
        elif r < 75:
            t += 365 * DAY + rng.choice([-1, 0, 1, -1_000_000, 1_000_000, -DAY, DAY])
        else:
            t += rng.range(1, 200) * DAY + rng.choice(TIMES)
        if subsec_pct and not (out and r < 30) and rng.chance(subsec_pct):
            t += rng.choice(SUBSEC) if rng.chance(60) else 1 + rng.below(999_999)
        if out and t < out[-1]:
            t = out[-1]
        out.append(t)
    return out


def gen_sched(rng, country="us"):
    r = rng.below(10)
    if r < 5:
        return [[1970, rng.choice(METHS)]]
    n = rng.range(2, 4)
    years = sorted(set([1970 if rng.chance(70) else 2016 + rng.below(3)] + [2018 + rng.below(6) for _ in range(n - 1)]))
    return [[y, rng.choice(METHS)] for y in years]


def gen_history(rng, n_max=14, overdraw_pct=0, method=None, accounts=None, earn_pct=25, optional_pct=20, mixed_pct=25,
                in_fee_pct=6, subsec_pct=20):
    """A mostly-valid single-asset history (account-aware), as a case dict.  in_fee_pct: share of the acquisitions of ANY
    type (earn types included) that pay a fee in crypto (the spreadsheet parser splits such a row into the acquisition and an
    artificial fee-only disposal); subsec_pct: share of the instants with a sub-second part."""
    ne, nh = accounts or (rng.range(1, 3), rng.range(1, 3))
    exchanges = [f"E{i}" for i in range(ne)]
    holders = [f"H{i}" for i in range(nh)]
    n = rng.range(1, n_max)
    mixed = rng.chance(mixed_pct)
    base_off = rng.choice(OFFSETS) if rng.chance(50) else 0
    times = gen_times(rng, n, mixed, subsec_pct)
    bal = {}
    lots_amt = []
    ins, outs, intras = [], [], []
    overdraw = rng.chance(overdraw_pct)
    for k, t in enumerate(times):
        off = rng.choice(OFFSETS) if mixed else base_off
        ts = [t, off]
        funded = [a for a, b in bal.items() if b > 0]
        r = rng.below(100)
        if not funded or r < 40:
            acct = (rng.below(ne), rng.below(nh))
            ty = rng.choice(EARN) if rng.chance(earn_pct) else rng.choice(IN_NONEARN if rng.chance(15) else ["BUY"])
            amt = rng.choice(AMOUNTS[:-1]) if not rng.chance(6) else rng.choice(BIG_AMOUNTS)
            if rng.chance(25):
                amt = rng.range(1, 3 * U)
            row = {"ts": ts, "exch": acct[0], "holder": acct[1], "type": ty, "spot": rng.choice(PRICES), "crypto_in": amt}
            if rng.chance(optional_pct):
                exact = amt * row["spot"]
                if rng.chance(50):
                    row["fiat_in_no_fee"] = max(1, exact // U + rng.choice([0, 0, 1, -1, 12345]))
                if rng.chance(50):
                    row["fiat_fee"] = rng.choice([0, 1, 5 * U, 123456789])
                elif ty == "BUY" and rng.chance(30):
                    row["crypto_fee"] = rng.choice([1, 1000, U // 100])
                if rng.chance(40):
                    row["fiat_in_with_fee"] = max(1, exact // U + rng.choice([0, 7 * U, 99]))
            if in_fee_pct and "crypto_fee" not in row and "fiat_fee" not in row and rng.chance(in_fee_pct):
                row["crypto_fee"] = max(1, min(rng.choice([1, 1000, U // 100, amt // 100 + 1]), amt // 2))
            ins.append(row)
            # through the spreadsheet parser the fee leaves the account again (artificial fee-only disposal): keep it funded
            bal[acct] = bal.get(acct, 0) + max(0, amt - row.get("crypto_fee", 0))
            lots_amt.append(amt)
        elif r < 80:
            acct = rng.choice(funded)
            avail = bal[acct]
            ty = rng.choice(OUT_TYPES) if rng.chance(40) else "SELL"
            style = rng.below(10)
            if style < 3:
                total = avail
            elif style < 5 and lots_amt:
                total = min(avail, rng.choice(lots_amt))
            elif style < 8:
                total = max(1, avail // rng.choice([2, 3, 10]))
            else:
                total = rng.range(1, avail)
            if overdraw and rng.chance(50):
                total = avail + rng.choice([1, 4, 6, 11, 1000, U])
            fee = 0
            if ty == "FEE":
                nofee, fee = 0, total
            else:
                if total > 1 and rng.chance(35):
                    fee = rng.choice([1, min(total - 1, 1000), max(1, (total - 1) // 100)])
                    fee = min(fee, total - 1)
                nofee = total - fee
            row = {"ts": ts, "exch": acct[0], "holder": acct[1], "type": ty, "spot": rng.choice(PRICES),
                   "crypto_out_no_fee": nofee, "crypto_fee": fee}
            if rng.chance(optional_pct):
                if rng.chance(50):
                    row["crypto_out_with_fee"] = total      # consistent supplied value
                if ty != "FEE" and rng.chance(50):
                    row["fiat_out_no_fee"] = max(1, nofee * row["spot"] // U + rng.choice([0, 1, -1, 777]))
                if rng.chance(40):
                    row["fiat_fee"] = max(0, fee * row["spot"] // U + rng.choice([0, 1, 50]))
            outs.append(row)
            bal[acct] = avail - total
        else:
            acct = rng.choice(funded)
            avail = bal[acct]
            to = (rng.below(ne), rng.below(nh))
            sent = avail if rng.chance(30) else max(1, avail // rng.choice([2, 3, 7]))
            if overdraw and rng.chance(50):
                sent = avail + rng.choice([1, 6, 11, U])
            fee_style = rng.below(10)
            fee = 0 if fee_style < 4 else min(sent, rng.choice([1, 1000, U // 1000, max(1, sent // 50)]))
            if fee_style == 9:
                fee = min(sent, 1)
            if fee_style == 8 and rng.chance(35):
                fee = sent          # nothing arrives: the whole amount is the fee (crypto_received = 0 is a valid transfer)
            recv = sent - fee
            row = {"ts": ts, "from_exch": acct[0], "from_holder": acct[1], "to_exch": to[0], "to_holder": to[1],
                   "spot": rng.choice(PRICES), "crypto_sent": sent, "crypto_received": recv}
            if fee == 0 and rng.chance(50):
                row["spot"] = None if rng.chance(50) else 0
            intras.append(row)
            bal[acct] = avail - sent
            bal[to] = bal.get(to, 0) + recv
    # rows: IN table first, then OUT, then INTRA (as in a sheet); optionally not time-sorted within a table
    if rng.chance(30):
        rng.shuffle(ins)
        rng.shuffle(outs)
        rng.shuffle(intras)
    r = 3
    for row in ins:
        row["row"] = r
        r += 1
    r += 3
    art = 0
    for row in outs:
        if row["type"] == "FEE" and rng.chance(30):
            art -= 1
            row["row"] = art
        else:
            row["row"] = r
            r += 1
    r += 3
    for row in intras:
        row["row"] = r
        r += 1
    sched = [[1970, method]] if method else gen_sched(rng)
    first_year = min(local_year(r["ts"]) for r in ins + outs + intras)
    if min(y for y, _ in sched) > first_year:
        sched[0][0] = 1970 if rng.chance(70) else first_year     # the schedule must cover every year of the history
    return {"asset": "B1", "exchanges": exchanges, "holders": holders, "country": "us", "env": None,
            "sched": sched, "from": None, "to": None, "allow_neg": False,
            "ins": ins, "outs": outs, "intras": intras}



def gen_threshold(rng):
    """targeted history for the end-to-end stream: a lot acquired WITH A CRYPTO FEE at an instant with a sub-second part,
    disposed of 365 days later give or take less than that sub-second part (so the long / short flag depends on the lot keeping
    its exact instant through the parser's split), optionally after an older fee-less lot (a disposal spanning both).
    All numbers are exact at 11 decimals as doubles."""
    off = rng.choice(OFFSETS) if rng.chance(40) else 0
    t0 = day_us(2017 + rng.below(4), 1 + rng.below(12), 1 + rng.below(28)) + rng.below(86400) * 1_000_000
    f = rng.choice(SUBSEC[:5]) if rng.chance(50) else 2 + rng.below(999_998)
    amt = rng.choice([U, 2 * U, 5 * 10 ** 10, 123456789])
    fee = min(rng.choice([1000, U // 100, amt // 100]), amt // 10)
    lot = {"ts": [t0 + f, off], "exch": 0, "holder": 0, "type": rng.choice(EARN) if rng.chance(30) else "BUY",
           "spot": rng.choice([U, 10 * U, 20 * U, 1234567 * 10 ** 6]), "crypto_in": amt, "crypto_fee": fee}
    if rng.chance(30):
        lot["fiat_in_with_fee"] = amt * lot["spot"] // U + rng.choice([7 * U, 99, 12345])
    if rng.chance(20):
        lot["fiat_in_no_fee"] = max(1, amt * lot["spot"] // U + rng.choice([0, 1, 12345]))
    ins, avail = [lot], amt - fee
    if rng.chance(50):
        older = rng.choice([10 ** 10, U, 3 * U])
        ins.insert(0, {"ts": [t0 - rng.range(1, 40) * DAY, off], "exch": 0, "holder": 0, "type": "BUY", "spot": rng.choice([U, 50 * U]),
                       "crypto_in": older})
        avail += older
    delta = -rng.range(1, f - 1) if rng.chance(60) else rng.choice([0, 1, -f, -f - 1, -1_000_000, 1_000_000, 500_000])
    total = avail if rng.chance(50) else max(2, avail // rng.choice([2, 3]))
    ofee = rng.choice([0, 0, 1000])
    outs = [{"ts": [t0 + f + 365 * DAY + delta, rng.choice(OFFSETS) if rng.chance(30) else off], "exch": 0, "holder": 0,
             "type": rng.choice(["SELL", "SELL", "GIFT", "DONATE"]), "spot": rng.choice([U, 30 * U, 987654321]),
             "crypto_out_no_fee": total - ofee, "crypto_fee": ofee}]
    if rng.chance(30) and total < avail:
        outs.append({"ts": [outs[0]["ts"][0] + rng.choice([1, 1_000_000, DAY]), off], "exch": 0, "holder": 0, "type": "SELL", "spot": 40 * U,
                     "crypto_out_no_fee": avail - total, "crypto_fee": 0})
    r = 3
    for row in ins:
        row["row"] = r
        r += 1
    r += 3
    for row in outs:
        row["row"] = r
        r += 1
    return {"asset": "B1", "exchanges": ["E0"], "holders": ["H0"], "country": "us", "env": None,
            "sched": [[1970, rng.choice(METHS)]], "from": None, "to": None, "allow_neg": False,
            "ins": ins, "outs": outs, "intras": []}


# ----------------------------------------------------------------------------- encoding for the model
def _opt(v):
    return [0, 0] if v is None else [1, v]


def encode_hist(case):
    a = [len(case["sched"])]
    for y, m in case["sched"]:
        a += [y, MCODE[m]]
    a.append(len(case["ins"]))
    for r in case["ins"]:
        a += [r["row"], r["ts"][0], r["ts"][1], r["exch"], r["holder"], TCODE[r["type"]], r["spot"], r["crypto_in"]]
        a += _opt(r.get("crypto_fee")) + _opt(r.get("fiat_in_no_fee")) + _opt(r.get("fiat_in_with_fee")) + _opt(r.get("fiat_fee"))
    a.append(len(case["outs"]))
    for r in case["outs"]:
        a += [r["row"], r["ts"][0], r["ts"][1], r["exch"], r["holder"], TCODE[r["type"]], r["spot"], r["crypto_out_no_fee"], r["crypto_fee"]]
        a += _opt(r.get("crypto_out_with_fee")) + _opt(r.get("fiat_out_no_fee")) + _opt(r.get("fiat_fee"))
    a.append(len(case["intras"]))
    for r in case["intras"]:
        a += [r["row"], r["ts"][0], r["ts"][1], r["from_exch"], r["from_holder"], r["to_exch"], r["to_holder"]]
        a += _opt(r.get("spot")) + [r["crypto_sent"], r["crypto_received"]]
    return a


def line(cmd, ints):
    return str(cmd) + " " + " ".join(map(str, ints))


def decode_fracs(res):
    """model output of enc_fracs -> ('ok', [(ev, lot|None, amt)]) or ('err', code)"""
    if res[0] != 0:
        return ("err", res[0])
    n = res[1]
    out = []
    for k in range(n):
        ev, has, lot, amt = res[2 + 4 * k: 6 + 4 * k]
        out.append((ev, lot if has else None, amt))
    return ("ok", out)


# ----------------------------------------------------------------------------- implementation driver
def units(d):
    """RP2Decimal -> int units of 1e-11 (exact) or ('off-grid', str)"""
    from decimal import Decimal
    s = Decimal(d).scaleb(11)
    if s == s.to_integral_value():
        return int(s)
    return ["off-grid", str(d)]


def build_impl(case, from_day=None, to_day=None, allow_neg=True, methods=None):
    """methods: optional dict name -> AccountingMethod instance to reuse (rp2_main builds the method objects once and
    shares them between all assets of a run)"""
    from harness import impl
    from rp2.input_data import InputData
    from rp2.transaction_set import TransactionSet
    country = impl.country_obj(case.get("country", "us"), case.get("env"))
    cfg = impl.make_config(country, [case["asset"]], case["exchanges"], case["holders"], from_day, to_day, allow_neg)
    a, ex, ho = case["asset"], case["exchanges"], case["holders"]
    in_set = TransactionSet(cfg, "IN", a)
    out_set = TransactionSet(cfg, "OUT", a)
    intra_set = TransactionSet(cfg, "INTRA", a)
    for r in case["ins"]:
        in_set.add_entry(impl.mk_in(cfg, a, ex, ho, r))
    for r in case["outs"]:
        out_set.add_entry(impl.mk_out(cfg, a, ex, ho, r))
    for r in case["intras"]:
        intra_set.add_entry(impl.mk_intra(cfg, a, ex, ho, r))
    input_data = InputData(a, in_set, out_set, intra_set, cfg.from_date, cfg.to_date)
    return cfg, make_engine(case["sched"], methods), input_data


def make_engine(sched, methods=None):
    from prezzemolo.avl_tree import AVLTree
    from rp2.accounting_engine import AccountingEngine
    import importlib
    tree = AVLTree()
    for y, m in sched:
        mod = importlib.import_module(f"rp2.plugin.accounting_method.{m}")
        if methods is None:
            inst = mod.AccountingMethod()
        else:
            inst = methods.setdefault(m, mod.AccountingMethod())
        tree.insert_node(y, inst)
    return AccountingEngine(years_2_methods=tree)


def dump(computed, full=True):
    from harness import impl
    gls = computed.gain_loss_set
    d = {"events": [], "fractions": []}
    for t in computed.taxable_event_set:
        d["events"].append([t.row, type(t).__name__, t.transaction_type.name, 1 if t.is_earning() else 0, units(t.crypto_balance_change)])
    for gl in gls:
        f = {"ev": gl.taxable_event.row, "lot": gl.acquired_lot.row if gl.acquired_lot else None, "amt": units(gl.crypto_amount)}
        if full:
            f["proceeds"] = list(impl.norm_pair(*impl.dec_pair(gl.taxable_event_fiat_amount_with_fee_fraction)))
            f["cost"] = list(impl.norm_pair(*impl.dec_pair(gl.fiat_cost_basis)))
            f["gain"] = list(impl.norm_pair(*impl.dec_pair(gl.fiat_gain)))
            f["long"] = 1 if gl.is_long_term_capital_gains() else 0
            f["ev_frac"] = [gls.get_taxable_event_fraction(gl), gls.get_taxable_event_number_of_fractions(gl.taxable_event)]
            f["lot_frac"] = ([gls.get_acquired_lot_fraction(gl), gls.get_acquired_lot_number_of_fractions(gl.acquired_lot)]
                             if gl.acquired_lot else None)
            f["running"] = units(computed.get_crypto_gain_loss_running_sum(gl))
            f["ev_pct"] = list(impl.norm_pair(*impl.dec_pair(gl.taxable_event_fraction_percentage)))
            f["lot_pct"] = list(impl.norm_pair(*impl.dec_pair(gl.acquired_lot_fraction_percentage)))
        d["fractions"].append(f)
    if not full:
        return d
    P = lambda x: list(impl.norm_pair(*impl.dec_pair(x)))  # noqa: E731
    d["yearly"] = [[y.year, y.transaction_type.name, 1 if y.is_long_term_capital_gains else 0, units(y.crypto_amount),
                    P(y.fiat_amount), P(y.fiat_cost_basis), P(y.fiat_gain_loss)] for y in computed.yearly_gain_loss_list]
    d["balances"] = [[b.exchange, b.holder, units(b.final_balance), units(b.acquired_balance), units(b.sent_balance),
                      units(b.received_balance)] for b in computed.balance_set]
    d["price_per_unit"] = P(computed.price_per_unit)
    d["ins"] = [[t.row, units(computed.get_crypto_in_running_sum(t)), units(computed.get_crypto_in_fee_running_sum(t)),
                 P(computed.get_in_lot_sold_percentage(t)), P(t.fiat_in_no_fee), P(t.fiat_in_with_fee), P(t.fiat_fee)]
                for t in computed.in_transaction_set]
    d["outs"] = [[t.row, units(computed.get_crypto_out_running_sum(t)), units(computed.get_crypto_out_fee_running_sum(t)),
                  P(t.fiat_out_no_fee), P(t.fiat_fee), units(t.crypto_out_with_fee)] for t in computed.out_transaction_set]
    d["intras"] = [[t.row, units(computed.get_crypto_intra_fee_running_sum(t)), P(t.fiat_fee), 1 if t.is_taxable() else 0]
                   for t in computed.intra_transaction_set]
    return d


def impl_compute(case, from_day=None, to_day=None, allow_neg=True, full=True, methods=None):
    """-> {'ok': dump} or {'err': kind, 'msg': text}.  A case marked "via": "ods" is run end to end from real files
    (impl_compute_ods), also when it comes back as a replay."""
    from harness import impl
    if case.get("via") == "ods":
        return impl_compute_ods(case, from_day, to_day, allow_neg, full, methods)
    try:
        from rp2.tax_engine import compute_tax
        cfg, engine, input_data = build_impl(case, from_day, to_day, allow_neg, methods)
        computed = compute_tax(cfg, engine, input_data)
        return {"ok": dump(computed, full)}
    except Exception as exc:  # noqa: BLE001
        return {"err": impl.err_kind(exc), "msg": str(exc)[:300]}


# ----------------------------------------------------------------------------- end-to-end ("ods") path
# The real program builds its InputData with ods_parser.parse_ods, which does more than call the constructors: timestamps come
# from strings, numbers from the cells' doubles through '%.11f', and an acquisition with a crypto fee is SPLIT into a fee-free
# acquisition (fiat fields passed explicitly) plus an artificial fee-only FEE disposal with a negative id at the same instant.
# An "ods case" is  split_case(source) + {"via": "ods", "source": source}:
#   source = {"case": the generating case as it stands on the sheet, "lay": column layout, "rseed": seed of the sheet's junk/gaps}
#   the rows of the ods case itself = the EFFECTIVE case the oracles judge: the documented semantics of the split applied to
#   the source rows, computed here from the source alone (neither rp2 nor the Coq model is consulted).
TKEY = (("ins", "in"), ("outs", "out"), ("intras", "intra"))


def ods_exact(case):
    """every number of the case survives the spreadsheet: the double nearest to v * 1e-11, rounded half-even to 11
    decimals, is v again (so the float round trip cannot blur what the oracles compute from the case)"""
    from harness import l1
    for key, t in TKEY:
        for r in case[key]:
            for f in l1.FIELDS[t]:
                if f in l1.NUMERIC:
                    v = r.get(l1.dkey(f))
                    if v is not None and l1.num11_of_float(l1.fnum(v)) != v:
                        return False
    return True


def has_in_crypto_fee(case):
    return any(r.get("crypto_fee") for r in case["ins"])


def has_subsecond(case):
    return any(r["ts"][0] % 1_000_000 for k, _ in TKEY for r in case[k])


def ods_eligible(case):
    """exact as doubles, and no acquisition with a crypto fee whose own fiat value is below the 13-decimal resolution (the
    parser rejects those: known finding F15, judged by C11)"""
    if not case["ins"] or not ods_exact(case):
        return False
    for r in case["ins"]:
        if r.get("crypto_fee") and r.get("fiat_in_no_fee") is None and round_half_even_13(r["crypto_in"] * r["spot"]) == 0:
            return False
    return True


def ods_source(case, rng):
    """the case as it is written to the sheet under a random column layout: optional values whose column is not mapped are
    dropped, timestamps / types get spelling variants, unique ids and notes are filled in"""
    from harness import l1
    for _ in range(400):
        lay = l1.gen_layout(rng)
        if "crypto_fee" in lay["in"] or not has_in_crypto_fee(case):
            break
    sheet = l1.decorate(case, lay, rng)
    for key, t in TKEY:
        for d, r in zip(sheet[key], case[key]):
            if r.get("uid") is not None and "unique_id" in lay[t]:
                d["unique_id"] = r["uid"]
            d.pop("uid", None)
    src = {k: sheet[k] for k in ("asset", "exchanges", "holders", "ins", "outs", "intras")}
    return {"case": src, "lay": lay, "rseed": rng.below(2 ** 31)}


def ods_render(src):
    """-> (rows of cell values, rowmap, struct) of the sheet; deterministic in the source"""
    from harness import l1
    return l1.render(src["case"], src["lay"], core.Rng(src["rseed"], 51))


def _q(x):
    """exact rational in 1e-11 units, JSON-able: int when integral, else 'n/d' (Fraction() reads both back)"""
    from fractions import Fraction
    x = Fraction(x)
    return x.numerator if x.denominator == 1 else f"{x.numerator}/{x.denominator}"


def split_case(src):
    """The transactions the program must compute on, per the documentation of the input sheet, from the source alone: one
    transaction per sheet row (row id = sheet row number), and every acquisition with a non-zero crypto fee replaced by
    (a) the same acquisition without crypto fee, fiat fee = fee x spot price, fiat_in_no_fee = the supplied value or
    crypto_in x spot price, fiat_in_with_fee = the supplied value or the sum of the two (exact rationals), and (b) an artificial
    fee-only FEE disposal of the fee at the same instant on the same account, priced at the acquisition's spot price, with
    the next artificial id -1, -2, ... in the order of the IN table; artificial disposals come after the sheet's own."""
    from fractions import Fraction
    case = src["case"]
    _, rowmap, _ = ods_render(src)

    def base(t, k, r):
        d = {f: v for f, v in r.items() if f not in ("ts_str", "type_str", "unique_id", "notes")}
        d["ts"] = list(r["ts"])
        d["row"] = rowmap[f"{t}:{k}"]
        if r.get("unique_id") is not None:
            d["uid"] = str(r["unique_id"])
        return d
    ins, outs, art = [], [], []
    for k, r in enumerate(case["ins"]):
        d = base("in", k, r)
        fee = d.pop("crypto_fee", None)
        if fee:
            x = Fraction(fee * d["spot"], U)
            y = Fraction(d["fiat_in_no_fee"]) if d.get("fiat_in_no_fee") is not None else Fraction(d["crypto_in"] * d["spot"], U)
            z = Fraction(d["fiat_in_with_fee"]) if d.get("fiat_in_with_fee") is not None else x + y
            d["fiat_fee"], d["fiat_in_no_fee"], d["fiat_in_with_fee"] = _q(x), _q(y), _q(z)
            d["split_fee"] = fee
            a = {"row": -(len(art) + 1), "ts": list(r["ts"]), "exch": r["exch"], "holder": r["holder"], "type": "FEE", "spot": d["spot"],
                 "crypto_out_no_fee": 0, "crypto_fee": fee, "artificial": True}
            if "uid" in d:
                a["uid"] = d["uid"]
            art.append(a)
        ins.append(d)
    outs = [base("out", k, r) for k, r in enumerate(case["outs"])]
    intras = [base("intra", k, r) for k, r in enumerate(case["intras"])]
    return {"asset": case["asset"], "exchanges": list(case["exchanges"]), "holders": list(case["holders"]),
            "ins": ins, "outs": outs + art, "intras": intras}


def ods_case(case, rng):
    """the end-to-end twin of a generated case (None when what stands on the sheet is not eligible any more, e.g. a dropped
    fiat_in_no_fee leaves a crypto-fee acquisition worth less than the resolution)"""
    src = ods_source(case, rng)
    if not ods_eligible(src["case"]):
        return None
    eff = split_case(src)
    for k in ("country", "env", "sched", "from", "to", "allow_neg"):
        eff[k] = case.get(k)
    eff["via"] = "ods"
    eff["source"] = src
    return eff


def ods_stats(cases):
    """size of the end-to-end stream among the given cases (for the evidence)"""
    o = [c for c in cases if c.get("via") == "ods"]
    return {"cases_run_from_real_ini_ods_files_through_parse_ods": len(o),
            "with_crypto_fee_split": sum(1 for c in o if any(r.get("split_fee") for r in c["ins"])),
            "earn_typed_acquisition_with_crypto_fee": sum(1 for c in o if any(r.get("split_fee") and r["type"] in EARN for r in c["ins"])),
            "with_sub_second_timestamp": sum(1 for c in o if has_subsecond(c)),
            "crypto_fee_lot_with_sub_second_timestamp": sum(1 for c in o if any(r.get("split_fee") and r["ts"][0] % 1_000_000 for r in c["ins"])),
            "crypto_fee_lot_with_supplied_fiat_in_with_fee": sum(1 for c in o for s in [c["source"]["case"]["ins"]]
                                                                 if any(r.get("crypto_fee") and r.get("fiat_in_with_fee") is not None for r in s)),
            "of_all_cases": len(cases)}


def ods_line_args(case, cells, from_day=None, to_day=None, allow=True):
    """arguments of model command 31 after the mode: [period; from; to; allow; sched; the input of command 41]"""
    from harness import l1, l4
    period = l4.PERIOD.get(case.get("country") or "us", case.get("env") or 0)
    a = [period, 0 if from_day is None else from_day, l4.MAXDAY if to_day is None else to_day, 1 if allow else 0, len(case["sched"])]
    for y, m in case["sched"]:
        a += [y, MCODE[m]]
    return a + l1.encode_parse_full(case["source"]["lay"], [case["asset"]], case["exchanges"], case["holders"], case["asset"], 0, cells)


def ods_files(case, d):
    """writes the configuration file and the spreadsheet of an ods case into directory d -> (ini path, ods path, the cells
    read back from the sheet)"""
    import os
    from harness import l1
    src = case["source"]
    rows, _, _ = ods_render(src)
    ini, ods = os.path.join(d, "c.ini"), os.path.join(d, "s.ods")
    with open(ini, "w", encoding="utf-8") as f:
        f.write(l1.ini_text(src["lay"], [case["asset"]], case["exchanges"], case["holders"]))
    l1.write_ods(ods, {case["asset"]: rows})
    return ini, ods, l1.read_cells(ods, case["asset"])


def ods_model_args(case, from_day=None, to_day=None, allow=True):
    """arguments of model command 31 for an ods case, without running the implementation"""
    import shutil
    import tempfile
    d = tempfile.mkdtemp(prefix="odsm", dir=core.tmp_root())
    try:
        return ods_line_args(case, ods_files(case, d)[2], from_day, to_day, allow)
    finally:
        shutil.rmtree(d, ignore_errors=True)


def impl_compute_ods(case, from_day=None, to_day=None, allow_neg=True, full=True, methods=None):
    """writes the source of an ods case as a real .ini + .ods, lets rp2 parse it (Configuration + open_ods + parse_ods, as
    rp2_main does) and runs compute_tax.  -> {'ok': dump | 'err': kind, 'msg'} plus 'parsed' (the transactions parse_ods
    produced: post-split rows, in set order) and 'line' (arguments of model command 31: the cells read back from the file)"""
    import shutil
    import tempfile
    from harness import impl, l1
    a, ex, ho = case["asset"], case["exchanges"], case["holders"]
    d = tempfile.mkdtemp(prefix="ods", dir=core.tmp_root())
    out = {}
    try:
        ini, ods, cells = ods_files(case, d)
        out["line"] = ods_line_args(case, cells, from_day, to_day, allow_neg)
        try:
            from rp2.configuration import Configuration, MIN_DATE, MAX_DATE
            from rp2.ods_parser import open_ods, parse_ods
            from rp2.tax_engine import compute_tax
            cfg = Configuration(ini, impl.country_obj(case.get("country") or "us", case.get("env")),
                                from_date=MIN_DATE if from_day is None else impl.date_of_day(from_day),
                                to_date=MAX_DATE if to_day is None else impl.date_of_day(to_day),
                                allow_negative_balances=allow_neg)
            input_data = parse_ods(cfg, a, open_ods(cfg, ods))
            parsed = l1.dump_input_data(input_data, ex, ho)
            out["parsed"] = {k: parsed[k] for k in ("ins", "outs", "intras")}
            out["ok"] = dump(compute_tax(cfg, make_engine(case["sched"], methods), input_data), full)
        except Exception as exc:  # noqa: BLE001
            out["err"] = impl.err_kind(exc)
            out["msg"] = str(exc)[:300]
    finally:
        shutil.rmtree(d, ignore_errors=True)
    return out


# ----------------------------------------------------------------------------- independent oracles (property text)
def taxable_oracle(case):
    """events in RP2's processing order per the property text: earn-typed ins, outs, transfers with non-zero fee;
    chronological, ties: ins, outs, intras, then sheet order. -> list of dicts"""
    evs = []
    for r in case["ins"]:
        if r["type"] in EARN:
            evs.append({"row": r["row"], "us": r["ts"][0], "cls": 0, "earn": True, "amt": r["crypto_in"], "ts": r["ts"], "type": r["type"]})
    for r in case["outs"]:
        tot = r.get("crypto_out_with_fee")
        if tot is None:
            tot = r["crypto_out_no_fee"] + r["crypto_fee"]
        evs.append({"row": r["row"], "us": r["ts"][0], "cls": 1, "earn": False, "amt": tot, "ts": r["ts"], "type": r["type"]})
    for r in case["intras"]:
        fee = r["crypto_sent"] - r["crypto_received"]
        if fee != 0:
            evs.append({"row": r["row"], "us": r["ts"][0], "cls": 2, "earn": False, "amt": fee, "ts": r["ts"], "type": "MOVE",
                        "spot": r.get("spot") or 0})
    # stable sort by instant of (ins ++ outs ++ intras), each set itself time-sorted (stable)
    def tsort(l):
        return sorted(l, key=lambda e: e["us"])
    ins = tsort([e for e in evs if e["cls"] == 0])
    outs = tsort([e for e in evs if e["cls"] == 1])
    intras = tsort([e for e in evs if e["cls"] == 2])
    return sorted(ins + outs + intras, key=lambda e: e["us"])


def local_year(ts):
    from datetime import datetime, timedelta, timezone
    dt = datetime(1970, 1, 1, tzinfo=timezone.utc) + timedelta(microseconds=ts[0] + ts[1] * 1_000_000)
    return dt.year


def local_day(ts):
    return (ts[0] + ts[1] * 1_000_000) // DAY


def method_for(sched, year):
    best = None
    for y, m in sched:
        if y <= year and (best is None or y > best[0]):
            best = (y, m)
    return best[1] if best else None


def rank(m, lot, pos):
    if m == "fifo":
        return (lot["ts"][0], pos)
    if m == "lifo":
        return (-lot["ts"][0], -lot["row"])
    if m == "hifo":
        return (-lot["spot"], lot["ts"][0], lot["row"])
    return (lot["spot"], lot["ts"][0], lot["row"])


def sorted_lots(case):
    return sorted(case["ins"], key=lambda r: r["ts"][0])


def coverable(case):
    """the property's own criterion for 'lots acquired so far cannot cover it': returns the index of the first
    taxable event whose cumulative disposals exceed the lots acquired at or before it, else None.
    Every transfer fee counts, however small its fiat value (property C03: a transfer with a non-zero fee is taxed)"""
    lots = sorted_lots(case)
    used = 0
    for k, e in enumerate(taxable_oracle(case)):
        if e["earn"]:
            continue
        used += e["amt"]
        have = sum(l["crypto_in"] for l in lots if l["ts"][0] <= e["us"])
        if used > have:
            return k
    return None


def intra_fee_taxed(e):
    """the property text (C03): a transfer between own accounts is a taxable event iff its fee is non-zero -- whatever the
    fee is worth.  (The implementation once compared the fiat value of the fee at 13 decimals: finding F8, repaired.)"""
    return e["amt"] != 0


def is_dust_fee(e):
    """informational: a non-zero transfer fee whose fiat value rounds to 0 at 13 decimals (the shape of finding F8);
    used only to tag a violation, never to excuse one"""
    return e["amt"] != 0 and round_half_even_13(e["amt"] * e.get("spot", 0)) <= 0


def round_half_even_13(prod_units22):
    """value = prod * 1e-22; quantised to 13 decimals -> integer in 1e-13 units"""
    q, r = divmod(prod_units22, 10 ** 9)
    if 2 * r > 10 ** 9 or (2 * r == 10 ** 9 and q % 2 == 1):
        q += 1
    return q
