"""Shared run of the full-report checks (C13, C19): generated multi-asset inputs, one report
generation per input in a fresh interpreter (l5.run_workers), the Coq model of the generator
(Model/FullReport.v, driver command 50) on the same input + the implementation's own unfiltered
fractions, and the cell-by-cell comparison.  Results are cached like harness/l2.py's."""
import gettext
import json
import os

from harness import core, hist, l2, l5

LOCALES = os.path.join(core.REPO, "src", "rp2", "locales")
DATA = os.path.join(core.REPO, "src", "rp2", "plugin", "report", "data")
NOTES = ["", "", "fee 0.1%", "moved to cold wallet", "gift from Ann", "x", "OTC"]


# ----------------------------------------------------------------------------- inputs of the model besides the rinput
_msgids = {}


def msgids():
    """[(msgid, upper?)] the model wants translated (driver cmd 51)"""
    if "v" not in _msgids:
        r = l5.R(core.run_model(["51"])[0])
        out = []
        for _ in range(r.z()):
            s = r.s()
            out.append((s, r.z() == 1))
        _msgids["v"] = out
    return _msgids["v"]


_texts = {}


def texts_for(lang):
    """translations of msgids() in the message catalogue of `lang` (read with gettext, independently of rp2)"""
    if lang not in _texts:
        tr = gettext.translation("messages", localedir=LOCALES, languages=[lang])
        _texts[lang] = [(tr.gettext(m).upper() if up else tr.gettext(m)) for m, up in msgids()]
    return _texts[lang]


_dims = {}


def template_dims(country, lang):
    """(legend rows, legend cols, summary rows, summary cols) of the shipped template"""
    key = (country, lang)
    if key not in _dims:
        import ezodf
        p = os.path.join(DATA, country, f"template_rp2_full_report_{lang}.ods")
        doc = ezodf.opendoc(p)
        d = {s.name: (s.nrows(), s.ncols()) for s in doc.sheets}
        _dims[key] = d["__Legend_rp2_full_report"] + d["__Summary"]
    return _dims[key]


def all_rows(case):
    return case["ins"] + case["outs"] + case["intras"]


def encode_env(multi):
    a = []
    tx = texts_for(multi["lang"])
    a.append(len(tx))
    for s in tx:
        a += l5.enc_str(s)
    a += list(template_dims(multi["country"], multi["lang"]))
    cases = sorted(multi["assets"], key=lambda c: c["asset"])
    a.append(len(cases))
    for c in cases:
        rows = [(cls, r) for cls, key in enumerate(("ins", "outs", "intras")) for r in c[key]]
        a.append(len(rows))
        for cls, r in rows:           # key = 3 * row id + table (Model/FullReport.v: extra_key)
            a += [3 * r["row"] + cls] + l5.enc_str(r.get("uid") or "") + l5.enc_str(r.get("notes") or "")
    return a


def model_line(multi, fracs_by_asset, cmd=50):
    return hist.line(cmd, l5.encode_rinput(multi, fracs_by_asset) + encode_env(multi))


# ----------------------------------------------------------------------------- generation
def decorate(rng, multi, uid_pct=80):
    """unique ids (distinct over the whole input) and notes"""
    for c in multi["assets"]:
        for r in all_rows(c):
            if rng.chance(uid_pct):
                r["uid"] = f"{c['asset'].lower()}{'n' if r['row'] < 0 else ''}{abs(r['row'])}x{rng.below(1000)}"
            if rng.chance(40):
                r["notes"] = rng.choice(NOTES)
    return multi


def first_year(multi):
    return min(hist.local_year(r["ts"]) for c in multi["assets"] for r in all_rows(c))


def gen_case(rng, k):
    country = ["us", "us", "es", "ie", "jp", "generic", "us", "generic"][k % 8]
    kind = k % 16
    if kind == 5:
        # many holders (capacity of the Tax sheet, finding F12): 18 .. 23 holders, all with a balance
        nh = rng.range(18, 23)
        m = l5.gen_multi(rng, country, n_assets=1, n_max=3, accounts=(1, nh), window=False)
        c = m["assets"][0]
        base = max(r["ts"][0] for r in all_rows(c)) + hist.DAY
        row = max([r["row"] for r in all_rows(c)] + [3]) + 50
        for h in range(nh):
            c["ins"].append({"ts": [base + h * 3600_000_000, 0], "exch": 0, "holder": h, "type": "BUY", "spot": hist.U,
                             "crypto_in": hist.U, "row": row + h})
        m["kind"] = "many-holders"
    elif kind == 11:
        # one-entry schedule that does not start in 1970 (finding F10)
        m = l5.gen_multi(rng, country if country in ("us", "generic") else "us", window=rng.chance(50))
        m["sched"] = [[min(first_year(m), rng.choice([2015, 2017, 2019, 1971])), rng.choice(hist.METHS)]]
        m["kind"] = "single-late-schedule"
    elif kind in (13, 3, 8):
        # 2-4 assets, mid-year from-date: hidden lots / years whose detail rows are all hidden (findings F2, F3)
        m = l5.gen_multi(rng, country, n_assets=rng.range(2, 4), window=False, mixed_pct=35)
        days = sorted({hist.local_day(r["ts"]) for c in m["assets"] for r in all_rows(c)})
        m["from"] = max(0, rng.choice(days) + rng.choice([0, 1, 1, 30, 90]))
        # reversal points (a row dated later than the row that follows it in time, mixed UTC offsets): the from-date on the
        # earlier row's day keeps it and must hide the later one
        rev = []
        for c in m["assets"]:
            rows = sorted(all_rows(c), key=lambda r: r["ts"][0])
            rev += [hist.local_day(x["ts"]) for x, y in zip(rows, rows[1:]) if hist.local_day(y["ts"]) < hist.local_day(x["ts"])]
        if rev and rng.chance(60):
            m["from"] = rng.choice(rev)
        if rng.chance(30):
            m["to"] = m["from"] + rng.choice([0, 10, 200, 400])
        m["kind"] = "multi-from"
        if kind != 13 or rng.chance(60):
            # asset names that are prefixes of one another followed by digits (ETH / ETH2, LUNA / LUNA2): "B1" + row 13 and
            # "B11" + row 3 spell the same text, so keys built by gluing name and row number collide across assets
            for c, name in zip(m["assets"], ["B1", "B11", "B111", "B1111"]):
                c["asset"] = name
            m["kind"] = "multi-from-prefix-names"
            # make the collision real in most of them: the from-date hides the first lot of B11 (row k), and a transaction of B1
            # that stays visible sits on row "1k"
            a, b = m["assets"][0], m["assets"][1]
            first = min(b["ins"], key=lambda r: r["ts"][0])
            later = [r for r in b["outs"] + [x for x in b["intras"] if x["crypto_sent"] != x["crypto_received"]]
                     if hist.local_day(r["ts"]) > hist.local_day(first["ts"])]
            if rng.chance(80) and first["row"] > 0 and later:
                m["from"] = hist.local_day(first["ts"]) + 1
                m["to"] = None
                if rng.chance(70):
                    m["sched"] = [[1970, "fifo"]]       # the first lot is then certainly the one the first later disposal consumes
                target = int("1" + str(first["row"]))
                vis = [r for r in all_rows(a) if hist.local_day(r["ts"]) >= m["from"] and r["row"] > 0]
                if vis and target not in {r["row"] for r in all_rows(a)}:
                    rng.choice(vis)["row"] = target
    else:
        m = l5.gen_multi(rng, country)
        m["kind"] = "general"
    m = decorate(rng, m)
    if k % 5 == 2 or has_in_crypto_fee(m):
        make_e2e(rng, m)
    return m


# ----------------------------------------------------------------------------- end-to-end stream (real .ini / .ods, parsed by rp2)
OPTIONAL = {"ins": ["crypto_fee", "fiat_in_no_fee", "fiat_in_with_fee", "fiat_fee"],
            "outs": ["crypto_out_with_fee", "fiat_out_no_fee", "fiat_fee"], "intras": []}
TKEY = (("ins", "in"), ("outs", "out"), ("intras", "intra"))


def has_in_crypto_fee(m):
    return any(r.get("crypto_fee") for c in m["assets"] for r in c["ins"])


def is_e2e(m):
    return m.get("input") == "ods"


def make_e2e(rng, m):
    """turn a generated case into an end-to-end one: a random column layout (crypto_fee and unique_id mapped) and some
    acquisitions with a crypto fee.  The parser splits such a row into the acquisition + an artificial fee-only disposal, so
    crypto_in is raised by the fee to keep the history's balances as generated."""
    from harness import l1
    lay = None
    for _ in range(400):
        lay = l1.gen_layout(rng)
        if "crypto_fee" in lay["in"] and all("unique_id" in lay[t] for t in l1.TABLES):
            break
    else:
        lay = l1.gen_layout(rng, compact=True)
    for c in m["assets"]:
        for r in c["ins"]:
            dust = hist.round_half_even_13(r["crypto_in"] * r["spot"]) == 0 and r.get("fiat_in_no_fee") is None
            if r.get("crypto_fee"):
                if dust or "crypto_fee" not in lay["in"]:
                    r.pop("crypto_fee")
                else:
                    r["crypto_in"] += r["crypto_fee"]
            elif r["type"] == "BUY" and r.get("fiat_fee") is None and not dust and "crypto_fee" in lay["in"] and rng.chance(40):
                fee = rng.choice([1, 1000, 10 ** 8, r["crypto_in"] // 100 + 1])
                r["crypto_fee"] = fee
                r["crypto_in"] += fee
    m["input"] = "ods"
    m["lay"] = lay
    m["kind"] = m.get("kind", "general") + "+ods"
    return m


def e2e_files(m):
    """-> (ini text, {asset: rows}, {asset: rowmap}); deterministic in the case (the junk / gaps of each sheet are drawn
    from a generator seeded by the sheet's content)"""
    from harness import l1
    lay = m["lay"]
    names = [c["asset"] for c in m["assets"]]
    sheets, rowmaps = {}, {}
    for c in m["assets"]:
        cc = {"asset": c["asset"], "exchanges": m["exchanges"], "holders": m["holders"]}
        for key, t in TKEY:
            rows = []
            for r in c[key]:
                d = {k: v for k, v in r.items() if k not in ("row", "uid", "notes")}
                for f in OPTIONAL[key]:
                    if f not in lay[t]:
                        d.pop(f, None)
                if r.get("uid") and "unique_id" in lay[t]:
                    d["unique_id"] = r["uid"]
                if r.get("notes") and "notes" in lay[t]:
                    d["notes"] = r["notes"]
                rows.append(d)
            cc[key] = rows
        rng = core.Rng(int(core.case_hash(cc), 16) % (2 ** 31), 51)
        sheets[c["asset"]], rowmaps[c["asset"]], _ = l1.render(cc, lay, rng)
    return l1.ini_text(lay, names, m["exchanges"], m["holders"]), sheets, rowmaps


def job_of(m):
    job = {"multi": m, "generator": "rp2_full_report"}
    if is_e2e(m):
        job["input"] = "ods"
        job["ini"], job["sheets"], _ = e2e_files(m)
    return job


def effective_case(m, res):
    """the case the model and the oracles see.  Constructor path: the generated case itself.  End-to-end path: the
    transactions as the parser produced them (row ids, timestamps, accounts, types, amounts, unique ids, notes and the
    artificial fee-only disposals come from the worker's dump of the parsed InputData); of the generating rows only the
    information WHICH optional cells were filled is used (the derived fiat values are not on the 1e-11 grid, so the model
    re-derives them with the constructors' rules, as the parser's second construction does)."""
    import copy
    from harness import l1
    if not is_e2e(m) or not res.get("parsed"):
        return m
    _, _, rowmaps = e2e_files(m)
    lay = m["lay"]
    eff = {k: v for k, v in m.items() if k not in ("assets", "lay", "input")}
    eff["assets"] = []
    for c in m["assets"]:
        a = c["asset"]
        P = res["parsed"].get(a)
        if P is None:
            return m
        new = {"asset": a, "exchanges": m["exchanges"], "holders": m["holders"]}
        for key, t in TKEY:
            spec = {rowmaps[a][f"{t}:{k}"]: (k, d) for k, d in enumerate(c[key])}
            regular, art, used = [], [], set()
            for p in P[key]:
                row = {k: copy.deepcopy(v) for k, v in p.items() if k not in ("fiat", "crypto_fee_parsed", "crypto_out_with_fee_parsed")}
                row["uid"] = row.get("uid") or None
                row["notes"] = row.get("notes") or None
                if key == "intras" and not row.get("spot"):
                    row["spot"] = None
                hit = spec.get(p["row"]) if p["row"] not in used else None
                if hit is None:
                    row["artificial"] = True
                    art.append(row)
                    continue
                used.add(p["row"])
                k, d = hit
                for f in OPTIONAL[key]:
                    if f in lay[t] and d.get(f) is not None:
                        row[f] = l1.num11_of_float(l1.fnum(d[f]))
                regular.append((k, row))
            new[key] = [r for _, r in sorted(regular, key=lambda x: x[0])] + sorted(art, key=lambda r: abs(r["row"]))
        eff["assets"].append(new)
    return eff


def corpus_cases(prop):
    out = []
    d = os.path.join(core.VERIF, "corpus", prop)
    if os.path.isdir(d):
        for f in sorted(os.listdir(d)):
            if f.endswith(".json"):
                c = json.load(open(os.path.join(d, f)))["case"]
                c.setdefault("kind", "corpus:" + f[:-5])
                out.append(c)
    return out


def known_replays(prop):
    """replays of `known:` findings (findings/*.json named in KNOWN_FINDINGS.txt for the property) run with the corpus"""
    out = []
    try:
        for line in open(core.KNOWN, encoding="utf-8"):
            if line.startswith("known:") and f"property={prop} " in line:
                for tok in line.split("::")[0].split():
                    if tok.startswith("replay="):
                        p = os.path.join(core.VERIF, tok[len("replay="):])
                        if os.path.exists(p):
                            c = json.load(open(p))["case"]
                            c.setdefault("kind", "known:" + os.path.basename(p)[:-5])
                            out.append(c)
    except OSError:
        pass
    return out


def n_cases(tier):
    return 208 if tier == "quick" else 6000


def gen_cases(tier):
    rng = core.Rng(core.seed(), 50)
    cases = corpus_cases("C13") + corpus_cases("C19") + known_replays("C13") + known_replays("C19")
    for k in range(n_cases(tier)):
        cases.append(gen_case(rng, k))
    return cases


# ----------------------------------------------------------------------------- run
def fracs_of(res, multi):
    out = {}
    for c in multi["assets"]:
        d = (res.get("computed") or {}).get(c["asset"])
        if d is None:
            return None
        out[c["asset"]] = [tuple(x) for x in d["all_fractions"]]
    return out


def run_cases(cases):
    """-> (effective cases, implementation results, raw model outputs)"""
    impl = l5.run_workers([job_of(m) for m in cases])
    effs = [effective_case(m, r) for m, r in zip(cases, impl)]
    lines, idx = [], []
    for k, (m, r) in enumerate(zip(effs, impl)):
        fr = fracs_of(r, m)
        if fr is not None:
            lines.append(model_line(m, fr))
            idx.append(k)
    raw = core.run_model(lines) if lines else []
    model = [None] * len(cases)
    for k, r in zip(idx, raw):
        model[k] = r
    return effs, impl, model


def collisions(multi):
    """row ids used by more than one asset"""
    seen, n = set(), 0
    for c in multi["assets"]:
        ids = {x["row"] for x in all_rows(c)}
        n += len(ids & seen)
        seen |= ids
    return n


def judge_record(spec, multi, res, raw):
    """everything the two checks need from one run, without the raw sheets (which are large).  spec: the generated case
    (kept for replays), multi: the effective case (= spec, or the parsed transactions of an end-to-end case)"""
    from harness import full_oracle
    rec = {"case": spec, "err": res.get("err"), "msg": (res.get("msg") or "")[:200], "stage": res.get("stage"), "e2e": is_e2e(spec)}
    v13 = full_oracle.judge_c13(multi, res)
    rec["c13"] = None if v13 is None else [[t, sorted(tg)] for t, tg in v13[:6]]
    v19 = full_oracle.judge_c19(multi, res)
    rec["c19"] = None if v19 is None else [[[t, sorted(tg)] for t, tg in v19[0][:6]], v19[1], v19[2]]
    rec["corr"] = correspondence(multi, res, raw)[:6]
    rec["corr_links"] = link_correspondence(multi, res, raw)[:6]
    st = {"cells": 0, "nontriv13": False, "collisions": collisions(multi),
          "artificial": sum(1 for c in multi["assets"] for r in c["outs"] if r.get("artificial"))}
    if not res.get("err"):
        st["cells"] = sum(len(s["cells"]) for s in res["sheets"])
        d = res["computed"]
        st["nontriv13"] = (sum(len(x["fractions"]) for x in d.values()) >= 2
                           and sum(1 for x in d.values() for k in ("ins", "outs", "intras") if x[k]) >= 2)
    rec["stats"] = st
    return rec


def judge_cases(cases):
    effs, impl, model = run_cases(cases)
    return [judge_record(s_, m, r, raw) for s_, m, r, raw in zip(cases, effs, impl, model)]


def run(tier):
    """-> {'records': [judge_record ...]} for the corpus + generated stream; cached (compact) for the two checks"""
    name = f"l5full_{tier}_{core.seed()}"
    got = l2.cache_get(name)
    if got:
        return got
    cases = gen_cases(tier)
    recs = []
    step = 400
    for i in range(0, len(cases), step):
        recs += judge_cases(cases[i:i + step])
    res = {"records": recs}
    l2.cache_put(name, res)
    return res


def proofs_verdict(out, proofs, build, prop_file):
    """core.proofs_verdict, except that violations matched by a `known:` line do not count as 'a failing input is in hand'"""
    if proofs is None or proofs.ok:
        return
    known = [k["match"] for k in core.known_findings(out.prop) if k["match"]]
    if any(v["found_input"] and not any(k in v["tags"] for k in known) for v in out.violations):
        return
    out.violation(f"proof obligations of Properties/{prop_file} no longer check:\n" + proofs.log[-2000:],
                  {"theorems": proofs.theorems, "translator": build.translator}, tags={"proof-broken"}, found_input=False)


# ----------------------------------------------------------------------------- comparison
MODEL_ERR = {11: "KeyError", 12: "IndexError"}


def model_outcome(raw):
    """-> ('ok', sheets) | ('err', name)"""
    if raw is None:
        return ("none", None)
    if raw[0] == 0:
        return ("ok", l5.decode_report(raw, 1))
    return ("err", MODEL_ERR.get(raw[0], f"model-error-{raw[0]}"))


def correspondence(multi, res, raw):
    """differences between the model's report and the implementation's file -> list of texts (empty = equal)"""
    kind, val = model_outcome(raw)
    if kind == "none":
        return []
    if res.get("err"):
        if kind == "err" and val == res["err"]:
            return []
        return [f"implementation raised {res['err']} ({res.get('msg', '')[:100]}), model: {val if kind == 'err' else 'a report'}"]
    if kind == "err":
        return [f"model predicts {val}, the implementation wrote a report"]
    out = []
    ods = res["sheets"]
    if [s["name"] for s in ods] != [s["name"] for s in val]:
        out.append(f"sheets {[s['name'] for s in ods]}, model: {[s['name'] for s in val]}")
        return out
    for ms, os_ in zip(val, ods):
        if (ms["rows"], ms["cols"]) != (os_["nrows"], os_["ncols"]):
            out.append(f"sheet {ms['name']!r}: size {os_['nrows']} x {os_['ncols']}, model {ms['rows']} x {ms['cols']}")
        for r, c, txt in compare_values(ms, os_)[:6]:
            out.append(f"sheet {ms['name']!r} cell ({r},{c}): {txt}")
    return out


def value_mismatch(p, cell):
    """l5.cell_mismatch on the VALUE a cell shows: a hyperlink is looked through on both sides (which cells are links and
    where they lead is C19's projection, see link_correspondence)"""
    from decimal import Decimal
    inner = p[3] if p[0] == "link" else p
    f = cell[2] if cell else None
    m = l5.LINK_RE.match(f) if f else None
    if not m:
        return l5.cell_mismatch(inner, cell)
    txt = m.group(4)
    if inner[0] in ("num", "int"):
        try:
            got = Decimal(txt)
        except Exception:  # noqa: BLE001
            return f"hyperlink payload {txt!r} is not a number"
        want = l5.dec_of(inner[1], inner[2]) if inner[0] == "num" else Decimal(inner[1])
        return None if got == want else f"hyperlink payload {txt} differs from {want}"
    if inner[0] == "str":
        return None if txt == f'"{inner[1]}"' else f"hyperlink payload {txt!r}, expected {inner[1]!r}"
    if inner[0] == "ts":
        w = l5.render_ts(inner[1], inner[2])
        return None if txt == f'"{w}"' else f"hyperlink payload {txt!r}, expected {w!r}"
    if inner[0] == "empty":
        return None if txt == '""' else f"hyperlink payload {txt!r}, expected nothing"
    return f"unsupported payload {inner} under a hyperlink"


def compare_values(model_sheet, ods_sheet):
    """every cell the model writes shows the model's value; every non-empty cell of the file was written by the model"""
    out = []
    cells = {(r, c): (t, v, f) for r, c, t, v, f in ods_sheet["cells"]}
    fin = l5.final_cells(model_sheet["writes"])
    for (r, c), p in sorted(fin.items()):
        if r >= ods_sheet["nrows"] or c >= ods_sheet["ncols"]:
            out.append((r, c, f"model writes outside the sheet ({ods_sheet['nrows']} x {ods_sheet['ncols']})"))
            continue
        mm = value_mismatch(p, cells.get((r, c)))
        if mm:
            out.append((r, c, mm))
    for (r, c), cell in sorted(cells.items()):
        if (r, c) not in fin:
            out.append((r, c, f"cell holds {cell[1]!r} {cell[2]!r} but nothing should be written there"))
    return out


# ----------------------------------------------------------------------------- shrinking of a failing input
_shrunk = {"n": 0}


def _persisting(cands, pred):
    """run the candidates in parallel, return those on which the violation persists"""
    if not cands:
        return []
    res = l5.run_workers([job_of(m) for m in cands])
    keep = []
    for m, r in zip(cands, res):
        try:
            if pred(effective_case(m, r), r):
                keep.append(m)
        except Exception:  # noqa: BLE001  (an oracle tripping over a degenerate candidate is not a persisting violation)
            pass
    return keep


def shrink(multi, pred, max_shrinks=2):
    """greedy reduction of a failing multi-asset input: drop assets, cut each asset's history from the end (a prefix in
    time of a valid history is valid), drop window bounds, schedule entries.  pred(multi, worker_result) -> violation persists."""
    import copy
    if _shrunk["n"] >= max_shrinks:
        return multi
    _shrunk["n"] += 1
    cur = copy.deepcopy(multi)
    for _ in range(4):                                   # assets
        if len(cur["assets"]) <= 1:
            break
        cands = []
        for k in range(len(cur["assets"])):
            m = copy.deepcopy(cur)
            del m["assets"][k]
            cands.append(m)
        ok = _persisting(cands, pred)
        if not ok:
            break
        cur = ok[0]
    for k in range(len(cur["assets"])):                  # histories
        c = cur["assets"][k]
        rows = sorted(all_rows(c), key=lambda r: r["ts"][0])
        cands = []
        for n in range(1, len(rows)):
            keep = {id(r) for r in rows[:n]}
            m = copy.deepcopy(cur)
            for key in ("ins", "outs", "intras"):
                m["assets"][k][key] = [copy.deepcopy(r) for r in c[key] if id(r) in keep]
            if m["assets"][k]["ins"]:
                cands.append(m)
        ok = _persisting(cands[:24], pred)
        if ok:
            cur = ok[0]
    for key in ("to", "from"):                           # window
        if cur.get(key) is not None:
            m = copy.deepcopy(cur)
            m[key] = None
            if _persisting([m], pred):
                cur = m
    cur["shrunk_from"] = core.case_hash(multi)
    return cur


def link_map_model(sheets):
    out = {}
    for s in sheets:
        for (r, c), p in l5.final_cells(s["writes"]).items():
            if p[0] == "link":
                out[(s["name"], r, c)] = (p[1], p[2])
    return out


def link_map_ods(sheets):
    out = {}
    for s in sheets:
        for r, c, _t, _v, f in s["cells"]:
            if f:
                m = l5.LINK_RE.match(f)
                out[(s["name"], r, c)] = (m.group(1), int(m.group(2))) if m and m.group(2) == m.group(3) else ("?", f[:60])
    return out


def link_correspondence(multi, res, raw):
    """projection of the correspondence on what C19 speaks about: which cells are hyperlinks and where they lead"""
    kind, val = model_outcome(raw)
    if kind == "none":
        return []
    if res.get("err"):
        if res["err"] != "KeyError":
            return []                                 # other failures of the generator are C13's business
        return [] if (kind == "err" and val == "KeyError") else [f"implementation raised KeyError ({res.get('msg', '')[:80]}), model: {val if kind == 'err' else 'a report'}"]
    if kind == "err":
        return [f"model predicts {val}, the implementation wrote a report"] if val == "KeyError" else []
    a, b = link_map_model(val), link_map_ods(res["sheets"])
    out = []
    for k in sorted(set(a) | set(b)):
        if a.get(k) != b.get(k):
            out.append(f"sheet {k[0]!r} cell ({k[1]},{k[2]}): link {b.get(k)}, model {a.get(k)}")
    return out
