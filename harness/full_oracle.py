"""Independent oracles for the full report (C13, C19): they judge the .ods file the implementation wrote
against the property texts, using only the input case, the implementation's ComputedData dump
(l5_worker) and the message catalogue -- NOT the Coq model and not its row arithmetic.  Tables are
located by their (translated) title cell; a table's rows are the consecutive non-blank rows that
follow its three header rows; the column order is the documented one (Legend of the report)."""
import gettext
import os
import re
from decimal import Decimal

from harness import core, hist, l5, oracle
from harness.impl import date_of_day

LOCALES = os.path.join(core.REPO, "src", "rp2", "locales")
TS_RE = re.compile(r"^\d{4}-\d\d-\d\d \d\d:\d\d:\d\d")
_tr = {}


def T(lang):
    if lang not in _tr:
        _tr[lang] = gettext.translation("messages", localedir=LOCALES, languages=[lang]).gettext
    return _tr[lang]


def dec(p):
    return l5.dec_of(p[0], p[1])


def units(u):
    return l5.dec_of(u, -11)


# ----------------------------------------------------------------------------- reading cells
class Sheet:
    def __init__(self, s):
        self.name, self.nrows, self.ncols = s["name"], s["nrows"], s["ncols"]
        self.cells = {(r, c): (t, v, f) for r, c, t, v, f in s["cells"]}

    def raw(self, r, c):
        return self.cells.get((r, c))

    def link(self, r, c):
        """-> (sheet, row_from, row_to) of a HYPERLINK cell, None for a plain cell"""
        x = self.cells.get((r, c))
        if not x or not x[2]:
            return None
        m = l5.LINK_RE.match(x[2])
        if not m:
            return ("?", -1, -1)
        return (m.group(1), int(m.group(2)), int(m.group(3)))

    def shown(self, r, c):
        """the value a reader sees: float / Decimal (hyperlinked number) / str / None"""
        x = self.cells.get((r, c))
        if not x:
            return None
        t, v, f = x
        if f:
            m = l5.LINK_RE.match(f)
            if not m:
                return ("formula", f)
            txt = m.group(4)
            if len(txt) >= 2 and txt[0] == '"' and txt[-1] == '"':
                return txt[1:-1]
            try:
                return Decimal(txt)
            except Exception:  # noqa: BLE001
                return ("formula", f)
        if isinstance(v, dict) and "float" in v:
            return float.fromhex(v["float"])
        return v

    def blank(self, r, c):
        v = self.shown(r, c)
        return v is None or v == ""

    def find_title(self, text, start=0):
        for r in range(start, self.nrows):
            if self.shown(r, 0) == text:
                return r
        return None

    def rows_while(self, start, col):
        """consecutive rows from `start` whose cell in `col` is not blank"""
        out = []
        r = start
        while r < self.nrows and not self.blank(r, col):
            out.append(r)
            r += 1
        return out


def num_eq(shown, want):
    """cell value vs computed Decimal: equal as doubles"""
    if isinstance(shown, bool) or shown is None or isinstance(shown, (str, tuple)):
        return False
    return float(shown) == float(want)


def text_eq(shown, want):
    if want == "":
        return shown in (None, "")
    return shown == want


# ----------------------------------------------------------------------------- expectations from the input
def expected_methods(sched):
    if len(sched) == 1:
        return sched[0][1].upper()
    out, old = [], 1970
    for y, m in sched:
        out.append(f"{old}->{y}:{m.upper()}" if y - old > 1 else f"{y}:{m.upper()}")
        old = y
    return ", ".join(out)


def by_row(case):
    """row id -> (table, row dict) for ins / outs / intras (ids are distinct within an asset's tables)"""
    d = {}
    for k in ("ins", "outs", "intras"):
        for r in case[k]:
            d[(k, r["row"])] = r
    return d


def tsorted(rows):
    return sorted(rows, key=lambda r: r["ts"][0])


def fmt8(u):
    return f"{units(u):.8f}"


class Report:
    """the .ods of one run, with the per-asset pieces located"""

    def __init__(self, multi, res):
        self.multi, self.res = multi, res
        self.t = T(multi["lang"])
        self.sheets = {s["name"]: Sheet(s) for s in res["sheets"]}
        self.order = [s["name"] for s in res["sheets"]]

    def inout(self, asset):
        return self.sheets.get(self.t("{} In-Out").format(asset))

    def tax(self, asset):
        return self.sheets.get(self.t("{} Tax").format(asset))

    def type_name(self, ty):
        return self.t(ty.lower()).upper()


def check_c13(multi, res):
    """-> list of (text, tags)"""
    out = []

    def bad(text, *tags):
        out.append((text, set(tags)))
    rp = Report(multi, res)
    t = rp.t
    ex, ho = multi["exchanges"], multi["holders"]
    assets = sorted(multi["assets"], key=lambda c: c["asset"])
    want_sheets = [t("Legend"), t("Summary")]
    for c in assets:
        want_sheets += [t("{} In-Out").format(c["asset"]), t("{} Tax").format(c["asset"])]
    if rp.order != want_sheets:
        bad(f"sheets of the report: {rp.order}, expected {want_sheets}", "sheets")
        return out
    # ---- Legend
    lg = rp.sheets[t("Legend")]
    r = lg.find_title(t("Accounting Method"))
    if r is None:
        bad("Legend has no 'Accounting Method' line", "legend")
    else:
        want = expected_methods(multi["sched"])
        if lg.shown(r, 1) != want:
            bad(f"Legend states accounting method {lg.shown(r, 1)!r}, the run used {want!r}", "legend")
        wf = "non-specified" if multi.get("from") is None else str(date_of_day(multi["from"]))
        wt = "non-specified" if multi.get("to") is None else str(date_of_day(multi["to"]))
        if multi.get("from") == l5.MIN_DAY:
            wf = "non-specified"          # a from-date equal to 1970-01-01 is the "no filter" value
        if multi.get("to") == l5.MAX_DAY:
            wt = "non-specified"
        if lg.shown(r + 1, 1) != wf or lg.shown(r + 2, 1) != wt:
            bad(f"Legend states date filters ({lg.shown(r + 1, 1)!r}, {lg.shown(r + 2, 1)!r}), the run used ({wf!r}, {wt!r})", "legend")
    summary_expected = []
    for c in assets:
        a = c["asset"]
        d = res["computed"][a]
        rows = by_row(c)
        mono = dates_monotone(c) or multi.get("to") is None       # F9 concerns the to-date cut only
        io, tx = rp.inout(a), rp.tax(a)
        # ---------------- In-Out sheet
        # running sums over the whole history, in time order (ties: sheet order)
        run_in, s = {}, 0
        for r_ in tsorted(c["ins"]):
            s += r_["crypto_in"]
            run_in[r_["row"]] = s
        run_out, s, sf = {}, 0, 0
        for r_ in tsorted(c["outs"]):
            s += r_["crypto_out_no_fee"]
            sf += r_["crypto_fee"]
            run_out[r_["row"]] = (s, sf)
        run_x, s = {}, 0
        for r_ in tsorted(c["intras"]):
            s += r_["crypto_sent"] - r_["crypto_received"]
            run_x[r_["row"]] = s
        seen_ts_rows = 0
        # -- in table
        for key, title, dump in (("ins", "In-Flow Detail", d["ins"]), ("outs", "Out-Flow Detail", d["outs"]), ("intras", "Intra-Flow Detail", d["intras"])):
            tr_ = io.find_title(t(title))
            if tr_ is None:
                bad(f"{io.name}: table '{title}' not found", "table-missing")
                continue
            got = io.rows_while(tr_ + 3, 1)
            seen_ts_rows += len(got)
            if len(got) != len(dump):
                bad(f"{io.name}: table '{title}' shows {len(got)} rows, the window holds {len(dump)} transactions", "row-count", key)
            prev_us = None
            for k, (rr, dd) in enumerate(zip(got, dump)):
                x = rows[(key, dd[0])]
                cells = lambda cc: io.shown(rr, cc)  # noqa: E731
                us = x["ts"][0]
                if prev_us is not None and us < prev_us:
                    bad(f"{io.name}: table '{title}' is not time-sorted at row {rr + 1}", "order", key)
                prev_us = us
                exp = []           # (column, kind, value)
                exp.append((1, "s", l5.render_ts(*x["ts"])))
                exp.append((2, "s", a))
                if key == "ins":
                    sold = dec(dd[3])
                    # sold % of the lot within the window: sum over the fractions shown (event date in the window) taken from this
                    # lot, each amount / lot amount at 31 digits -- independent of ComputedData; lots dated outside the window have none
                    want_sold = Decimal(0)
                    for f_ in d["fractions"]:
                        if f_["lot"] == x["row"]:
                            want_sold = add31(want_sold, div31(units(f_["amt"]), units(x["crypto_in"])))
                    if want_sold != sold:
                        bad(f"{io.name} row {rr + 1}: sold % of lot {x['row']} computed as {sold}, the fractions shown that consume it add up to {want_sold}",
                            "sold-pct")
                    if abs(sold) < Decimal("5e-14"):
                        if not (io.blank(rr, 0) or num_eq(cells(0), sold)):
                            bad(f"{io.name} row {rr + 1}: sold % shows {cells(0)!r} for a lot with nothing sold", "sold-pct")
                    else:
                        exp.append((0, "n", sold))
                    exp += [(3, "s", ex[x["exch"]]), (4, "s", ho[x["holder"]]), (5, "s", rp.type_name(x["type"])),
                            (6, "n", units(x["spot"])), (7, "n", units(x["crypto_in"])), (8, "n", units(run_in[x["row"]])),
                            (9, "n", dec(dd[6])), (10, "n", dec(dd[4])), (11, "n", dec(dd[5])),
                            (12, "s", t("YES") if x["type"] in hist.EARN else t("NO")), (13, "s", ""),
                            (14, "s", x.get("uid") or ""), (15, "s", x.get("notes") or "")]
                    if dd[1] != run_in[x["row"]]:
                        bad(f"computed running sum of in-transaction {x['row']} is {dd[1]}, the history gives {run_in[x['row']]}", "running-sum")
                elif key == "outs":
                    exp += [(0, "s", ""), (3, "s", ex[x["exch"]]), (4, "s", ho[x["holder"]]), (5, "s", rp.type_name(x["type"])),
                            (6, "n", units(x["spot"])), (7, "n", units(x["crypto_out_no_fee"])), (8, "n", units(x["crypto_fee"])),
                            (9, "n", units(run_out[x["row"]][0])), (10, "n", units(run_out[x["row"]][1])),
                            (11, "n", dec(dd[3])), (12, "n", dec(dd[4])), (13, "s", t("YES")),
                            (14, "s", x.get("uid") or ""), (15, "s", x.get("notes") or "")]
                else:
                    fee = x["crypto_sent"] - x["crypto_received"]
                    exp += [(0, "s", ""), (3, "s", ex[x["from_exch"]]), (4, "s", ho[x["from_holder"]]), (5, "s", ex[x["to_exch"]]),
                            (6, "s", ho[x["to_holder"]]), (7, "n", units(x.get("spot") or 0)), (8, "n", units(x["crypto_sent"])),
                            (9, "n", units(x["crypto_received"])), (10, "n", units(fee)), (11, "n", units(run_x[x["row"]])),
                            (12, "n", dec(dd[2])), (13, "s", t("YES") if dd[3] else t("NO")),
                            (14, "s", x.get("uid") or ""), (15, "s", x.get("notes") or "")]
                for col, kind, want in exp:
                    v = cells(col)
                    ok = num_eq(v, want) if kind == "n" else text_eq(v, want)
                    if not ok:
                        bad(f"{io.name} row {rr + 1} (transaction {x['row']}), column {col}: shows {v!r}, computed value {want!r}", "cell", key, f"col{col}")
        total_ts = sum(1 for (r_, c_), cell in io.cells.items() if c_ == 1 and isinstance(cell[1], str) and TS_RE.match(cell[1]))
        if total_ts != len(d["ins"]) + len(d["outs"]) + len(d["intras"]):
            bad(f"{io.name}: {total_ts} transaction rows in the sheet, the window holds {len(d['ins']) + len(d['outs']) + len(d['intras'])}", "row-count")
        # ---------------- Tax sheet
        # yearly summary
        tr_ = tx.find_title(t("Gain / Loss Summary"))
        if tr_ is None:
            bad(f"{tx.name}: yearly summary not found", "table-missing")
        else:
            got = tx.rows_while(tr_ + 3, 0)
            if len(got) != len(d["yearly"]):
                bad(f"{tx.name}: {len(got)} yearly lines shown, {len(d['yearly'])} computed", "row-count", "yearly")
            for rr, y in zip(got, d["yearly"]):
                exp = [(0, "n", Decimal(y[0])), (1, "s", a), (2, "n", dec(y[6])), (3, "s", t("LONG") if y[2] else t("SHORT")),
                       (4, "s", rp.type_name(y[1])), (5, "n", units(y[3])), (6, "n", dec(y[4])), (7, "n", dec(y[5]))]
                for col, kind, want in exp:
                    v = tx.shown(rr, col)
                    if not (num_eq(v, want) if kind == "n" else text_eq(v, want)):
                        bad(f"{tx.name} row {rr + 1} (yearly line {y[:3]}), column {col}: shows {v!r}, computed {want!r}", "cell", "yearly", f"col{col}")
                summary_expected.append((a, y))
        # balances
        tr_ = tx.find_title(t("Account Balances"))
        if tr_ is None:
            bad(f"{tx.name}: account balances not found", "table-missing")
        else:
            got = tx.rows_while(tr_ + 3, 2)
            if len(got) != len(d["balances"]):
                bad(f"{tx.name}: {len(got)} balance lines shown, {len(d['balances'])} computed", "row-count", "balances")
            totals = {}
            for rr, b in zip(got, d["balances"]):
                exp = [(0, "s", b[0]), (1, "s", b[1]), (2, "s", a), (3, "n", units(b[3])), (4, "n", units(b[4])), (5, "n", units(b[5])),
                       (6, "n", units(b[2]))]
                totals[b[1]] = totals.get(b[1], 0) + b[2]
                for col, kind, want in exp:
                    v = tx.shown(rr, col)
                    if not (num_eq(v, want) if kind == "n" else text_eq(v, want)):
                        bad(f"{tx.name} row {rr + 1} (balance {b[0]}/{b[1]}), column {col}: shows {v!r}, computed {want!r}", "cell", "balances", f"col{col}")
            r0 = tr_ + 3 + len(got)
            trows = [r_ for r_ in range(r0, tx.nrows) if tx.shown(r_, 0) == t("Total")]
            trows = [r_ for r_ in trows if r_ < r0 + len(totals) + 2]
            gotk = [(tx.shown(r_, 1), tx.shown(r_, 6)) for r_ in trows]
            wantk = sorted(totals.items())
            if [k for k, _ in gotk] != [k for k, _ in wantk] or not all(num_eq(g[1], units(w[1])) for g, w in zip(gotk, wantk)):
                bad(f"{tx.name}: per-holder totals {gotk}, sums of the final balances {wantk}", "totals")
        # average price
        tr_ = tx.find_title(t("Average Price"))
        if tr_ is None or not num_eq(tx.shown(tr_ + 3, 0), dec(d["price_per_unit"])):
            bad(f"{tx.name}: average price shows {None if tr_ is None else tx.shown(tr_ + 3, 0)!r}, computed {dec(d['price_per_unit'])}", "avg-price")
        # the figures themselves, from the input rows (not only "the report shows what was computed"): average price of
        # everything acquired up to the to-date; without a window, the yearly lines as sums over the detail fractions
        try:
            from harness.props.c10 import avg_price_ok
            if (dates_monotone(c) or multi.get("to") is None) and not avg_price_ok(c, multi.get("to"), d["price_per_unit"]):
                bad(f"{tx.name}: average price {dec(d['price_per_unit'])} is not the cost of all acquisitions up to the to-date divided by their amount",
                    "avg-price-figure")
            if multi.get("from") is None and multi.get("to") is None:
                want_y = oracle.yearly(c, d["fractions"], None, None)
                got_y = {(y[0], y[1], y[2]): [y[3], oracle.dec_of_pair(y[4]), oracle.dec_of_pair(y[5]), oracle.dec_of_pair(y[6])] for y in d["yearly"]}
                if want_y != got_y:
                    diff = sorted(set(want_y) ^ set(got_y)) or [k for k in want_y if want_y[k] != got_y.get(k)]
                    bad(f"Summary lines of {a}: {diff[:3]} differ from the sums over the detail fractions "
                        f"(expected {[want_y.get(k) for k in diff[:2]]}, reported {[got_y.get(k) for k in diff[:2]]})", "summary-figure")
        except (KeyError, TypeError, ValueError, ZeroDivisionError):
            pass            # (a case whose rows the row oracles cannot read is judged by the cell comparison only)
        # gain / loss detail
        tr_ = tx.find_title(t("Gain / Loss Detail"))
        if tr_ is None:
            bad(f"{tx.name}: gain/loss detail not found", "table-missing")
            continue
        got = tx.rows_while(tr_ + 3, 0)
        fr = d["fractions"]
        if len(got) != len(fr):
            bad(f"{tx.name}: {len(got)} gain/loss rows shown, the window holds {len(fr)} fractions", "row-count", "fractions")
        allf = [{"ev": e, "lot": l, "amt": m} for e, l, m in d["all_fractions"]]
        lab = oracle.labels(c, allf, multi.get("to")) if mono else None
        running, s = {}, 0
        for f in allf:
            s += f["amt"]
            running[(f["ev"], f["lot"])] = s
        evs = {e["row"]: e for e in hist.taxable_oracle(c)}
        for rr, f in zip(got, fr):
            e = evs[f["ev"]]
            kind = {0: "ins", 1: "outs", 2: "intras"}[e["cls"]]
            ev = rows[(kind, f["ev"])]
            tname = {0: "IN", 1: "OUT", 2: "INTRA"}[e["cls"]] + " / " + rp.type_name(e["type"])
            if lab is not None:
                ei, en, li, ln = lab[(f["ev"], f["lot"])]
            else:
                ei, en = f["ev_frac"]
                li, ln = f["lot_frac"] if f["lot_frac"] else (None, None)
            change = e["amt"]
            exp = [(0, "n", units(f["amt"])), (1, "s", a), (2, "n", units(running[(f["ev"], f["lot"])])), (3, "n", dec(f["gain"])),
                   (4, "s", t("LONG") if f["long"] else t("SHORT")), (5, "s", l5.render_ts(*ev["ts"])), (6, "s", tname),
                   (7, "n", dec(f["ev_pct"])), (8, "n", dec(f["proceeds"])), (9, "n", units(ev.get("spot") or 0)),
                   (10, "s", ev.get("uid") or ""), (11, "s", f"{ei + 1}/{en}: {fmt8(f['amt'])} of {fmt8(change)} {a}")]
            if f["lot"] is not None:
                lot = rows[("ins", f["lot"])]
                lot_pct = dec(f["lot_pct"])
                fee = dec(next(x for x in alldump_ins(res, a, c) if x[0] == f["lot"])[6])
                exp += [(12, "s", l5.render_ts(*lot["ts"])), (13, "n", lot_pct), (14, "n", dec(f["cost"])),
                        (15, "n", mul31(fee, lot_pct)), (16, "n", dec(f["cost"])), (17, "n", units(lot["spot"])),
                        (18, "s", lot.get("uid") or ""), (19, "s", f"{li + 1}/{ln}: {fmt8(f['amt'])} of {fmt8(lot['crypto_in'])} {a}")]
            else:
                exp += [(cc, "s", "") for cc in range(12, 20)]
            for col, kind_, want in exp:
                v = tx.shown(rr, col)
                if not (num_eq(v, want) if kind_ == "n" else text_eq(v, want)):
                    tg = ["cell", "fractions", f"col{col}"] + (["labels"] if col in (11, 19) else [])
                    if not mono:
                        tg.append("non-monotone-local-dates")
                    bad(f"{tx.name} row {rr + 1} (fraction {f['ev']}->{f['lot']}), column {col}: shows {v!r}, computed {want!r}", *tg)
    # ---- Summary sheet
    sm = rp.sheets[t("Summary")]
    tr_ = sm.find_title(t("Yearly Gain / Loss Summary"))
    if tr_ is None:
        bad("Summary sheet has no title", "table-missing")
    else:
        got = sm.rows_while(tr_ + 3, 0)
        if len(got) != len(summary_expected):
            bad(f"Summary sheet shows {len(got)} lines, {len(summary_expected)} yearly lines were computed", "row-count", "summary")
        for rr, (a, y) in zip(got, summary_expected):
            exp = [(0, "n", Decimal(y[0])), (1, "s", a), (2, "n", dec(y[6])), (3, "s", t("LONG") if y[2] else t("SHORT")),
                   (4, "s", rp.type_name(y[1])), (5, "n", units(y[3])), (6, "n", dec(y[4])), (7, "n", dec(y[5]))]
            for col, kind, want in exp:
                v = sm.shown(rr, col)
                if not (num_eq(v, want) if kind == "n" else text_eq(v, want)):
                    bad(f"Summary row {rr + 1} ({a} {y[:3]}), column {col}: shows {v!r}, computed {want!r}", "cell", "summary", f"col{col}")
    return out


def hist_rows(c):
    return c["ins"] + c["outs"] + c["intras"]


def dates_monotone(c):
    """local dates do not go backwards along the time-sorted history (otherwise finding F9 applies)"""
    days = [hist.local_day(r["ts"]) for r in tsorted(hist_rows(c))]
    return all(x <= y for x, y in zip(days, days[1:]))


def div31(a, b):
    from decimal import Context, ROUND_HALF_EVEN
    return Context(prec=31, rounding=ROUND_HALF_EVEN).divide(a, b)


def add31(a, b):
    from decimal import Context, ROUND_HALF_EVEN
    return Context(prec=31, rounding=ROUND_HALF_EVEN).add(a, b)


def mul31(a, b):
    """RP2Decimal product: 31 significant digits, half-even"""
    from decimal import Context, ROUND_HALF_EVEN
    return Context(prec=31, rounding=ROUND_HALF_EVEN).multiply(a, b)


def alldump_ins(res, asset, case):
    """[row, ..., fiat_fee] of every in-transaction: the dump lists the window's rows only, so the fee of a hidden lot is
    recomputed from the input (supplied fiat fee, else crypto fee x spot, else 0)"""
    d = res["computed"][asset]
    have = {x[0]: x for x in d["ins"]}
    out = []
    for r in case["ins"]:
        if r["row"] in have:
            out.append(have[r["row"]])
        else:
            if r.get("crypto_fee") is not None and r.get("fiat_fee") is None:
                fee = mul31(units(r["crypto_fee"]), units(r["spot"]))
            else:
                fee = units(r.get("fiat_fee") or 0)
            sign, digits, e = fee.as_tuple()
            m = int("".join(map(str, digits)) or "0")
            out.append([r["row"], None, None, None, None, None, [-m if sign else m, e]])
    return out


# ----------------------------------------------------------------------------- C19
def same_transaction(rp, io, r0, kind, x, asset):
    """does row r0 (0-based) of the In-Out sheet describe transaction x?  -> None | text"""
    ex, ho = rp.multi["exchanges"], rp.multi["holders"]
    want = [(1, "s", l5.render_ts(*x["ts"])), (2, "s", asset), (14, "s", x.get("uid") or "")]
    if kind == "ins":
        want += [(3, "s", ex[x["exch"]]), (4, "s", ho[x["holder"]]), (5, "s", rp.type_name(x["type"])), (6, "n", units(x["spot"])),
                 (7, "n", units(x["crypto_in"]))]
    elif kind == "outs":
        want += [(3, "s", ex[x["exch"]]), (4, "s", ho[x["holder"]]), (5, "s", rp.type_name(x["type"])), (6, "n", units(x["spot"])),
                 (7, "n", units(x["crypto_out_no_fee"])), (8, "n", units(x["crypto_fee"]))]
    else:
        want += [(3, "s", ex[x["from_exch"]]), (4, "s", ho[x["from_holder"]]), (5, "s", ex[x["to_exch"]]), (6, "s", ho[x["to_holder"]]),
                 (8, "n", units(x["crypto_sent"])), (9, "n", units(x["crypto_received"]))]
    for col, k, w in want:
        v = io.shown(r0, col)
        if not (num_eq(v, w) if k == "n" else text_eq(v, w)):
            return f"column {col} of the target row shows {v!r}, the transaction has {w!r}"
    return None


def check_c19(multi, res):
    """-> (list of (text, tags), number of links dereferenced, number of unlinked-because-hidden cells)"""
    out = []

    def bad(text, *tags):
        out.append((text, set(tags)))
    rp = Report(multi, res)
    t = rp.t
    n_links = n_hidden = 0
    assets = sorted(multi["assets"], key=lambda c: c["asset"])
    first_row_of_year = {}
    nonmono = set()
    for c in assets:
        a = c["asset"]
        d = res["computed"][a]
        io, tx = rp.inout(a), rp.tax(a)
        if io is None or tx is None:
            continue
        rows = by_row(c)
        evs = {e["row"]: e for e in hist.taxable_oracle(c)}
        visible = {("ins", x[0]) for x in d["ins"]} | {("outs", x[0]) for x in d["outs"]} | {("intras", x[0]) for x in d["intras"]}
        # where each table of the In-Out sheet lives (to know which table a target row belongs to)
        table_rows = {}
        for key, title in (("ins", "In-Flow Detail"), ("outs", "Out-Flow Detail"), ("intras", "Intra-Flow Detail")):
            tr_ = io.find_title(t(title))
            table_rows[key] = set(io.rows_while(tr_ + 3, 1)) if tr_ is not None else set()
        tr_ = tx.find_title(t("Gain / Loss Detail"))
        if tr_ is None:
            continue
        got = tx.rows_while(tr_ + 3, 0)
        fr = d["fractions"]
        if len(got) != len(fr):
            continue                                   # C13 reports this; rows cannot be aligned with fractions
        for rr, f in zip(got, fr):
            e = evs[f["ev"]]
            year = hist.local_year(e["ts"])
            first_row_of_year.setdefault((a, year), rr)
            if not dates_monotone(c):                  # (C19's F9 shape -- year blocks not contiguous -- needs no to-date)
                nonmono.add(a)
            subjects = [("event", {0: "ins", 1: "outs", 2: "intras"}[e["cls"]], f["ev"], range(5, 12))]
            if f["lot"] is not None:
                subjects.append(("lot", "ins", f["lot"], range(12, 20)))
            for what, kind, rid, cols in subjects:
                x = rows[(kind, rid)]
                vis = (kind, rid) in visible
                targets = {tx.link(rr, cc) for cc in cols}
                if not vis:
                    n_hidden += 1
                    if targets != {None}:
                        tg = sorted(z for z in targets if z)[0]
                        why = ""
                        if tg[0] == io.name and 0 < tg[1] <= io.nrows:
                            why = f"; row {tg[1]} of that sheet shows {io.shown(tg[1] - 1, 1)!r} {io.shown(tg[1] - 1, 7)!r}"
                        bad(f"{tx.name} row {rr + 1}: the {what} (transaction {rid}, {l5.render_ts(*x['ts'])}) is hidden by the date filter "
                            f"but its cells link to {tg[0]!r} row {tg[1]}{why}", "hidden-linked", what)
                    continue
                if None in targets:
                    bad(f"{tx.name} row {rr + 1}: the {what} (transaction {rid}) is shown in {io.name!r} but some of its cells carry no link", "visible-unlinked", what)
                    continue
                if len(targets) != 1:
                    bad(f"{tx.name} row {rr + 1}: the {what} cells link to different targets {sorted(targets)}", "mixed-targets", what)
                    continue
                sh, r1, r2 = next(iter(targets))
                n_links += 1
                if sh != io.name or r1 != r2:
                    bad(f"{tx.name} row {rr + 1}: the {what} links to {sh!r} rows {r1}:{r2}, expected one row of {io.name!r}", "wrong-sheet", what)
                    continue
                if (r1 - 1) not in table_rows[kind]:
                    bad(f"{tx.name} row {rr + 1}: the {what} (transaction {rid}) links to row {r1} of {io.name!r}, which is not a row of its table", "wrong-row", what)
                    continue
                why = same_transaction(rp, io, r1 - 1, kind, x, a)
                if why:
                    bad(f"{tx.name} row {rr + 1}: the {what} (transaction {rid}, {l5.render_ts(*x['ts'])}) links to row {r1} of {io.name!r}, "
                        f"which describes another transaction: {why}", "wrong-row", what)
                    continue
                # uniqueness: no other row of the table describes the same transaction, unless the input holds a twin
                same = [r_ for r_ in table_rows[kind] if same_transaction(rp, io, r_, kind, x, a) is None]
                twins = [y for y in c[kind] if y is not x and twin(kind, x, y)]
                if len(same) != 1 + len(twins):
                    bad(f"{io.name}: transaction {rid} is described by rows {sorted(r_ + 1 for r_ in same)}", "duplicate-row", what)
    # ---- Summary links
    sm = rp.sheets.get(t("Summary"))
    if sm is not None:
        tr_ = sm.find_title(t("Yearly Gain / Loss Summary"))
        got = sm.rows_while(tr_ + 3, 0) if tr_ is not None else []
        exp = [(c["asset"], y) for c in assets for y in res["computed"][c["asset"]]["yearly"]]
        if len(got) == len(exp):
            for rr, (a, y) in zip(got, exp):
                targets = {sm.link(rr, cc) for cc in range(8)}
                first = first_row_of_year.get((a, y[0]))
                if first is None:
                    n_hidden += 1
                    if targets != {None}:
                        bad(f"Summary row {rr + 1} ({a} {y[0]}): no gain/loss row of that year is shown but the line links to {sorted(z for z in targets if z)[0]}",
                            "summary-hidden-linked")
                    continue
                if len(targets) != 1 or None in targets:
                    bad(f"Summary row {rr + 1} ({a} {y[0]}): cells link to {sorted(targets, key=str)}, expected one common target", "summary-unlinked")
                    continue
                sh, r1, r2 = next(iter(targets))
                n_links += 1
                txn = t("{} Tax").format(a)
                if sh != txn or r1 != r2 or r1 - 1 != first:
                    bad(f"Summary row {rr + 1} ({a} {y[0]}): links to {sh!r} row {r1}, the first gain/loss row of {y[0]} in {txn!r} is row {first + 1}",
                        "summary-wrong-row", *(["non-monotone-local-dates"] if a in nonmono else []))
    return out, n_links, n_hidden


def twin(kind, x, y):
    keys = {"ins": ("ts", "exch", "holder", "type", "spot", "crypto_in", "uid"),
            "outs": ("ts", "exch", "holder", "type", "spot", "crypto_out_no_fee", "crypto_fee", "uid"),
            "intras": ("ts", "from_exch", "from_holder", "to_exch", "to_holder", "crypto_sent", "crypto_received", "uid")}[kind]
    return all(x.get(k) == y.get(k) for k in keys)


# ----------------------------------------------------------------------------- verdicts per run
def classify_error(multi, res):
    """tags of a generator failure on a valid input"""
    tags = {"generator-error", res["err"]}
    msg = res.get("msg", "")
    if res["err"] == "IndexError":
        holders = max((len({b[1] for b in d["balances"]}) for d in (res.get("computed") or {}).values()), default=0)
        if holders > 21:
            tags.add("tax-sheet-overflow-holders")
    if res["err"] == "KeyError" and "1970" in msg and len(multi["sched"]) == 1 and multi["sched"][0][0] != 1970:
        tags.add("single-schedule-not-1970")
    if res["err"] == "KeyError" and "_AssetAndYear" in msg:
        tags.add("summary-link-keyerror")
    return tags


def judge_c13(multi, res):
    """-> list of (text, tags) for one run of the implementation ([] = the report satisfies C13), None = input rejected
    before any report was generated"""
    if res.get("err"):
        if res.get("stage") != "computed":
            return None
        return [(f"the input is valid (compute_tax succeeds) but rp2_full_report raised {res['err']}: {res.get('msg', '')[:160]}; no report is written",
                 classify_error(multi, res))]
    return check_c13(multi, res)


def judge_c19(multi, res):
    """-> (violations [(text, tags)], links dereferenced, hidden subjects) or None when there is no report to judge"""
    if res.get("err"):
        if res.get("stage") == "computed" and res["err"] == "KeyError" and "_AssetAndYear" in res.get("msg", ""):
            return ([(f"building the link of a Summary line raised KeyError {res.get('msg', '')[:120]}: the year has a summary line but none of its "
                      "gain/loss rows is shown (from-date inside the year); no report is written", {"summary-link-keyerror"})], 0, 0)
        return None
    return check_c19(multi, res)
