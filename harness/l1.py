"""L1: configuration + ODS sheet -> parsed transactions.  Generates real .ods / .ini files,
drives Configuration + parse_ods, feeds the Coq parser model with the cells read back from the
same file, and provides the fault injectors of C12."""
import copy
import os
import tempfile
from decimal import Decimal
from fractions import Fraction

from harness import core, hist

IN_FIELDS = ["timestamp", "asset", "exchange", "holder", "transaction_type", "spot_price", "crypto_in", "crypto_fee",
             "fiat_in_no_fee", "fiat_in_with_fee", "fiat_fee", "unique_id", "notes"]
OUT_FIELDS = ["timestamp", "asset", "exchange", "holder", "transaction_type", "spot_price", "crypto_out_no_fee", "crypto_fee",
              "crypto_out_with_fee", "fiat_out_no_fee", "fiat_fee", "unique_id", "notes"]
INTRA_FIELDS = ["timestamp", "asset", "from_exchange", "from_holder", "to_exchange", "to_holder", "spot_price", "crypto_sent",
                "crypto_received", "unique_id", "notes"]
FIELDS = {"in": IN_FIELDS, "out": OUT_FIELDS, "intra": INTRA_FIELDS}
MANDATORY = {"in": IN_FIELDS[:7], "out": OUT_FIELDS[:8], "intra": INTRA_FIELDS[:9]}
FIRST_COL_OK = {"in": ["timestamp", "asset", "exchange", "holder", "transaction_type", "spot_price", "crypto_in"],
                "out": ["timestamp", "asset", "exchange", "holder", "transaction_type"],
                "intra": ["timestamp", "asset", "from_exchange", "from_holder", "to_exchange", "to_holder", "crypto_sent"]}
NUMERIC = {"spot_price", "crypto_in", "crypto_fee", "fiat_in_no_fee", "fiat_in_with_fee", "fiat_fee", "crypto_out_no_fee",
           "crypto_out_with_fee", "fiat_out_no_fee", "crypto_sent", "crypto_received"}
KEYWORD = {"in": "IN", "out": "OUT", "intra": "INTRA"}


def gen_layout(rng, compact=False):
    """random injective column assignment per table; first column holds a mandatory, never-empty field"""
    lay = {}
    for t in ("in", "out", "intra"):
        fields = list(MANDATORY[t])
        for f in FIELDS[t][len(MANDATORY[t]):]:
            if rng.chance(75):
                fields.append(f)
        ncols = len(fields) + (0 if compact else rng.range(0, 6))
        first = rng.choice(FIRST_COL_OK[t])
        cols = list(range(1, ncols))
        rng.shuffle(cols)
        m = {first: 0}
        for f in fields:
            if f != first:
                m[f] = cols.pop()
        lay[t] = m
    return lay


def fnum(units):
    """the double nearest to units * 1e-11 (what a spreadsheet cell holds)"""
    return float(Decimal(units).scaleb(-11))


def num11_of_float(x):
    """independent '%.11f': exact half-even rounding of the double to 11 decimals, in units"""
    fr = Fraction(x) * 10 ** 11
    q, r = divmod(fr.numerator, fr.denominator)
    if 2 * r > fr.denominator or (2 * r == fr.denominator and q % 2 == 1):
        q += 1
    return q


JUNK = ["x", "n/a", 12.5, 0.0, "IN", "TABLE END", None, None, "2020-01-01", True]


def render(case, lay, rng, order=None, gaps=True, junk=True, empty_tables="auto"):
    """-> (rows: list of list of python cell values, rowmap: {(table, k): sheet row number})"""
    from harness import impl
    order = order or rng.shuffle(["in", "out", "intra"])
    width = max(max(m.values()) for m in lay.values()) + 1 + (rng.range(0, 3) if junk else 0)
    rows, rowmap = [], {}
    ex, ho = case["exchanges"], case["holders"]

    def blank():
        r = [None] * width
        if rng.chance(30):
            r[0] = ""
        return r

    def fill_junk(r, used):
        if junk:
            for c in range(1, width):
                if c not in used and rng.chance(40):
                    r[c] = rng.choice(JUNK)
        return r

    src = {"in": case["ins"], "out": case["outs"], "intra": case["intras"]}
    for t in order:
        data = src[t]
        if not data and t != "in":
            if empty_tables == "never" or (empty_tables == "auto" and rng.chance(50)):
                continue
        if gaps:
            for _ in range(rng.range(0, 2)):
                rows.append(blank())
        m = lay[t]
        used = set(m.values())
        r = [None] * width
        r[0] = KEYWORD[t] if rng.chance(70) else KEYWORD[t].lower() if rng.chance(50) else KEYWORD[t].capitalize()
        rows.append(fill_junk(r, {0}))
        r = [None] * width
        for f, c in m.items():
            r[c] = f.replace("_", " ").title()
        rows.append(fill_junk(r, used))
        for k, d in enumerate(data):
            r = [None] * width
            vals = {"timestamp": impl.ts_string(*d["ts"]), "asset": case["asset"], "unique_id": d.get("unique_id"), "notes": d.get("notes")}
            if t == "intra":
                vals.update({"from_exchange": ex[d["from_exch"]], "from_holder": ho[d["from_holder"]], "to_exchange": ex[d["to_exch"]],
                             "to_holder": ho[d["to_holder"]]})
            else:
                vals.update({"exchange": ex[d["exch"]], "holder": ho[d["holder"]], "transaction_type": d["type"]})
            for f in FIELDS[t]:
                if f in NUMERIC:
                    key = "spot" if f == "spot_price" else f
                    v = d.get(key)
                    vals[f] = None if v is None else fnum(v)
            if t == "out" and vals.get("crypto_fee") is None:
                vals["crypto_fee"] = 0.0
            for f, c in m.items():
                r[c] = vals.get(f)
            rowmap[(t, k)] = len(rows) + 1
            rows.append(fill_junk(r, used))
        r = [None] * width
        r[0] = "TABLE END"
        rows.append(fill_junk(r, {0}))
    if gaps:
        for _ in range(rng.range(0, 2)):
            rows.append(blank())
    return rows, rowmap


def restrict_to_layout(case, lay, rng):
    """drop optional values whose column is not mapped; add unique ids / notes"""
    c = copy.deepcopy(case)
    for t, key in (("in", "ins"), ("out", "outs"), ("intra", "intras")):
        for k, d in enumerate(c[key]):
            for f in FIELDS[t]:
                dk = "spot" if f == "spot_price" else f
                if f not in lay[t] and dk in d and f not in MANDATORY[t]:
                    d.pop(dk)
            if "unique_id" in lay[t] and rng.chance(60):
                d["unique_id"] = rng.choice([f"tx{k}", "0xabc", 17.0])
            if "notes" in lay[t] and rng.chance(40):
                d["notes"] = rng.choice(["note", "fee included", ""]) or None
        # artificial (negative) rows do not exist in a sheet
    return c


def sheet_case(rng, compact=False, big=False):
    """a history suitable for a sheet: no negative rows, amounts mostly below 4.5e4 (exact double round trip)"""
    c = hist.gen_history(rng, n_max=10, overdraw_pct=0, optional_pct=35, mixed_pct=15)
    for key in ("ins", "outs", "intras"):
        for d in c[key]:
            for f in list(d):
                if isinstance(d[f], int) and f not in ("row", "exch", "holder", "from_exch", "from_holder", "to_exch", "to_holder") and not big:
                    if d[f] > 4 * 10 ** 15:
                        d[f] = d[f] % (4 * 10 ** 15) + 1
    # crypto fee on acquisitions (split rule)
    for d in c["ins"]:
        if d["type"] == "BUY" and "fiat_fee" not in d and rng.chance(25):
            d["crypto_fee"] = rng.choice([1, 1000, 10 ** 9, d["crypto_in"] // 100 + 1])
        if "crypto_fee" in d and "fiat_fee" in d:
            d.pop("fiat_fee")
    # keep out/intra internally consistent after the reduction
    for d in c["outs"]:
        d.pop("crypto_out_with_fee", None)
        if d["type"] == "FEE":
            d["crypto_out_no_fee"] = 0
            d["crypto_fee"] = max(1, d["crypto_fee"])
        else:
            d["crypto_out_no_fee"] = max(1, d["crypto_out_no_fee"])
    for d in c["intras"]:
        if d["crypto_received"] > d["crypto_sent"]:
            d["crypto_received"] = d["crypto_sent"]
        if d["crypto_sent"] != d["crypto_received"] and not d.get("spot"):
            d["spot"] = hist.U
    return c


# ----------------------------------------------------------------------------- files
def write_ini(path, lay, assets, exchanges, holders, extra=""):
    with open(path, "w", encoding="utf-8") as f:
        f.write("[general]\n")
        f.write("assets = " + ", ".join(assets) + "\n")
        f.write("exchanges = " + ", ".join(exchanges) + "\n")
        f.write("holders = " + ", ".join(holders) + "\n\n")
        for t in ("in", "out", "intra"):
            f.write(f"[{t}_header]\n")
            for fld, col in lay[t].items():
                f.write(f"{fld} = {col}\n")
            f.write("\n")
        f.write(extra)


def write_ods(path, sheets):
    """sheets: {name: rows}"""
    import ezodf
    doc = ezodf.newdoc("ods", path)
    for name, rows in sheets.items():
        width = max((len(r) for r in rows), default=1)
        tab = ezodf.Table(name, size=(max(1, len(rows)), max(1, width)))
        for i, r in enumerate(rows):
            for j, v in enumerate(r):
                if v is not None:
                    tab[i, j].set_value(v)
        doc.sheets += tab
    doc.save()


def read_cells(path, name):
    import ezodf
    doc = ezodf.opendoc(path)
    sheet = doc.sheets[name]
    return [[c.value for c in row] for row in sheet.rows()]


def ts_oracle(cells):
    """python-dateutil's verdict for every distinct string cell"""
    from dateutil.parser import parse
    from datetime import datetime, timezone, timedelta
    epoch = datetime(1970, 1, 1, tzinfo=timezone.utc)
    out = {}
    for row in cells:
        for v in row:
            if isinstance(v, str) and v not in out:
                try:
                    dt = parse(v)
                    if dt.tzinfo is None:
                        out[v] = (1, 0, 0)
                    else:
                        out[v] = (2, (dt - epoch) // timedelta(microseconds=1), int(dt.utcoffset().total_seconds()))
                except Exception:  # noqa: BLE001
                    out[v] = (0, 0, 0)
    return out


def enc_str(s):
    return [len(s)] + [ord(ch) for ch in s]


def encode_parse_input(lay, assets, exchanges, holders, asset, counter, cells):
    a = []
    for t in ("in", "out", "intra"):
        m = lay[t]
        a.append(len(m))
        for f, c in m.items():
            a += [FIELDS[t].index(f), c]
    for l in (assets, exchanges, holders):
        a.append(len(l))
        for s in l:
            a += enc_str(s)
    a += enc_str(asset)
    a.append(counter)
    tso = ts_oracle(cells)
    a.append(len(tso))
    for s, (k, us, off) in tso.items():
        a += enc_str(s) + [k, us, off]
    a.append(len(cells))
    for row in cells:
        a.append(len(row))
        for v in row:
            if v is None:
                a.append(0)
            elif isinstance(v, bool):
                a += [3, 1 if v else 0]
            elif isinstance(v, (int, float)):
                n, d = float(v).as_integer_ratio()
                a += [2, n, d]
            else:
                a += [1] + enc_str(str(v))
    return a


def decode_parsed(res):
    from harness.l4 import Reader
    if res[0] != 0:
        return {"err": res[0]}
    r = Reader(res)
    r.z()
    d = {"counter": r.z()}
    d["ins"] = r.lst(lambda: [r.z(), r.z(), r.z(), r.z(), r.z(), hist.TT[r.z()], r.z(), r.z(), r.z(), r.dec(), r.dec(), r.dec()])
    d["outs"] = r.lst(lambda: [r.z(), r.z(), r.z(), r.z(), r.z(), hist.TT[r.z()], r.z(), r.z(), r.z(), r.z(), r.dec(), r.dec(), r.dec()])
    d["intras"] = r.lst(lambda: [r.z(), r.z(), r.z(), r.z(), r.z(), r.z(), r.z(), r.z(), r.z(), r.z(), r.z(), r.dec()])
    for k in ("ins", "outs", "intras"):
        d[k] = sorted(d[k], key=lambda x: x[1])          # iteration order of the sets: by instant, stable
    return d


# ----------------------------------------------------------------------------- implementation
def dump_input_data(input_data, exchanges, holders):
    from datetime import datetime, timezone, timedelta
    from harness import impl
    epoch = datetime(1970, 1, 1, tzinfo=timezone.utc)
    P = lambda x: list(impl.norm_pair(*impl.dec_pair(x)))  # noqa: E731
    ts = lambda t: [(t - epoch) // timedelta(microseconds=1), int(t.utcoffset().total_seconds())]  # noqa: E731
    d = {"ins": [], "outs": [], "intras": [], "meta": {}}
    for t in input_data.unfiltered_in_transaction_set:
        d["ins"].append([t.row] + ts(t.timestamp) + [exchanges.index(t.exchange), holders.index(t.holder), t.transaction_type.name,
                        hist.units(t.spot_price), hist.units(t.crypto_in), hist.units(t.crypto_fee), P(t.fiat_in_no_fee), P(t.fiat_in_with_fee), P(t.fiat_fee)])
        d["meta"][t.row] = [t.unique_id, t.notes]
    for t in input_data.unfiltered_out_transaction_set:
        d["outs"].append([t.row] + ts(t.timestamp) + [exchanges.index(t.exchange), holders.index(t.holder), t.transaction_type.name,
                         hist.units(t.spot_price), hist.units(t.crypto_out_no_fee), hist.units(t.crypto_fee), hist.units(t.crypto_out_with_fee),
                         P(t.fiat_out_no_fee), P(t.fiat_fee), P(t.fiat_out_with_fee)])
        d["meta"][t.row] = [t.unique_id, t.notes]
    for t in input_data.unfiltered_intra_transaction_set:
        d["intras"].append([t.row] + ts(t.timestamp) + [exchanges.index(t.from_exchange), holders.index(t.from_holder), exchanges.index(t.to_exchange),
                           holders.index(t.to_holder), hist.units(t.spot_price), hist.units(t.crypto_sent), hist.units(t.crypto_received),
                           hist.units(t.crypto_fee), P(t.fiat_fee)])
        d["meta"][t.row] = [t.unique_id, t.notes]
    return d


def impl_parse(ini_path, ods_path, asset, exchanges, holders, country="us"):
    from harness import impl
    try:
        from rp2.configuration import Configuration
        from rp2.ods_parser import open_ods, parse_ods
        cfg = Configuration(ini_path, impl.country_obj(country))
        handle = open_ods(cfg, ods_path)
        data = parse_ods(cfg, asset, handle)
        d = dump_input_data(data, exchanges, holders)
        d["counter"] = cfg.get_new_artificial_id() + 1
        return {"ok": d}
    except Exception as exc:  # noqa: BLE001
        return {"err": impl.err_kind(exc), "msg": str(exc)[:300]}


def workdir():
    return tempfile.mkdtemp(prefix="rp2l1_")


def run_one(job):
    """job: dict(case, lay, rows) -> (impl result, model input line)"""
    d = job["dir"]
    k = job["k"]
    ini = os.path.join(d, f"c{k}.ini")
    ods = os.path.join(d, f"s{k}.ods")
    c = job["case"]
    assets = job.get("assets", [c["asset"]])
    write_ini(ini, job["lay"], assets, c["exchanges"], c["holders"], job.get("ini_extra", ""))
    if job.get("ini_text") is not None:
        with open(ini, "w", encoding="utf-8") as f:
            f.write(job["ini_text"])
    write_ods(ods, job.get("sheets") or {job.get("sheet_name", c["asset"]): job["rows"]})
    res = impl_parse(ini, ods, job.get("parse_asset", c["asset"]), c["exchanges"], c["holders"])
    line = None
    try:
        cells = read_cells(ods, job.get("parse_asset", c["asset"]))
        line = hist.line(40, encode_parse_input(job["lay"], assets, c["exchanges"], c["holders"], job.get("parse_asset", c["asset"]), 0, cells))
    except Exception:  # noqa: BLE001
        line = None
    for p in (ini, ods):
        try:
            os.unlink(p)
        except OSError:
            pass
    return res, line
