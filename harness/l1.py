"""L1: configuration + ODS sheet -> parsed transactions.  Generates real .ods / .ini files,
drives Configuration + open_ods + parse_ods (in-process) and the rp2_<country> console scripts,
feeds the Coq parser model with the cells read back from the same file, and provides the
independent oracle of C11 and the fault injectors of C12."""
import copy
import json
import os
import shutil
import subprocess
import sys
import tempfile
from decimal import Decimal, getcontext
from fractions import Fraction

from harness import core, hist

IN_FIELDS = ["timestamp", "asset", "exchange", "holder", "transaction_type", "spot_price", "crypto_in", "crypto_fee",
             "fiat_in_no_fee", "fiat_in_with_fee", "fiat_fee", "unique_id", "notes"]
OUT_FIELDS = ["timestamp", "asset", "exchange", "holder", "transaction_type", "spot_price", "crypto_out_no_fee", "crypto_fee",
              "crypto_out_with_fee", "fiat_out_no_fee", "fiat_fee", "unique_id", "notes"]
INTRA_FIELDS = ["timestamp", "asset", "from_exchange", "from_holder", "to_exchange", "to_holder", "spot_price", "crypto_sent",
                "crypto_received", "unique_id", "notes"]
FIELDS = {"in": IN_FIELDS, "out": OUT_FIELDS, "intra": INTRA_FIELDS}
MANDATORY = {"in": IN_FIELDS[:7], "out": OUT_FIELDS[:8], "intra": INTRA_FIELDS[:9]}
# a first column must never be empty and never look like a keyword: mandatory, non-optional-valued fields
FIRST_COL_OK = {"in": ["timestamp", "asset", "exchange", "holder", "transaction_type", "spot_price", "crypto_in"],
                "out": ["timestamp", "asset", "exchange", "holder", "transaction_type", "spot_price", "crypto_out_no_fee", "crypto_fee"],
                "intra": ["timestamp", "asset", "from_exchange", "from_holder", "to_exchange", "to_holder", "crypto_sent", "crypto_received"]}
NUMERIC = {"spot_price", "crypto_in", "crypto_fee", "fiat_in_no_fee", "fiat_in_with_fee", "fiat_fee", "crypto_out_no_fee",
           "crypto_out_with_fee", "fiat_out_no_fee", "crypto_sent", "crypto_received"}
KEYWORD = {"in": "IN", "out": "OUT", "intra": "INTRA"}
TABLES = ("in", "out", "intra")
SRC = {"in": "ins", "out": "outs", "intra": "intras"}
ORDERS = [["in", "out", "intra"], ["in", "intra", "out"], ["out", "in", "intra"], ["out", "intra", "in"],
          ["intra", "in", "out"], ["intra", "out", "in"]]
COUNTRIES = ["us", "es", "jp", "ie", "generic"]
CCODE = {c: i for i, c in enumerate(COUNTRIES)}


def dkey(f):
    return "spot" if f == "spot_price" else f


# ----------------------------------------------------------------------------- generation of valid inputs
def gen_layout(rng, compact=False):
    """random injective column assignment per table; first column holds a mandatory, never-empty field"""
    lay = {}
    for t in TABLES:
        fields = list(MANDATORY[t])
        for f in FIELDS[t][len(MANDATORY[t]):]:
            if rng.chance(75):
                fields.append(f)
        ncols = len(fields) + (0 if compact else rng.range(0, 6))
        first = rng.choice(FIRST_COL_OK[t])
        cols = list(range(1, ncols))
        rng.shuffle(cols)
        m = {first: 0}
        order = list(fields)
        rng.shuffle(order)                 # the order of the lines in the ini section is random as well
        for f in order:
            if f != first:
                m[f] = cols.pop()
        items = list(m.items())
        rng.shuffle(items)
        lay[t] = dict(items)
    return lay


def fnum(units):
    """the double nearest to units * 1e-11 (what a spreadsheet cell holds)"""
    return float(Decimal(units).scaleb(-11))


def num11_of_float(x):
    """independent '%.11f': exact half-even rounding of the double to 11 decimals, in units"""
    fr = Fraction(x) * 10 ** 11
    q, r = divmod(fr.numerator, fr.denominator)
    if 2 * r > fr.denominator or (2 * r == fr.denominator and q % 2 == 1):
        q += 1
    return q


JUNK = ["x", "n/a", 12.5, 0.0, "IN", "TABLE END", None, None, "2020-01-01", True, "out", -3.25]


def ts_variants(us, off):
    """several spellings of the same aware timestamp, all unambiguous for python-dateutil"""
    from datetime import datetime, timedelta, timezone
    dt = (datetime(1970, 1, 1, tzinfo=timezone.utc) + timedelta(microseconds=us)).astimezone(timezone(timedelta(seconds=off)))
    out = [dt.isoformat(sep=" ", timespec="microseconds"), dt.isoformat(sep="T", timespec="microseconds")]
    sign = "+" if off >= 0 else "-"
    hh, mm = divmod(abs(off) // 60, 60)
    out.append(dt.strftime("%Y-%m-%d %H:%M:%S.%f") + f" {sign}{hh:02d}{mm:02d}")
    if dt.microsecond == 0:
        out.append(dt.strftime("%Y-%m-%d %H:%M:%S") + f"{sign}{hh:02d}:{mm:02d}")
    if off == 0:
        out.append(dt.strftime("%Y-%m-%dT%H:%M:%S.%f") + "Z")
    return out


def mixed_case(rng, s):
    r = rng.below(10)
    return s if r < 6 else s.lower() if r < 8 else s.capitalize()


def decorate(case, lay, rng, plain=False):
    """drop optional values whose column is not mapped; add unique ids / notes / spelling variants"""
    c = copy.deepcopy(case)
    for t in TABLES:
        for k, d in enumerate(c[SRC[t]]):
            for f in FIELDS[t]:
                if f not in lay[t] and dkey(f) in d and f not in MANDATORY[t]:
                    d.pop(dkey(f))
            if "unique_id" in lay[t] and rng.chance(60):
                d["unique_id"] = rng.choice([f"tx{k}", "0xabc", 17.0, "id with spaces"])
            if "notes" in lay[t] and rng.chance(40):
                d["notes"] = rng.choice(["note", "fee included", "a; b"])
            if not plain:
                if rng.chance(30):
                    d["ts_str"] = rng.choice(ts_variants(*d["ts"]))
                if t != "intra":
                    d["type_str"] = mixed_case(rng, d["type"])
            d.pop("row", None)
    return c


def sheet_case(rng, n_max=10, big=False, asset="B1", accounts=None):
    """a history suitable for a sheet (every row individually valid for its constructor)"""
    c = hist.gen_history(rng, n_max=n_max, overdraw_pct=0, optional_pct=35, mixed_pct=15, accounts=accounts)
    c["asset"] = asset
    lim = 4 * 10 ** 15
    for key in ("ins", "outs", "intras"):
        for d in c[key]:
            for f in list(d):
                if isinstance(d[f], int) and not isinstance(d[f], bool) and f not in ("row", "exch", "holder", "from_exch", "from_holder", "to_exch", "to_holder"):
                    if not big and d[f] > lim:
                        d[f] = d[f] % lim + 1
    for d in c["ins"]:
        if d["type"] == "BUY" and "fiat_fee" not in d and rng.chance(30):
            d["crypto_fee"] = rng.choice([1, 1000, 10 ** 9, d["crypto_in"] // 100 + 1, 12345678901])
        if "crypto_fee" in d and "fiat_fee" in d:
            d.pop("fiat_fee")
        if d.get("crypto_fee") and "fiat_in_no_fee" not in d:
            # keep the derived fiat value of the acquisition >= 1e-13 (see finding dust-crypto-fee-split)
            while hist.round_half_even_13(d["crypto_in"] * d["spot"]) == 0:
                d["spot"] *= 1000
    for d in c["outs"]:
        d.pop("crypto_out_with_fee", None) if rng.chance(50) else None
        if d["type"] == "FEE":
            d["crypto_out_no_fee"] = 0
            d["crypto_fee"] = max(1, d["crypto_fee"])
            d.pop("fiat_out_no_fee", None)
        else:
            d["crypto_out_no_fee"] = max(1, d["crypto_out_no_fee"])
            d["spot"] = max(1, d["spot"])
        if "crypto_out_with_fee" in d:
            d["crypto_out_with_fee"] = d["crypto_out_no_fee"] + d["crypto_fee"]
    for d in c["intras"]:
        if d["crypto_received"] > d["crypto_sent"]:
            d["crypto_received"] = d["crypto_sent"]
        if d["crypto_sent"] != d["crypto_received"] and not d.get("spot"):
            d["spot"] = hist.U
    for d in c["ins"]:
        d["spot"] = max(1, d["spot"])
    return c


def render(case, lay, rng, order=None, gaps=True, junk=True, empty_tables="auto", width_extra=None):
    """-> (rows: list of list of python cell values, rowmap {"in:0": sheet row number}, struct: per rendered table
    {"t", "kw", "hdr", "data": [row indices], "end"} with 0-based row indices)"""
    from harness import impl
    order = list(order) if order else rng.shuffle(list(TABLES))
    extra = width_extra if width_extra is not None else (rng.range(0, 3) if junk else 0)
    width = max(max(m.values()) for m in lay.values()) + 1 + extra
    rows, rowmap, struct = [], {}, []
    ex, ho = case["exchanges"], case["holders"]

    def blank():
        r = [None] * width
        if rng.chance(30):
            r[0] = ""
        if junk:
            for c in range(1, width):          # a row is blank when its first cell is empty
                if rng.chance(10):
                    r[c] = rng.choice(JUNK)
        return r

    def fill_junk(r, used):
        if junk:
            for c in range(1, width):
                if c not in used and rng.chance(40):
                    r[c] = rng.choice(JUNK)
        return r

    for t in order:
        data = case[SRC[t]]
        if not data and t != "in":
            if empty_tables == "never" or (empty_tables == "auto" and rng.chance(50)):
                continue
        if gaps:
            for _ in range(rng.range(0, 2)):
                rows.append(blank())
        m = lay[t]
        used = set(m.values())
        st = {"t": t, "kw": len(rows), "data": []}
        r = [None] * width
        r[0] = mixed_case(rng, KEYWORD[t])
        rows.append(fill_junk(r, {0}))
        st["hdr"] = len(rows)
        r = [None] * width
        for f, c in m.items():
            r[c] = f.replace("_", " ").title()
        rows.append(fill_junk(r, used))
        for k, d in enumerate(data):
            r = [None] * width
            vals = {"timestamp": d.get("ts_str") or impl.ts_string(*d["ts"]), "asset": case["asset"], "unique_id": d.get("unique_id"),
                    "notes": d.get("notes")}
            if t == "intra":
                vals.update({"from_exchange": ex[d["from_exch"]], "from_holder": ho[d["from_holder"]], "to_exchange": ex[d["to_exch"]],
                             "to_holder": ho[d["to_holder"]]})
            else:
                vals.update({"exchange": ex[d["exch"]], "holder": ho[d["holder"]], "transaction_type": d.get("type_str", d["type"])})
            for f in FIELDS[t]:
                if f in NUMERIC:
                    v = d.get(dkey(f))
                    vals[f] = None if v is None else fnum(v)
            for f, c in m.items():
                r[c] = vals.get(f)
            rowmap[f"{t}:{k}"] = len(rows) + 1
            st["data"].append(len(rows))
            rows.append(fill_junk(r, used))
        st["end"] = len(rows)
        r = [None] * width
        r[0] = "TABLE END"
        rows.append(fill_junk(r, {0}))
        struct.append(st)
    if gaps:
        for _ in range(rng.range(0, 2)):
            rows.append(blank())
    return rows, rowmap, struct


# ----------------------------------------------------------------------------- independent oracle (C11)
def _P(x):
    from harness import impl
    return list(impl.norm_pair(*impl.dec_pair(x)))


def _D(u):
    return Decimal(u).scaleb(-11)


def expected(case, lay, rowmap, counter=0):
    """What the property text demands, computed from the generating case only: every field from the column the
    layout assigns to it (a field without a column is absent), numbers = exact half-even rounding of the cell's double
    to 11 decimals, documented defaults for absent optionals (docs/input_files.md), one transaction per row in row
    order, and the crypto-fee split.  -> dict shaped like dump_input_data (sets ordered by instant, stable)."""
    getcontext().prec = 31
    notes_on = []

    def num(t, d, f):
        if f not in lay[t]:
            return None
        v = d.get(dkey(f))
        if v is None:
            return None
        u = num11_of_float(fnum(v))
        if abs(v) < 2 ** 52 and u != v:
            notes_on.append(f"num11 not exact on {v}")
        return u

    def meta(t, d, split=False):
        u = d.get("unique_id") if "unique_id" in lay[t] else None
        n = d.get("notes") if "notes" in lay[t] else None
        return ["" if u is None else str(u), "" if n is None else n]

    ins, outs, intras, art, metas = [], [], [], [], {}
    for k, d in enumerate(case["ins"]):
        row = rowmap[f"in:{k}"]
        spot, cin = num("in", d, "spot_price"), num("in", d, "crypto_in")
        cfee, f1, f2, f3 = (num("in", d, f) for f in ("crypto_fee", "fiat_in_no_fee", "fiat_in_with_fee", "fiat_fee"))
        fee = _D(cfee) * _D(spot) if cfee is not None else _D(f3 or 0)
        no_fee = _D(f1) if f1 is not None else _D(cin) * _D(spot)
        with_fee = _D(f2) if f2 is not None else no_fee + fee
        base = [row, d["ts"][0], d["ts"][1], d["exch"], d["holder"], d["type"], spot, cin]
        metas[row] = meta("in", d) + [bool(cfee)]
        if cfee:
            # acquisition (no crypto fee any more, fiat fee = crypto_fee * spot) + artificial fee-only disposal at the same instant
            counter -= 1
            ins.append(base + [0, _P(no_fee), _P(with_fee), _P(fee)])
            art.append([counter, d["ts"][0], d["ts"][1], d["exch"], d["holder"], "FEE", spot, 0, cfee, cfee, _P(Decimal(0)), _P(fee), _P(fee)])
            metas[counter] = [metas[row][0], None, True]
        else:
            ins.append(base + [0, _P(no_fee), _P(with_fee), _P(fee)])
    for k, d in enumerate(case["outs"]):
        row = rowmap[f"out:{k}"]
        spot, nofee, fee = num("out", d, "spot_price"), num("out", d, "crypto_out_no_fee"), num("out", d, "crypto_fee")
        w, f1, f2 = (num("out", d, f) for f in ("crypto_out_with_fee", "fiat_out_no_fee", "fiat_fee"))
        total = w if w is not None else nofee + fee
        f_nofee = _D(f1) if f1 is not None else _D(nofee) * _D(spot)
        f_fee = _D(f2) if f2 is not None else _D(fee) * _D(spot)
        outs.append([row, d["ts"][0], d["ts"][1], d["exch"], d["holder"], d["type"], spot, nofee, fee, total, _P(f_nofee), _P(f_fee), _P(f_nofee + f_fee)])
        metas[row] = meta("out", d) + [False]
    for k, d in enumerate(case["intras"]):
        row = rowmap[f"intra:{k}"]
        spot, sent, recv = num("intra", d, "spot_price"), num("intra", d, "crypto_sent"), num("intra", d, "crypto_received")
        spot = spot or 0
        intras.append([row, d["ts"][0], d["ts"][1], d["from_exch"], d["from_holder"], d["to_exch"], d["to_holder"], spot, sent, recv,
                       sent - recv, _P(_D(sent - recv) * _D(spot))])
        metas[row] = meta("intra", d) + [False]
    by_instant = lambda x: x[1]  # noqa: E731
    return {"ins": sorted(ins, key=by_instant), "outs": sorted(outs + art, key=by_instant), "intras": sorted(intras, key=by_instant),
            "meta": metas, "counter": counter, "oracle_notes": notes_on}


def split_semantics(case, lay, rowmap, got):
    """the property's last sentence, checked on the implementation's own output: for every acquisition with a crypto fee there is
    exactly one fee-only disposal at the same instant; net coin flow = crypto_in - fee; cost basis = fiat_in_no_fee + fee * spot"""
    getcontext().prec = 31
    bad = []
    ins = {r[0]: r for r in got["ins"]}
    arts = [r for r in got["outs"] if r[0] < 0]
    want = 0
    for k, d in enumerate(case["ins"]):
        cf = d.get("crypto_fee") if "crypto_fee" in lay["in"] else None
        if not cf:
            continue
        want += 1
        row = rowmap[f"in:{k}"]
        a = ins.get(row)
        if a is None:
            bad.append(f"acquisition row {row} with crypto fee is missing")
            continue
        cfu, cinu = num11_of_float(fnum(cf)), num11_of_float(fnum(d["crypto_in"]))
        cand = [o for o in arts if o[1] == d["ts"][0] and o[3] == d["exch"] and o[4] == d["holder"] and o[8] == cfu]
        if not cand:
            bad.append(f"no artificial fee-only disposal of {cfu}e-11 at the instant of row {row}")
            continue
        o = cand[0]
        if o[5] != "FEE" or o[7] != 0 or o[9] != cfu:
            bad.append(f"artificial disposal for row {row} is not fee-only: {o}")
        flow = a[7] - o[9]
        if flow != cinu - cfu:
            bad.append(f"coin flow of row {row}: {flow}, expected crypto_in - fee = {cinu - cfu}")
        cv = lambda v: _D(num11_of_float(fnum(v)))  # noqa: E731  (the value the cell's double carries at 11 decimals)
        nf = cv(d["fiat_in_no_fee"]) if d.get("fiat_in_no_fee") is not None and "fiat_in_no_fee" in lay["in"] else cv(d["crypto_in"]) * cv(d["spot"])
        wf = cv(d["fiat_in_with_fee"]) if d.get("fiat_in_with_fee") is not None and "fiat_in_with_fee" in lay["in"] else nf + cv(cf) * cv(d["spot"])
        if a[10] != _P(wf):
            bad.append(f"cost basis of row {row}: {a[10]}, expected {_P(wf)}")
    if len(arts) != want:
        bad.append(f"{len(arts)} artificial disposals for {want} acquisitions with a crypto fee")
    if sorted(o[0] for o in arts) != list(range(-len(arts), 0)) and arts:
        pass    # ids continue from the configuration's counter; checked through 'counter'
    return bad


# ----------------------------------------------------------------------------- files
def ini_text(lay, assets, exchanges, holders, extra=""):
    s = "[general]\n"
    s += "assets = " + ", ".join(assets) + "\n"
    s += "exchanges = " + ", ".join(exchanges) + "\n"
    s += "holders = " + ", ".join(holders) + "\n\n"
    for t in TABLES:
        s += f"[{t}_header]\n"
        for fld, col in lay[t].items():
            s += f"{fld} = {col}\n"
        s += "\n"
    return s + extra


def tokenise_ini(text):
    """sections in file order with their items, by configparser (library); None if configparser itself rejects the text"""
    from configparser import ConfigParser, Error
    cp = ConfigParser()
    try:
        cp.read_string(text)
    except Error:
        return None
    return [(name, list(cp[name].items())) for name in cp.sections()]


def write_ods(path, sheets):
    """sheets: {name: rows}"""
    import ezodf
    doc = ezodf.newdoc("ods", path)
    for name, rows in sheets.items():
        width = max((len(r) for r in rows), default=1)
        tab = ezodf.Table(name, size=(max(1, len(rows)), max(1, width)))
        for i, r in enumerate(rows):
            for j, v in enumerate(r):
                if v is not None:
                    tab[i, j].set_value(v)
        doc.sheets += tab
    doc.save()


def read_cells(path, name):
    import ezodf
    doc = ezodf.opendoc(path)
    sheet = doc.sheets[name]
    return [[c.value for c in row] for row in sheet.rows()]


def ts_oracle(cells):
    """python-dateutil's verdict for every distinct string cell"""
    from dateutil.parser import parse
    from datetime import datetime, timezone, timedelta
    epoch = datetime(1970, 1, 1, tzinfo=timezone.utc)
    out = {}
    for row in cells:
        for v in row:
            if isinstance(v, str) and v not in out:
                try:
                    dt = parse(v)
                    if dt.tzinfo is None:
                        out[v] = (1, 0, 0)
                    else:
                        out[v] = (2, (dt - epoch) // timedelta(microseconds=1), int(dt.utcoffset().total_seconds()))
                except Exception:  # noqa: BLE001
                    out[v] = (0, 0, 0)
    return out


def enc_str(s):
    return [len(s)] + [ord(ch) for ch in s]


def enc_cells(cells):
    a = [len(cells)]
    for row in cells:
        a.append(len(row))
        for v in row:
            if v is None:
                a.append(0)
            elif isinstance(v, bool):
                a += [3, 1 if v else 0]
            elif isinstance(v, (int, float)):
                n, d = float(v).as_integer_ratio()
                a += [2, n, d]
            else:
                a += [1] + enc_str(str(v))
    return a


def encode_parse_full(lay, assets, exchanges, holders, asset, counter, cells):
    """input of model command 41"""
    a = []
    for t in TABLES:
        m = lay[t]
        a.append(len(m))
        for f, c in m.items():
            a += [FIELDS[t].index(f), c]
    for l in (assets, exchanges, holders):
        a.append(len(l))
        for s in l:
            a += enc_str(s)
    tso = ts_oracle(cells)
    a.append(len(tso))
    for s, (k, us, off) in tso.items():
        a += enc_str(s) + [k, us, off]
    a += enc_str(asset)
    a.append(counter)
    a += enc_cells(cells)
    return a


def encode_sections(secs):
    a = [len(secs)]
    for name, items in secs:
        a += enc_str(name)
        a.append(len(items))
        for k, v in items:
            a += enc_str(k) + enc_str(v)
    return a


def _rd_str(r):
    n = r.z()
    return "".join(chr(r.z()) for _ in range(n))


def _rd_arg(r):
    if r.z() == 0:
        return ["none"]
    k = r.z()
    if k == 0:
        return ["cell", None]
    if k == 1:
        return ["cell", _rd_str(r)]
    if k == 2:
        n, d = r.z(), r.z()
        return ["cell", n / d if d else None]
    return ["cell", bool(r.z())]


def decode_parsed_full(res):
    """output of model command 41 -> dict shaped like dump_input_data"""
    from harness.l4 import Reader
    if res[0] != 0:
        return {"err": res[0]}
    r = Reader(res)
    r.z()
    d = {"counter": r.z()}
    d["ins"] = r.lst(lambda: [r.z(), r.z(), r.z(), r.z(), r.z(), hist.TT[r.z()], r.z(), r.z(), r.z(), r.dec(), r.dec(), r.dec()])
    d["outs"] = r.lst(lambda: [r.z(), r.z(), r.z(), r.z(), r.z(), hist.TT[r.z()], r.z(), r.z(), r.z(), r.z(), r.dec(), r.dec(), r.dec()])
    d["intras"] = r.lst(lambda: [r.z(), r.z(), r.z(), r.z(), r.z(), r.z(), r.z(), r.z(), r.z(), r.z(), r.z(), r.dec()])
    meta = r.lst(lambda: [r.z(), _rd_arg(r), _rd_arg(r)])
    d["meta"] = {}
    for row, u, n in meta:
        uid = "" if u[0] == "none" or u[1] is None else str(u[1])
        notes = None if row < 0 else ("" if n[0] == "none" or not n[1] else n[1])
        d["meta"][row] = [uid, notes]
    for k in ("ins", "outs", "intras"):
        d[k] = sorted(d[k], key=lambda x: x[1])          # iteration order of the sets: by instant, stable
    return d


def decode_config(res):
    from harness.l4 import Reader
    if res[0] != 0:
        return {"err": res[0]}
    r = Reader(res)
    r.z()
    d = {}
    for t in TABLES:
        d[t] = r.lst(lambda: [r.z(), r.z()])
    for k in ("assets", "exchanges", "holders"):
        d[k] = r.lst(lambda: _rd_str(r))
    d["methods"] = r.lst(lambda: [r.z(), _rd_str(r)])
    return d


# ----------------------------------------------------------------------------- implementation (in-process)
def dump_input_data(input_data, exchanges, holders, window=None):
    from datetime import datetime, timezone, timedelta
    from harness import impl
    epoch = datetime(1970, 1, 1, tzinfo=timezone.utc)
    P = lambda x: list(impl.norm_pair(*impl.dec_pair(x)))  # noqa: E731
    ts = lambda t: [(t - epoch) // timedelta(microseconds=1), int(t.utcoffset().total_seconds())]  # noqa: E731
    d = {"ins": [], "outs": [], "intras": [], "meta": {}}
    for t in input_data.unfiltered_in_transaction_set:
        d["ins"].append([t.row] + ts(t.timestamp) + [exchanges.index(t.exchange), holders.index(t.holder), t.transaction_type.name,
                        hist.units(t.spot_price), hist.units(t.crypto_in), hist.units(t.crypto_fee), P(t.fiat_in_no_fee), P(t.fiat_in_with_fee), P(t.fiat_fee)])
        d["meta"][t.row] = [t.unique_id, t.notes, t.asset]
    for t in input_data.unfiltered_out_transaction_set:
        d["outs"].append([t.row] + ts(t.timestamp) + [exchanges.index(t.exchange), holders.index(t.holder), t.transaction_type.name,
                         hist.units(t.spot_price), hist.units(t.crypto_out_no_fee), hist.units(t.crypto_fee), hist.units(t.crypto_out_with_fee),
                         P(t.fiat_out_no_fee), P(t.fiat_fee), P(t.fiat_out_with_fee)])
        d["meta"][t.row] = [t.unique_id, t.notes, t.asset]
    for t in input_data.unfiltered_intra_transaction_set:
        d["intras"].append([t.row] + ts(t.timestamp) + [exchanges.index(t.from_exchange), holders.index(t.from_holder), exchanges.index(t.to_exchange),
                           holders.index(t.to_holder), hist.units(t.spot_price), hist.units(t.crypto_sent), hist.units(t.crypto_received),
                           hist.units(t.crypto_fee), P(t.fiat_fee)])
        d["meta"][t.row] = [t.unique_id, t.notes, t.asset]
        if t.transaction_type.name != "MOVE":
            d["intras"][-1].append(t.transaction_type.name)
    # filtered views must hold the same transactions when no date filter is given (with a filter -- window = [from_day, to_day] --
    # the filtered views are the business of the C10 check; here only what was READ must not depend on the window)
    if not window:
        for name in ("in", "out", "intra"):
            u = [t.row for t in getattr(input_data, f"unfiltered_{name}_transaction_set")]
            f = [t.row for t in getattr(input_data, f"filtered_{name}_transaction_set")]
            if u != f:
                d.setdefault("filtered_differs", []).append(name)
    return d


def impl_config(ini_path, country="us", from_day=None, to_day=None):
    from harness import impl
    from rp2.configuration import Configuration, MIN_DATE, MAX_DATE
    return Configuration(ini_path, impl.country_obj(country),
                         from_date=MIN_DATE if from_day is None else impl.date_of_day(from_day),
                         to_date=MAX_DATE if to_day is None else impl.date_of_day(to_day))


def dump_config(cfg):
    d = {}
    for t in TABLES:
        h = getattr(cfg, f"_Configuration__{t}_header")
        d[t] = [[FIELDS[t].index(f) if f in FIELDS[t] else -1, c] for f, c in h.items()]
    d["assets"] = sorted(cfg.assets)
    d["exchanges"] = sorted(getattr(cfg, "_Configuration__exchanges"))
    d["holders"] = sorted(getattr(cfg, "_Configuration__holders"))
    d["methods"] = [[y, m] for y, m in cfg.years_2_accounting_method_names.items()]
    return d


def impl_parse(ini_path, ods_path, assets_to_parse, exchanges, holders, country="us", window=None):
    """-> {'config': dump | {'err'..}, 'parsed': [per asset {'ok': dump} | {'err': kind, 'msg'}]} ; parsing stops at the first error
    (as the run does)"""
    from harness import impl
    out = {"parsed": []}
    try:
        from rp2.ods_parser import open_ods, parse_ods
        cfg = impl_config(ini_path, country, *(window or (None, None)))
        out["config"] = {"ok": dump_config(cfg)}
    except Exception as exc:  # noqa: BLE001
        out["config"] = {"err": impl.err_kind(exc), "msg": str(exc)[:300]}
        return out
    try:
        handle = open_ods(cfg, ods_path)
    except Exception as exc:  # noqa: BLE001
        out["parsed"].append({"err": impl.err_kind(exc), "msg": str(exc)[:300]})
        return out
    for asset in assets_to_parse:
        try:
            data = parse_ods(cfg, asset, handle)
            d = dump_input_data(data, exchanges, holders, window)
            out["parsed"].append({"ok": d})
        except Exception as exc:  # noqa: BLE001
            out["parsed"].append({"err": impl.err_kind(exc), "msg": str(exc)[:300]})
            break
    out["counter"] = cfg.get_new_artificial_id() + 1
    return out


def workdir():
    return tempfile.mkdtemp(prefix="rp2l1_")


def run_job(job):
    """job: {dir, k, ini (text), sheets {name: rows}, parse [assets], lay, assets, exchanges, holders[, counter0]}
    -> {'impl': impl_parse result, 'lines': [model command-41 line per parsed asset | None], 'secs': tokenised ini | None}"""
    d, k = job["dir"], job["k"]
    ini = os.path.join(d, f"c{k}.ini")
    ods = os.path.join(d, f"s{k}.ods")
    with open(ini, "w", encoding="utf-8") as f:
        f.write(job["ini"])
    res = {"lines": [], "secs": None}
    try:
        write_ods(ods, job["sheets"])
        res["impl"] = impl_parse(ini, ods, job["parse"], job["exchanges"], job["holders"], job.get("country", "us"), job.get("window"))
        for i, asset in enumerate(job["parse"]):
            try:
                cells = read_cells(ods, asset)
            except KeyError:
                cells = []           # no such sheet: the model still decides whether the asset is configured
            try:
                c0 = job.get("counters", [0] * len(job["parse"]))[i]
                res["lines"].append(hist.line(41, encode_parse_full(job["lay"], job["assets"], job["exchanges"], job["holders"], asset, c0, cells)))
            except Exception:  # noqa: BLE001
                res["lines"].append(None)
        res["secs"] = tokenise_ini(job["ini"])
    finally:
        for p in (ini, ods):
            try:
                os.unlink(p)
            except OSError:
                pass
    return res


# ----------------------------------------------------------------------------- implementation (command line)
def cli_cmd(country):
    if core.REPO == "/repo":
        return [f"/venv/bin/rp2_{country}"]
    return ["/venv/bin/python", "-c", f"from rp2.plugin.country.{country} import rp2_entry; rp2_entry()"]


def cli_run(job):
    """job: {country, ini (text), sheets, args (extra options)} -> {rc, text (stdout+stderr+log, tail), files (in the output dir)}"""
    d = tempfile.mkdtemp(prefix="rp2l1cli_")
    try:
        ini = os.path.join(d, "config.ini")
        ods = os.path.join(d, "input.ods")
        outdir = os.path.join(d, "out")
        with open(ini, "w", encoding="utf-8") as f:
            f.write(job["ini"])
        write_ods(ods, job["sheets"])
        env = dict(os.environ)
        env["PYTHONPATH"] = os.path.join(core.REPO, "src")
        env["PYTHONHASHSEED"] = "0"
        if job["country"] == "generic":
            env["CURRENCY_CODE"] = "usd"
            env["LONG_TERM_CAPITAL_GAINS"] = "365"
        args = list(job.get("args", []))
        if job["country"] == "jp" and "-g" not in args:
            args += ["-g", "en"]
        cmd = cli_cmd(job["country"]) + ["-o", outdir] + args + [ini, ods]
        try:
            p = subprocess.run(cmd, cwd=d, env=env, stdout=subprocess.PIPE, stderr=subprocess.PIPE, text=True, timeout=120)
            rc, text = p.returncode, p.stdout[-1500:] + p.stderr[-2500:]
        except subprocess.TimeoutExpired:
            rc, text = -999, "timeout"
        files = []
        if os.path.isdir(outdir):
            for root, _, fs in os.walk(outdir):
                files += [os.path.relpath(os.path.join(root, f), outdir) for f in fs]
        logtxt = ""
        logdir = os.path.join(d, "log")
        if os.path.isdir(logdir):
            for f in sorted(os.listdir(logdir)):
                try:
                    logtxt += open(os.path.join(logdir, f), encoding="utf-8", errors="replace").read()[-1500:]
                except OSError:
                    pass
        return {"rc": rc, "text": text, "log": logtxt, "files": sorted(files)}
    finally:
        shutil.rmtree(d, ignore_errors=True)
