"""Shared machinery of the checks: build (translate -> coqc -> extract -> ocamlopt),
model driver, seeded PRNG, evidence, verdicts, known findings."""
import fcntl
import hashlib
import json
import os
import re
import shutil
import subprocess
import sys
import tempfile
import time

VERIF = os.path.dirname(os.path.dirname(os.path.abspath(__file__)))
REPO = os.environ.get("RP2_REPO", "/repo")
COQ = os.path.join(VERIF, "coq")
THEORIES = os.path.join(COQ, "theories")
EXTRACT = os.path.join(COQ, "extract")
DRIVER = os.path.join(EXTRACT, "model_driver")
EVIDENCE = os.path.join(VERIF, "evidence")
REPLAYS = os.path.join(VERIF, "replays")
KNOWN = os.path.join(VERIF, "KNOWN_FINDINGS.txt")
NCPU = min(16, os.cpu_count() or 4)

KERNEL_TB = [
    "Coq 8.16.1 kernel (coqc); vm_compute used in finite-table lemmas and witnesses; no native_compute",
    "extraction: Require Extraction + ExtrOcamlBasic only (bool/option/unit/list/prod/sumbool -> OCaml), no Extract Constant / Extract Inductive of our own; Z, positive, N, nat stay inductive",
    "OCaml 4.13.1 ocamlopt and the integer-only driver coq/driver/main.ml",
    "translator harness/translate (Python ast -> Generated.v), fail-closed with fallback to accepted fragments",
    "correspondence harness (generators, in-process drivers of rp2, canonicalisation) and CPython/decimal/datetime/dateutil themselves",
]


# ----------------------------------------------------------------------------- PRNG
class Rng:
    """splitmix64: every random choice of a run derives from VERIF_SEED."""

    def __init__(self, seed, stream=0):
        self.s = (seed * 0x9E3779B97F4A7C15 + stream * 0xBF58476D1CE4E5B9 + 0x1234567) & 0xFFFFFFFFFFFFFFFF

    def next(self):
        self.s = (self.s + 0x9E3779B97F4A7C15) & 0xFFFFFFFFFFFFFFFF
        z = self.s
        z = ((z ^ (z >> 30)) * 0xBF58476D1CE4E5B9) & 0xFFFFFFFFFFFFFFFF
        z = ((z ^ (z >> 27)) * 0x94D049BB133111EB) & 0xFFFFFFFFFFFFFFFF
        return z ^ (z >> 31)

    def below(self, n):
        return self.next() % n

    def range(self, a, b):
        return a + self.below(b - a + 1)

    def choice(self, seq):
        return seq[self.below(len(seq))]

    def chance(self, pct):
        return self.below(100) < pct

    def shuffle(self, lst):
        for i in range(len(lst) - 1, 0, -1):
            j = self.below(i + 1)
            lst[i], lst[j] = lst[j], lst[i]
        return lst


def seed():
    try:
        return int(os.environ.get("VERIF_SEED", "0"))
    except ValueError:
        return 0


# ----------------------------------------------------------------------------- build
class Build:
    def __init__(self):
        self.translator = {}
        self.make_ok = False
        self.make_log = ""
        self.failed = []          # .v files that did not compile
        self.driver_ok = False
        self.wall = 0.0


def _run(cmd, cwd=None, timeout=900, inp=None):
    p = subprocess.run(cmd, cwd=cwd, input=inp, stdout=subprocess.PIPE, stderr=subprocess.STDOUT,
                       timeout=timeout, text=True)
    return p.returncode, p.stdout


def _write_if_changed(path, text):
    try:
        with open(path, encoding="utf-8") as f:
            if f.read() == text:
                return False
    except OSError:
        pass
    with open(path, "w", encoding="utf-8") as f:
        f.write(text)
    return True


def all_v_files():
    out = []
    for root, _, files in os.walk(THEORIES):
        for f in sorted(files):
            if f.endswith(".v") and "Extract" not in root:
                out.append(os.path.relpath(os.path.join(root, f), COQ))
    return sorted(out)


def prepare():
    """translate /repo -> Generated.v, build every .v (make -k), extract, compile the driver.
    Serialised by a file lock so concurrent checks share one build."""
    from harness.translate import gen, gen2  # noqa: F401
    t0 = time.time()
    b = Build()
    os.makedirs(os.path.join(VERIF, ".build"), exist_ok=True)
    os.makedirs(EXTRACT, exist_ok=True)
    with open(os.path.join(VERIF, ".build", "lock"), "w") as lock:
        fcntl.flock(lock, fcntl.LOCK_EX)
        text, status = gen.generate(REPO)
        b.translator = status
        from harness.translate import tie; b.translator.update(tie.write(REPO, THEORIES))  # noqa: E401,E702  balance.py / computed_data.py tables -> Model/GeneratedTie.v
        _write_if_changed(os.path.join(THEORIES, "Model", "Generated.v"), text)
        vfiles = all_v_files()
        # dependency order is computed by coqdep; only the file list matters here
        proj = "-R theories RP2V\n" + "\n".join(vfiles) + "\n"
        if _write_if_changed(os.path.join(COQ, "_CoqProject"), proj) or not os.path.exists(os.path.join(COQ, "Makefile")):
            _run(["coq_makefile", "-f", "_CoqProject", "-o", "Makefile"], cwd=COQ)
        rc, out = _run(["make", "-k", f"-j{NCPU}"], cwd=COQ, timeout=1800)
        b.make_log = out
        b.make_ok = rc == 0
        for v in vfiles:
            vo = os.path.join(COQ, v + "o")
            src = os.path.join(COQ, v)
            if not os.path.exists(vo) or os.path.getmtime(vo) < os.path.getmtime(src):
                b.failed.append(v)
        for m in re.finditer(r"\*\*\* \[[^\]]*?(theories/[^\s\]]+)\.vo\] Error", out):   # failed now, but a stale .vo newer than the (unchanged) source is still there
            b.failed += [m.group(1) + ".v"] if m.group(1) + ".v" in vfiles and m.group(1) + ".v" not in b.failed else []
        # extraction + driver (needs only Model/*.vo)
        model_vo = [os.path.join(COQ, v + "o") for v in vfiles if v.startswith("theories/Model/") or v.startswith("theories/Base/")]
        need = not os.path.exists(DRIVER)
        if not need:
            dt = os.path.getmtime(DRIVER)
            srcs = [p for p in model_vo if os.path.exists(p)] + [os.path.join(COQ, "driver", "main.ml"),
                                                                  os.path.join(THEORIES, "Extract", "Extract.v")]
            need = any(os.path.getmtime(p) > dt for p in srcs)
        if need:
            for f in ("model.ml", "model.mli", "model_driver"):
                try:
                    os.unlink(os.path.join(EXTRACT, f))
                except OSError:
                    pass
            rc1, out1 = _run(["coqc", "-R", "../theories", "RP2V", "../theories/Extract/Extract.v"], cwd=EXTRACT, timeout=600)
            rc2, out2 = (1, "")
            if rc1 == 0:
                rc2, out2 = _run(["ocamlfind", "ocamlopt", "-O2" if False else "-w", "-a", "model.mli", "model.ml", "../driver/main.ml",
                                  "-o", "model_driver"], cwd=EXTRACT, timeout=600)
            b.make_log += "\n[extract]\n" + out1 + out2
            b.driver_ok = rc1 == 0 and rc2 == 0 and os.path.exists(DRIVER)
        else:
            b.driver_ok = True
    b.wall = time.time() - t0
    return b


IMPORT_RE = re.compile(r"From\s+RP2V\s+Require\s+(?:Import|Export)\s+([^.]*(?:\.[A-Za-z_][^.\s]*)*)\.", re.S)


def cone(vfile):
    """transitive closure of RP2V imports of a .v file (paths relative to COQ)."""
    seen, todo = [], [vfile]
    while todo:
        f = todo.pop()
        if f in seen:
            continue
        seen.append(f)
        try:
            src = open(os.path.join(COQ, f), encoding="utf-8").read()
        except OSError:
            continue
        src = re.sub(r"\(\*.*?\*\)", "", src, flags=re.S)
        for m in re.finditer(r"From\s+RP2V\s+Require\s+(?:Import|Export)\s", src):
            rest = src[m.end():]
            end = re.search(r"\.(\s|$)", rest)
            body = rest[:end.start()] if end else rest[:2000]
            for mod in body.split():
                if re.fullmatch(r"[A-Za-z_][A-Za-z0-9_.]*", mod):
                    todo.append("theories/" + mod.replace(".", "/") + ".v")
    return sorted(seen)


def count_qed(vfile):
    try:
        src = open(os.path.join(COQ, vfile), encoding="utf-8").read()
    except OSError:
        return 0
    src = re.sub(r"\(\*.*?\*\)", "", src, flags=re.S)
    return len(re.findall(r"\b(?:Qed|Defined)\s*\.", src))


FORBIDDEN = re.compile(r"\b(Admitted|admit|Axiom|Parameter|Conjecture|Unset\s+Guard|bypass_check|Admit\s+Obligations)\b")


def forbidden_scan():
    hits = []
    for v in all_v_files() + ["theories/Extract/Extract.v"]:
        try:
            src = open(os.path.join(COQ, v), encoding="utf-8").read()
        except OSError:
            continue
        src = re.sub(r"\(\*.*?\*\)", "", src, flags=re.S)
        for m in FORBIDDEN.finditer(src):
            hits.append(f"{v}: {m.group(0)}")
    return hits


class ProofStatus:
    def __init__(self):
        self.ok = False
        self.obligations = 0
        self.discharged = 0
        self.assumptions = []
        self.log = ""
        self.files = []
        self.theorems = []
        self.coqchk = None


TIER = "quick"      # set by check.py


def check_proofs(build, prop_file):
    """Re-compiles Properties/<file> (so Print Assumptions is captured on this run) and counts
    the Qed-closed statements of its dependency cone."""
    ps = ProofStatus()
    rel = "theories/Properties/" + prop_file
    ps.files = cone(rel)
    failed = set(build.failed)
    for f in ps.files:
        n = count_qed(f)
        ps.obligations += n
        if f not in failed:
            ps.discharged += n
    deps_ok = all(f not in failed for f in ps.files if f != rel)
    if deps_ok:
        with open(os.path.join(VERIF, ".build", "lock"), "w") as lock:
            fcntl.flock(lock, fcntl.LOCK_EX)
            rc, out = _run(["coqc", "-R", "theories", "RP2V", rel], cwd=COQ, timeout=900)
        ps.log = out
        ps.ok = rc == 0
        # Print Assumptions output
        blocks = re.findall(r"(Closed under the global context|Axioms:\n(?:.+\n?)+?)(?=\n\S|\Z)", out)
        ps.assumptions = [b.strip().replace("\n", " ") for b in blocks] or [out.strip()[:400]]
    else:
        bad = [f for f in ps.files if f in failed]
        ps.log = "dependencies failed to compile: " + ", ".join(bad) + "\n" + _errors_of(build.make_log)
        ps.ok = False
    if ps.ok and TIER == "thorough":
        # independent re-check of the compiled property file and everything it depends on
        mod = "RP2V.Properties." + prop_file[:-2]
        try:
            rc, out = _run(["coqchk", "-o", "-silent", "-R", "theories", "RP2V", mod], cwd=COQ, timeout=1800)
        except subprocess.TimeoutExpired:
            rc, out = 1, "coqchk timed out"
        summary = out[out.find("CONTEXT SUMMARY"):] if "CONTEXT SUMMARY" in out else out[-600:]
        ps.coqchk = " ".join(summary.split())[:700]
        if rc != 0:
            ps.ok = False
            ps.log += "\ncoqchk failed:\n" + out[-1500:]
    if not ps.ok:
        ps.discharged = min(ps.discharged, ps.obligations - 1) if ps.obligations else 0
    src = open(os.path.join(COQ, rel), encoding="utf-8").read()
    ps.theorems = re.findall(r"\bTheorem\s+([A-Za-z0-9_']+)", src)
    bad = forbidden_scan()
    if bad:
        ps.ok = False
        ps.log += "\nforbidden constructs: " + "; ".join(bad)
    return ps


def _errors_of(log):
    lines = log.splitlines()
    out = []
    for i, l in enumerate(lines):
        if l.startswith("File ") or "Error" in l:
            out.extend(lines[i:i + 6])
    return "\n".join(out[:60])


# ----------------------------------------------------------------------------- model driver
def run_model(lines, timeout=3600, shards=None):
    """lines: list of 'cmd a b c' strings -> list of lists of ints (one per line)."""
    if not lines:
        return []
    shards = shards or (NCPU if len(lines) > 400 else 1)
    n = len(lines)
    size = (n + shards - 1) // shards
    procs = []
    for i in range(0, n, size):
        chunk = "\n".join(lines[i:i + size]) + "\n"
        p = subprocess.Popen([DRIVER], stdin=subprocess.PIPE, stdout=subprocess.PIPE, text=True)
        procs.append((p, chunk))
    # feed / collect with threads to avoid pipe deadlocks
    import threading
    outs = [None] * len(procs)

    def work(k):
        p, chunk = procs[k]
        try:
            o, _ = p.communicate(chunk, timeout=timeout)
        except subprocess.TimeoutExpired:
            p.kill()
            o = ""
        outs[k] = o
    ths = [threading.Thread(target=work, args=(k,)) for k in range(len(procs))]
    for t in ths:
        t.start()
    for t in ths:
        t.join()
    res = []
    for o in outs:
        for l in (o or "").splitlines():
            res.append([int(x) for x in l.split()])
    if len(res) != n:
        raise RuntimeError(f"model driver returned {len(res)} results for {n} cases")
    return res


# ----------------------------------------------------------------------------- implementation side
_TMP = {}


def tmp_root():
    """One scratch directory per check process (outside /repo and /verif), removed at exit.  Forked pool
    workers inherit the path and only create sub-directories in it (they skip atexit handlers)."""
    if "root" not in _TMP:
        import atexit
        _TMP["root"] = tempfile.mkdtemp(prefix="rp2verif_")
        _TMP["pid"] = os.getpid()

        def _cleanup(root=_TMP["root"], pid=os.getpid()):
            if os.getpid() == pid:
                try:
                    os.chdir("/")
                except OSError:
                    pass
                shutil.rmtree(root, ignore_errors=True)
        atexit.register(_cleanup)
    return _TMP["root"]


def impl_env_setup():
    """Never run rp2 with cwd inside /repo or /verif: importing rp2.logger creates ./log."""
    d = os.path.join(tmp_root(), f"p{os.getpid()}")
    os.makedirs(d, exist_ok=True)
    os.chdir(d)
    src = os.path.join(REPO, "src")
    if sys.path[0] != src:
        sys.path.insert(0, src)
    import logging
    logging.disable(logging.CRITICAL)
    return d


def pool_map(fn, items, init=None, chunksize=None):
    import multiprocessing as mp
    if len(items) < 40:
        if init:
            init()
        return [fn(x) for x in items]
    tmp_root()            # created in the parent so that it is removed when the check exits
    ctx = mp.get_context("fork")
    with ctx.Pool(NCPU, initializer=init) as pool:
        return pool.map(fn, items, chunksize or max(1, len(items) // (NCPU * 8)))


# ----------------------------------------------------------------------------- findings / verdict
def known_findings(prop):
    out = []
    try:
        for line in open(KNOWN, encoding="utf-8"):
            line = line.strip()
            if not line or line.startswith("#"):
                continue
            if line.startswith("known:") and f"property={prop} " in line:
                head, _, text = line.partition("::")
                fields = dict(kv.split("=", 1) for kv in head.split()[1:] if "=" in kv)
                out.append({"id": fields.get("id"), "match": fields.get("match", ""), "text": text.strip()})
    except OSError:
        pass
    return out


SMOKE_CASE = {"asset": "B1", "exchanges": ["E0"], "holders": ["H0"], "country": "us", "env": None, "sched": [[1970, "fifo"]],
              "from": None, "to": None, "allow_neg": False,
              "ins": [{"row": 1, "ts": [1546300800000000, 0], "exch": 0, "holder": 0, "type": "BUY", "spot": 1000000000000, "crypto_in": 100000000000},
                      {"row": 2, "ts": [1590969600000000, 0], "exch": 0, "holder": 0, "type": "BUY", "spot": 2000000000000, "crypto_in": 100000000000}],
              "outs": [{"row": 3, "ts": [1609459200000000, -3600], "exch": 0, "holder": 0, "type": "SELL", "spot": 3000000000000,
                        "crypto_out_no_fee": 50000000000, "crypto_fee": 0}],
              "intras": []}
_SMOKE_CODE = r"""
import importlib, json, pkgutil, sys
from harness import core, hist
core.impl_env_setup()
import rp2
bad = []
for m in pkgutil.walk_packages(rp2.__path__, "rp2."):
    try:
        importlib.import_module(m.name)
    except Exception as exc:  # noqa: BLE001
        bad.append(f"import {m.name}: {type(exc).__name__}: {exc}")
r = hist.impl_compute(core.SMOKE_CASE)
if "ok" not in r:
    bad.append(f"the two-purchases-one-sale history fails: {r}")
elif [(f["ev"], f["lot"], f["amt"]) for f in r["ok"]["fractions"]] != [(3, 1, 50000000000)]:
    bad.append(f"the two-purchases-one-sale history under FIFO gives fractions {r['ok']['fractions']}")
print("SMOKE " + json.dumps(bad))
"""


def smoke():
    """None if every module of rp2 imports and the trivial history (two purchases, one sale, FIFO) computes; otherwise a text.
    A tree on which the implementation cannot run at all must not pass because every generated case was skipped.
    Cached per source tree (same key as the shared runs)."""
    from harness import l2
    got = l2.cache_get("smoke")
    if got is None:
        env = dict(os.environ, PYTHONPATH=VERIF + os.pathsep + os.path.join(REPO, "src"), PYTHONHASHSEED="0", PYTHONDONTWRITEBYTECODE="1")
        try:
            p = subprocess.run([sys.executable, "-c", _SMOKE_CODE], env=env, cwd=tmp_root(), stdout=subprocess.PIPE, stderr=subprocess.PIPE,
                               text=True, timeout=300)
            line = [l for l in p.stdout.splitlines() if l.startswith("SMOKE ")]
            bad = json.loads(line[-1][6:]) if line else [f"the smoke run died (exit {p.returncode}): {p.stderr[-400:]}"]
        except subprocess.TimeoutExpired:
            bad = ["the smoke run timed out"]
        got = {"bad": bad}
        l2.cache_put("smoke", got)
    return "; ".join(got["bad"])[:600] or None


class Outcome:
    """Collects what a check run found; finish() writes evidence, prints lines, returns exit code."""

    def __init__(self, prop, tier):
        self.prop = prop
        self.tier = tier
        self.t0 = time.time()
        self.violations = []     # dicts: {what, case, tags:set, found_input:bool}
        self.coverage = {}
        self.assumptions = []
        self.notes = []

    def violation(self, what, case=None, tags=(), found_input=True):
        self.violations.append({"what": what, "case": case, "tags": sorted(tags), "found_input": found_input})

    def finish(self, proofs, build, level="proof"):
        os.makedirs(EVIDENCE, exist_ok=True)
        sm = smoke()
        if sm:
            self.violation("the implementation does not run: " + sm, SMOKE_CASE, tags={"smoke"})
        self.coverage["implementation_smoke_run"] = "failed" if sm else "ok"
        known = known_findings(self.prop)
        printed_known = set()
        real = []
        for v in self.violations:
            hit = None
            for k in known:
                if v["found_input"] and k["match"] and k["match"] in v["tags"]:
                    hit = k
                    break
            if hit:
                if hit["id"] not in printed_known:
                    print(f"KNOWN-FINDING: property={self.prop} {hit['text']}")
                    printed_known.add(hit["id"])
            else:
                real.append(v)
        rc = 0
        if real:
            os.makedirs(REPLAYS, exist_ok=True)
            # one VIOLATION line (the first, preferring those with a concrete input)
            real.sort(key=lambda v: (not v["found_input"],))
            v = real[0]
            n = 0
            while os.path.exists(os.path.join(REPLAYS, f"{self.prop}-{n}.json")):
                n += 1
            path = os.path.join(REPLAYS, f"{self.prop}-{n}.json")
            with open(path, "w", encoding="utf-8") as f:
                json.dump({"property": self.prop, "what": v["what"], "case": v["case"], "tags": v["tags"],
                           "found_input": v["found_input"], "seed": seed(), "tier": self.tier,
                           "others": [{"what": o["what"], "tags": o["tags"], "found_input": o["found_input"]} for o in real[1:20]]},
                          f, indent=1, default=str)
            tail = "" if v["found_input"] else " no-failing-input-found"
            print(f"VIOLATION property={self.prop} replay={path}{tail}")
            rc = 1
        cov = dict(self.coverage)
        if proofs is not None:
            cov.setdefault("obligations", max(1, proofs.obligations))
            cov.setdefault("discharged", proofs.discharged if proofs.ok else max(0, min(proofs.discharged, proofs.obligations - 1)))
            if cov["discharged"] < 1:
                cov["discharged"] = 0
            cov.setdefault("checker_cmd", f"cd {COQ} && make -k && coqc -R theories RP2V theories/Properties/{self.prop}.v")
            tb = list(KERNEL_TB)
            tb.append("Print Assumptions of the property theorems (" + ", ".join(proofs.theorems) + "): "
                      + ("; ".join(sorted(set(proofs.assumptions))) if proofs.assumptions else "not available (proof did not compile)"))
            cov.setdefault("trusted_base", tb)
            if proofs.coqchk:
                tb.append("coqchk -o on the property module (thorough tier): " + proofs.coqchk)
            cov["proof_files"] = proofs.files
            cov["proofs_compiled"] = proofs.ok
        cov["translator"] = build.translator if build else {}
        try:
            from harness import fingerprint
            ch = {layer: fingerprint.changed(layer) for layer in fingerprint.LAYERS}
            cov["hand_modelled_source_changed"] = {k: v for k, v in ch.items() if v}
        except Exception:  # noqa: BLE001
            pass
        cov["known_findings_reported"] = sorted(x for x in printed_known if x)
        ev = {
            "property_id": self.prop, "tier": self.tier, "seed": seed(), "level": level,
            "coverage": cov, "assumptions": self.assumptions, "wall_s": round(time.time() - self.t0, 2),
            "violations": len(real),
        }
        if proofs is not None and (not proofs.ok or cov.get("discharged", 0) < 1):
            # schema: proof level needs discharged >= 1; keep the file valid and honest
            ev["coverage"]["discharged"] = max(ev["coverage"].get("discharged", 0), 0)
            if ev["coverage"]["discharged"] < 1:
                ev["coverage"].pop("discharged")
                ev["coverage"]["evaluations"] = max(1, cov.get("evaluations", 1))
                ev["coverage"]["distinct_nontrivial"] = max(2, cov.get("distinct_nontrivial", 2))
        with open(os.path.join(EVIDENCE, f"{self.prop}.json"), "w", encoding="utf-8") as f:
            json.dump(ev, f, indent=1, default=str)
        for n in self.notes:
            print("note:", n)
        print(f"{self.prop} [{self.tier}] {'FAIL' if rc else 'ok'} in {ev['wall_s']}s; "
              f"obligations {cov.get('discharged', 0)}/{cov.get('obligations', 0)}; evaluations {cov.get('evaluations', 0)}")
        return rc


def case_hash(obj):
    return hashlib.sha1(json.dumps(obj, sort_keys=True, default=str).encode()).hexdigest()[:16]


def proofs_verdict(out, proofs, build, prop_file):
    """A broken proof obligation is a violation by itself: with a concrete failing input if the
    run found one, otherwise naming the theorem file that no longer checks."""
    if proofs is not None and not proofs.ok:
        # always recorded: concrete inputs that are NOT known findings are preferred for the VIOLATION line (finish sorts
        # them first), but a broken proof must never be hidden behind violations that all match known findings
        if True:
            out.violation(f"proof obligations of Properties/{prop_file} no longer check:\n" + proofs.log[-2000:],
                          {"theorems": proofs.theorems, "translator": build.translator},
                          tags={"proof-broken"}, found_input=False)
