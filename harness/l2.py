"""Shared L2-L4 run: generated histories, implementation dumps, model outputs.
Results are cached on disk under a hash of /repo/src/rp2 + /verif sources + seed + tier,
so the checks of one sweep share the work; any edit changes the hash."""
import hashlib
import json
import os
import shutil

from harness import core, hist

CACHE = os.path.join(core.VERIF, ".cache")


def tree_hash():
    h = hashlib.sha1()
    roots = [os.path.join(core.REPO, "src", "rp2"), os.path.join(core.VERIF, "harness"), os.path.join(core.VERIF, "coq", "theories"),
             os.path.join(core.VERIF, "coq", "driver"), os.path.join(core.VERIF, "corpus")]
    for root in roots:
        for d, dirs, files in sorted(os.walk(root)):
            dirs.sort()
            if "__pycache__" in d:
                continue
            for f in sorted(files):
                if f.endswith((".py", ".v", ".ml", ".ods", ".json", ".mo", ".po", ".txt")) and not f.endswith("Generated.v"):
                    p = os.path.join(d, f)
                    h.update(p.encode())
                    with open(p, "rb") as fh:
                        h.update(fh.read())
    return h.hexdigest()[:20]


def cache_get(name):
    p = os.path.join(CACHE, tree_hash(), name + ".json")
    if os.path.exists(p):
        try:
            return json.load(open(p))
        except Exception:  # noqa: BLE001
            return None
    return None


def cache_put(name, obj):
    d = os.path.join(CACHE, tree_hash())
    os.makedirs(d, exist_ok=True)
    tmp = os.path.join(d, name + f".json.{os.getpid()}")
    with open(tmp, "w") as f:
        json.dump(obj, f)
    os.replace(tmp, os.path.join(d, name + ".json"))
    # prune: keep the three most recent hashes
    try:
        ds = sorted((os.path.getmtime(os.path.join(CACHE, x)), x) for x in os.listdir(CACHE))
        for _, x in ds[:-3]:
            shutil.rmtree(os.path.join(CACHE, x), ignore_errors=True)
    except OSError:
        pass


def corpus_cases(prop):
    out = []
    d = os.path.join(core.VERIF, "corpus", prop)
    if os.path.isdir(d):
        for f in sorted(os.listdir(d)):
            if f.endswith(".json"):
                out.append(json.load(open(os.path.join(d, f)))["case"])
    return out


def _impl_matcher(case):
    return hist.impl_compute(case, full=True)


def histories(tier):
    """generated histories of the matcher stream (method-focused), corpus first"""
    rng = core.Rng(core.seed(), 2)
    from harness import fingerprint
    n = (6000 if tier == "quick" else 60000) * (fingerprint.boost("l2") if tier == "quick" else 1)
    cases = []
    for p in ("C01", "C02", "C03", "C09"):
        cases += corpus_cases(p)
    for k in range(n):
        r = k % 10
        if r < 5:
            c = hist.gen_history(rng, overdraw_pct=0)
        elif r < 7:
            c = hist.gen_history(rng, overdraw_pct=0, method=hist.METHS[k % 4], earn_pct=45)
        elif r < 9:
            c = hist.gen_history(rng, overdraw_pct=40)
        else:
            c = hist.gen_history(rng, n_max=30, overdraw_pct=5, earn_pct=35)
        cases.append(c)
    # optional unique_id column (exchange order id / transaction hash): nothing requires it to be unique, and one on-chain
    # transaction is often recorded as several rows; results must not depend on it
    rng_u = core.Rng(core.seed(), 22)
    for k, c in enumerate(cases):
        if k % 5 == 1:
            rows = c["ins"] + c["outs"] + c["intras"]
            for r in rows:
                if rng_u.chance(50):
                    r["uid"] = f"id{rng_u.below(10 ** 6)}"
            if len(rows) >= 2:
                shared = f"tx{rng_u.below(10 ** 6)}"
                for r in rng_u.shuffle(list(rows))[:rng_u.range(2, min(4, len(rows)))]:
                    r["uid"] = shared
    return cases + ods_twins(cases, tier)


ODS_SHARE = 8          # one generated case in 8 (12.5 %) gets an end-to-end twin ...


def ods_twins(cases, tier):
    """the end-to-end ("ods") stream: twins of generated cases that are run from real .ini / .ods files through parse_ods
    (hist.ods_case): one case in ODS_SHARE, and ALWAYS those with an acquisition paying its fee in crypto (the parser splits
    such a row); among them sub-second timestamps are frequent.  Only cases whose numbers are exact at 11 decimals as
    doubles qualify.  Plus a few targeted ones (hist.gen_threshold): a lot with a crypto fee and a sub-second timestamp,
    disposed of around the long-term threshold."""
    rng = core.Rng(core.seed(), 23)
    out = []
    for k, c in enumerate(cases):
        if c.get("via") or not (k % ODS_SHARE == 3 or hist.has_in_crypto_fee(c)) or not hist.ods_eligible(c):
            continue
        t = hist.ods_case(c, rng)
        if t is not None:
            out.append(t)
    for k in range(60 if tier == "quick" else 600):
        t = hist.ods_case(hist.gen_threshold(rng), rng)
        if t is not None:
            out.append(t)
    return out


def is_ods(case):
    return case.get("via") == "ods"


CCODE = {"InTransaction": 0, "OutTransaction": 1, "IntraTransaction": 2}


def ods_models(cases, impl):
    """model outputs for ods cases in the shapes of commands 10 / 11 / 13, all from command 31 (the Coq parser applied to the
    cells read back from the file, then the same pipeline): -> (model, spec, events, full decoded ComputedData)"""
    from harness import l4
    args = [i.pop("line") for i in impl]
    raw = core.run_model([hist.line(31, [0] + a) for a in args])
    spec = core.run_model([hist.line(31, [1] + a) for a in args])
    model, events, full = [], [], []
    for c, r in zip(cases, raw):
        d = l4.decode_computed(r, c)
        full.append(d)
        if "err" in d:
            model.append([r[0]])
            events.append([r[0]])
            continue
        m = [0, len(d["fractions"])]
        for f in d["fractions"]:
            m += [f["ev"], 0 if f["lot"] is None else 1, 0 if f["lot"] is None else f["lot"], f["amt"]]
        model.append(m)
        e = [0, len(d["events"])]
        for row, cname, _, earn, amt in d["events"]:
            e += [row, CCODE[cname], earn, amt]
        events.append(e)
    return model, spec, events, full


def run_cases(cases):
    """-> dict(cases, impl, model, spec, events): the implementation and the model on every case; ods cases go end to end
    on both sides (real files + parse_ods / command 31), their entry in 'odsfull' is the model's whole ComputedData"""
    impl = core.pool_map(_impl_matcher, cases, init=core.impl_env_setup)
    plain = [k for k, c in enumerate(cases) if not is_ods(c)]
    ods = [k for k, c in enumerate(cases) if is_ods(c)]
    enc = [hist.encode_hist(cases[k]) for k in plain]
    res = {"cases": cases, "impl": impl, "odsfull": {}}
    outs = {"model": core.run_model([hist.line(10, e) for e in enc]), "spec": core.run_model([hist.line(11, e) for e in enc]),
            "events": core.run_model([hist.line(13, e) for e in enc])}
    om, osp, oev, ofull = ods_models([cases[k] for k in ods], [impl[k] for k in ods]) if ods else ([], [], [], [])
    for name, o in (("model", om), ("spec", osp), ("events", oev)):
        merged = [None] * len(cases)
        for k, v in zip(plain, outs[name]):
            merged[k] = v
        for k, v in zip(ods, o):
            merged[k] = v
        res[name] = merged
    for k, d in zip(ods, ofull):
        res["odsfull"][str(k)] = d
    return res


def run(tier):
    """-> dict(cases, impl, model, spec, events)"""
    name = f"l2_{tier}_{core.seed()}"
    got = cache_get(name)
    if got:
        return got
    res = run_cases(histories(tier))
    cache_put(name, res)
    return res


def impl_fracs(i):
    if "err" in i:
        return ("err", i["err"], i.get("msg", ""))
    return ("ok", [(f["ev"], f["lot"], f["amt"]) for f in i["ok"]["fractions"]])


ERRMAP = {1: "value", 2: "runtime", 3: "runtime", 5: "value", 6: "type", 8: "value", 9: "runtime"}


def same_outcome(iv, mv):
    """implementation outcome vs decoded model outcome"""
    if iv[0] == "ok" and mv[0] == "ok":
        return [tuple(x) for x in iv[1]] == [tuple(x) for x in mv[1]]
    if iv[0] == "err" and mv[0] == "err":
        return ERRMAP.get(mv[1]) == iv[1]
    return False
