"""Shared L2-L4 run: generated histories, implementation dumps, model outputs.
Results are cached on disk under a hash of /repo/src/rp2 + /verif sources + seed + tier,
so the checks of one sweep share the work; any edit changes the hash."""
import hashlib
import json
import os
import shutil

from harness import core, hist

CACHE = os.path.join(core.VERIF, ".cache")


def tree_hash():
    h = hashlib.sha1()
    roots = [os.path.join(core.REPO, "src", "rp2"), os.path.join(core.VERIF, "harness"), os.path.join(core.VERIF, "coq", "theories"),
             os.path.join(core.VERIF, "coq", "driver"), os.path.join(core.VERIF, "corpus")]
    for root in roots:
        for d, dirs, files in sorted(os.walk(root)):
            dirs.sort()
            if "__pycache__" in d:
                continue
            for f in sorted(files):
                if f.endswith((".py", ".v", ".ml", ".ods", ".json", ".mo", ".po", ".txt")) and not f.endswith("Generated.v"):
                    p = os.path.join(d, f)
                    h.update(p.encode())
                    with open(p, "rb") as fh:
                        h.update(fh.read())
    return h.hexdigest()[:20]


def cache_get(name):
    p = os.path.join(CACHE, tree_hash(), name + ".json")
    if os.path.exists(p):
        try:
            return json.load(open(p))
        except Exception:  # noqa: BLE001
            return None
    return None


def cache_put(name, obj):
    d = os.path.join(CACHE, tree_hash())
    os.makedirs(d, exist_ok=True)
    tmp = os.path.join(d, name + f".json.{os.getpid()}")
    with open(tmp, "w") as f:
        json.dump(obj, f)
    os.replace(tmp, os.path.join(d, name + ".json"))
    # prune: keep the three most recent hashes
    try:
        ds = sorted((os.path.getmtime(os.path.join(CACHE, x)), x) for x in os.listdir(CACHE))
        for _, x in ds[:-3]:
            shutil.rmtree(os.path.join(CACHE, x), ignore_errors=True)
    except OSError:
        pass


def corpus_cases(prop):
    out = []
    d = os.path.join(core.VERIF, "corpus", prop)
    if os.path.isdir(d):
        for f in sorted(os.listdir(d)):
            if f.endswith(".json"):
                out.append(json.load(open(os.path.join(d, f)))["case"])
    return out


def _impl_matcher(case):
    return hist.impl_compute(case, full=True)


def histories(tier):
    """generated histories of the matcher stream (method-focused), corpus first"""
    rng = core.Rng(core.seed(), 2)
    from harness import fingerprint
    n = (6000 if tier == "quick" else 60000) * (fingerprint.boost("l2") if tier == "quick" else 1)
    cases = []
    for p in ("C01", "C02", "C03", "C09"):
        cases += corpus_cases(p)
    for k in range(n):
        r = k % 10
        if r < 5:
            c = hist.gen_history(rng, overdraw_pct=0)
        elif r < 7:
            c = hist.gen_history(rng, overdraw_pct=0, method=hist.METHS[k % 4], earn_pct=45)
        elif r < 9:
            c = hist.gen_history(rng, overdraw_pct=40)
        else:
            c = hist.gen_history(rng, n_max=30, overdraw_pct=5, earn_pct=35)
        cases.append(c)
    # optional unique_id column (exchange order id / transaction hash): nothing requires it to be unique, and one on-chain
    # transaction is often recorded as several rows; results must not depend on it
    rng_u = core.Rng(core.seed(), 22)
    for k, c in enumerate(cases):
        if k % 5 == 1:
            rows = c["ins"] + c["outs"] + c["intras"]
            for r in rows:
                if rng_u.chance(50):
                    r["uid"] = f"id{rng_u.below(10 ** 6)}"
            if len(rows) >= 2:
                shared = f"tx{rng_u.below(10 ** 6)}"
                for r in rng_u.shuffle(list(rows))[:rng_u.range(2, min(4, len(rows)))]:
                    r["uid"] = shared
    return cases


def run(tier):
    """-> dict(cases, impl, model, spec, events)"""
    name = f"l2_{tier}_{core.seed()}"
    got = cache_get(name)
    if got:
        return got
    cases = histories(tier)
    impl = core.pool_map(_impl_matcher, cases, init=core.impl_env_setup)
    enc = [hist.encode_hist(c) for c in cases]
    model = core.run_model([hist.line(10, e) for e in enc])
    spec = core.run_model([hist.line(11, e) for e in enc])
    events = core.run_model([hist.line(13, e) for e in enc])
    res = {"cases": cases, "impl": impl, "model": model, "spec": spec, "events": events}
    cache_put(name, res)
    return res


def impl_fracs(i):
    if "err" in i:
        return ("err", i["err"], i.get("msg", ""))
    return ("ok", [(f["ev"], f["lot"], f["amt"]) for f in i["ok"]["fractions"]])


ERRMAP = {1: "value", 2: "runtime", 3: "runtime", 5: "value", 6: "type", 8: "value", 9: "runtime"}


def same_outcome(iv, mv):
    """implementation outcome vs decoded model outcome"""
    if iv[0] == "ok" and mv[0] == "ok":
        return [tuple(x) for x in iv[1]] == [tuple(x) for x in mv[1]]
    if iv[0] == "err" and mv[0] == "err":
        return ERRMAP.get(mv[1]) == iv[1]
    return False
