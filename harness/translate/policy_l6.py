"""Policy of C18's static half (not derived from rp2): which modules the source of rp2 may import, which
must never be imported, and the modelled write sites.  Emitted into Generated.v by the `policy`
fragment (so that the Coq checkers and the harness's diagnostics read the same lists)."""

# Modules rp2 may import: the standard-library and third-party modules it uses today plus other
# facilities that can neither reach the network nor start a process.
ALLOWED_TOPLEVEL = [
    "rp2", "_decimal", "argparse", "babel", "cProfile", "configparser", "copy", "dataclasses", "datetime", "dateutil",
    "decimal", "enum", "ezodf", "functools", "gettext", "heapq", "importlib", "inspect", "itertools", "json",
    "jsonschema", "logging", "os", "pathlib", "pkgutil", "prezzemolo", "pycountry", "sys", "threading", "types", "typing",
    "abc", "bisect", "collections", "contextlib", "fractions", "locale", "math", "numbers", "operator", "re", "string",
    "textwrap", "time", "typing_extensions", "unicodedata", "warnings", "zipfile", "lxml", "__future__", "calendar", "csv",
    "hashlib", "io", "pprint", "statistics", "traceback", "uuid", "weakref",
]

# networking / process / foreign-code / persistence-elsewhere facilities: never importable
DENIED_TOPLEVEL = [
    "socket", "ssl", "http", "urllib", "ftplib", "smtplib", "poplib", "imaplib", "nntplib", "telnetlib", "xmlrpc", "asyncio",
    "subprocess", "multiprocessing", "ctypes", "webbrowser", "requests", "aiohttp", "httpx", "urllib3", "paramiko",
    "socketserver", "select", "selectors", "smtpd", "cgi", "wsgiref", "websocket", "websockets", "grpc", "pty", "pexpect",
    "sh", "plumbum", "concurrent", "_socket", "_ssl", "_posixsubprocess", "_ctypes", "cffi", "mmap", "signal", "resource",
    "pickle", "marshal", "shelve", "dbm", "sqlite3", "boto3", "botocore", "pycurl", "twisted", "tornado", "dns", "ftputil",
    "shutil", "tempfile", "runpy", "code", "codeop", "imp", "zipimport", "pip", "ensurepip", "venv", "distutils", "setuptools",
]
# denied as dotted module paths inside an allowed top-level package (SocketHandler, SMTPHandler, HTTPHandler, listen() ...)
DENIED_DOTTED = ["logging.handlers", "logging.config"]
# (module, name prefix) that must not be imported from an otherwise allowed module
DENIED_NAMES = [
    ("os", "system"), ("os", "popen"), ("os", "exec"), ("os", "spawn"), ("os", "fork"), ("os", "posix_spawn"),
    ("os", "startfile"), ("os", "kill"), ("builtins", "exec"), ("builtins", "eval"), ("builtins", "compile"),
    ("builtins", "__import__"), ("importlib", "__import__"), ("logging", "handlers"), ("logging", "config"),
]
# every dynamic import must have this constant prefix
PLUGIN_PREFIX = "rp2.plugin."

# the modelled write sites: (module under src/rp2, callee, required constant prefix of the path, what it is)
MODELLED_WRITE_SITES = [
    ("logger.py", ".mkdir", "./log", "the log directory ./log"),
    ("logger.py", "logging.FileHandler", "./log/rp2_", "the log file ./log/rp2_<timestamp>.log"),
    ("rp2_main.py", ".mkdir", "", "creation of the output directory"),
    ("plugin/report/abstract_ods_generator.py", ".unlink", "", "removal of a stale report of the same name"),
    ("plugin/report/abstract_ods_generator.py", "ezodf.newdoc", "", "the report document output_dir/prefix+method_name"),
    ("plugin/report/open_positions.py", ".save", "", "saving the report document"),
    ("plugin/report/rp2_full_report.py", ".save", "", "saving the report document"),
    ("plugin/report/us/tax_report_us.py", ".save", "", "saving the report document"),
    ("plugin/report/jp/tax_report_jp.py", ".save", "", "saving the report document"),
    ("plugin/report/ie/tax_report_ie.py", ".save", "", "saving the report document"),
    ("rp2_configuration_translator.py", "open", "", "rp2_config (not a country entry point): the .ini named on its command line"),
]
