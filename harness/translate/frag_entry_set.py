"""Translator fragment for abstract_entry_set.py: the date window of a filtered set (`EntrySetIterator`) and the life
cycle of a filtered copy (`AbstractEntrySet.duplicate`, `_check_sort`, `_force_sort`, `__iter__`) as tables.

What is read from the source on every run (fail-closed: anything outside the recognised shapes raises Unrecognised and
tie.generate falls back to accepted/entry_set.v, status `fallback(...)`):

  * `EntrySetIterator.__next__`: the tests applied to each entry, IN SOURCE ORDER, as `(condition, action)`:
        condition  IT_cmp <key> <cmp> <bound>    or IT_always (an unconditional `return` / `raise` / `continue`)
        key        which quantity of the entry is compared: IK_local_day = `entry.timestamp.date()` (the entry's own calendar
                   day), IK_utc_day = `entry.timestamp.astimezone(timezone.utc).date()`, IK_instant = `entry.timestamp` (aware
                   datetimes compare as instants), IK_wall_clock = `entry.timestamp.replace(tzinfo=None)`
        bound      IB_date IW_from|IW_to = the set's `from_date` / `to_date`; IB_datetime w <microsecond of the day> IZ_utc|IZ_naive
                   = a datetime built from it (`datetime.combine(d, time.max, tzinfo=timezone.utc)`, `datetime(d.year, d.month,
                   d.day, 23, 59, 59)`, ...)
        cmp        IC_gt | IC_ge | IC_lt | IC_le with the entry's quantity on the LEFT (`b < a`, `not a <= b` are normalised)
        action     IA_stop = `raise StopIteration` (the iteration ends: finding F9 is about the to-date test doing this on a list
                   sorted by instant, not by local day), IA_return = `return <entry>`, IA_skip = `continue` (next entry)
    and what happens to an entry no test fires on: IA_skip for the `while index < size` loop, IA_stop when the loop was
    rewritten as an `if`.  Locals of the loop body, attributes precomputed in `__init__` and one-argument single-return
    module functions are inlined before classification, so their names are free and "the bound precomputed as a datetime"
    is seen as the datetime it is.  A key/bound pair Python could not compare (date with datetime, aware with naive) is
    rejected;
  * `EntrySetIterator.__init__`: besides the three pinned assignments an optional loop that skips leading entries while a
    condition holds (`gen_it_prelude`);
  * the sort key of `_sort_entries` (`_entry_sort_key`), the properties `from_date` / `to_date` / `count` (pinned);
  * `duplicate`: the copy is `copy(self)` (shallow: same entry list, same derived dictionaries), then, in source order, which
    bound is assigned from which parameter and the statements of the `_force_sort()` / `_check_sort()` call INLINED
    (`ES_flag false` = `self.__is_sorted = False`, `ES_sort_if_unsorted` = `if not self.__is_sorted: self._sort_entries();
    self.__is_sorted = True`, `ES_sort` = an unconditional `_sort_entries()`); `__iter__` likewise.

The Coq side (Model/EntrySetGen.v) interprets the tables; Proofs/EntrySetGenProofs.v proves that for the tables of the
CURRENT source the interpreter is `iter_window` of Model/Computed.v and that a duplicate is always re-sorted under its own
to-date.
"""
import ast
import copy as _copy

from . import gen
from .expr import Unrecognised, find_class, find_method, Translator

TYPES = """Inductive it_key := IK_local_day | IK_utc_day | IK_instant | IK_wall_clock.
Inductive it_which := IW_from | IW_to.
Inductive it_zone := IZ_utc | IZ_naive.
Inductive it_bound := IB_date (w : it_which) | IB_datetime (w : it_which) (tod_us : Z) (z : it_zone).
Inductive it_cmp := IC_gt | IC_ge | IC_lt | IC_le.
Inductive it_action := IA_stop | IA_return | IA_skip.
Inductive it_cond := IT_always | IT_cmp (k : it_key) (c : it_cmp) (b : it_bound).
Inductive es_field := EF_from | EF_to.
Inductive es_src := EP_from_arg | EP_to_arg | EP_min_date | EP_max_date.
Inductive es_stmt := ES_set (f : es_field) (v : es_src) | ES_flag (b : bool) | ES_sort | ES_sort_if_unsorted.
"""

ENTRY, FROM, TO = "ENTRY__", "FROM__", "TO__"
GUARD = "self.__index < self.__entry_set_size"
LIST = "self.__entry_set._entry_list"


def U(node):
    return ast.unparse(node)


def _name(node):
    return node.id if isinstance(node, ast.Name) else None


def _bare_annotation(s):
    return isinstance(s, ast.AnnAssign) and s.value is None and isinstance(s.target, ast.Name)


def _stmts(body):
    return [s for s in body if not Translator.is_noise(s) and not _bare_annotation(s)]


def _assign(stmt):
    if isinstance(stmt, ast.Assign) and len(stmt.targets) == 1:
        return stmt.targets[0], stmt.value
    if isinstance(stmt, ast.AnnAssign) and stmt.value is not None:
        return stmt.target, stmt.value
    return None


def _single_return(fn):
    body = _stmts(fn.body)
    if len(body) != 1 or not isinstance(body[0], ast.Return) or body[0].value is None:
        raise Unrecognised(f"{fn.name}: not a single return")
    return body[0].value


def _module_fns(tree):
    """one-argument, single-return module functions: name -> (parameter, returned expression)"""
    out = {}
    for n in tree.body:
        if isinstance(n, ast.FunctionDef):
            a = n.args
            if len(a.args) == 1 and not (a.vararg or a.kwarg or a.kwonlyargs or a.defaults or a.posonlyargs) and not n.decorator_list:
                try:
                    out[n.name] = (a.args[0].arg, _single_return(n))
                except Unrecognised:
                    pass
    return out


class _Subst(ast.NodeTransformer):
    """replaces names / `self.<attr>` paths / calls of inlinable module functions; `changed` tells whether anything happened"""

    def __init__(self, names, paths, fns):
        self.names, self.paths, self.fns, self.changed = names, paths, fns, False

    def visit_Name(self, node):
        if isinstance(node.ctx, ast.Load) and node.id in self.names:
            self.changed = True
            return _copy.deepcopy(self.names[node.id])
        return node

    def visit_Attribute(self, node):
        s = U(node)
        if s in self.paths:
            self.changed = True
            return _copy.deepcopy(self.paths[s])
        return self.generic_visit(node)

    def visit_Subscript(self, node):
        s = U(node)
        if s in self.paths:
            self.changed = True
            return _copy.deepcopy(self.paths[s])
        return self.generic_visit(node)

    def visit_Call(self, node):
        if isinstance(node.func, ast.Name) and node.func.id in self.fns and len(node.args) == 1 and not node.keywords:
            par, ret = self.fns[node.func.id]
            self.changed = True
            arg = self.visit(node.args[0])
            return _Subst({par: arg}, {}, {}).visit(_copy.deepcopy(ret))
        return self.generic_visit(node)


def _resolve(node, names, paths, fns):
    node = _copy.deepcopy(node)
    for _ in range(12):
        s = _Subst(names, paths, fns)
        node = s.visit(node)
        if not s.changed:
            return node
    raise Unrecognised(f"cyclic definitions in `{U(node)[:80]}`")


# ---------------------------------------------------------------- classification of resolved expressions
KEYS = {
    f"{ENTRY}.timestamp.date()": ("IK_local_day", "date"),
    f"{ENTRY}.timestamp.astimezone(timezone.utc).date()": ("IK_utc_day", "date"),
    f"{ENTRY}.timestamp": ("IK_instant", "aware"),
    f"{ENTRY}.timestamp.astimezone(timezone.utc)": ("IK_instant", "aware"),
    f"{ENTRY}.timestamp.replace(tzinfo=None)": ("IK_wall_clock", "naive"),
}


def _int(node):
    if isinstance(node, ast.Constant) and type(node.value) is int and node.value >= 0:
        return node.value
    raise Unrecognised(f"`{U(node)}` is not a non-negative integer literal")


def _tod(parts):
    """[h, m, s, us] (prefix) -> microsecond of the day"""
    if len(parts) > 4:
        raise Unrecognised("time of day: too many components")
    h, m, s, us = (parts + [0, 0, 0, 0])[:4]
    if not (h < 24 and m < 60 and s < 60 and us < 1000000):
        raise Unrecognised("time of day out of range")
    return ((h * 60 + m) * 60 + s) * 1000000 + us


def _zone(keywords):
    if not keywords:
        return "IZ_naive"
    if len(keywords) == 1 and keywords[0].arg == "tzinfo":
        v = U(keywords[0].value)
        if v == "timezone.utc":
            return "IZ_utc"
        if v == "None":
            return "IZ_naive"
    raise Unrecognised("time zone of a precomputed bound")


def _which(node):
    n = _name(node)
    if n == FROM:
        return "IW_from"
    if n == TO:
        return "IW_to"
    return None


def _bound(node):
    """-> (coq term, kind)"""
    w = _which(node)
    if w:
        return f"IB_date {w}", "date"
    if isinstance(node, ast.Call) and U(node.func) == "datetime.combine" and len(node.args) in (2, 3):
        w = _which(node.args[0])
        if not w:
            raise Unrecognised(f"bound `{U(node)}`")
        t = node.args[1]
        ts = U(t)
        if ts == "time.min":
            tod = 0
        elif ts == "time.max":
            tod = 86399999999
        elif isinstance(t, ast.Call) and _name(t.func) == "time" and not t.keywords:
            tod = _tod([_int(a) for a in t.args])
        else:
            raise Unrecognised(f"time of day `{ts}`")
        if len(node.args) == 3:
            if node.keywords:
                raise Unrecognised(f"bound `{U(node)}`")
            z = _zone([ast.keyword(arg="tzinfo", value=node.args[2])])
        else:
            z = _zone(node.keywords)
        return f"IB_datetime {w} {tod} {z}", ("aware" if z == "IZ_utc" else "naive")
    if isinstance(node, ast.Call) and _name(node.func) == "datetime" and 3 <= len(node.args) <= 7:
        ws = []
        for a, attr in zip(node.args[:3], ("year", "month", "day")):
            if not (isinstance(a, ast.Attribute) and a.attr == attr and _which(a.value)):
                raise Unrecognised(f"bound `{U(node)}`")
            ws.append(_which(a.value))
        if len(set(ws)) != 1:
            raise Unrecognised(f"bound `{U(node)}` mixes the two dates")
        tod = _tod([_int(a) for a in node.args[3:]])
        z = _zone(node.keywords)
        return f"IB_datetime {ws[0]} {tod} {z}", ("aware" if z == "IZ_utc" else "naive")
    raise Unrecognised(f"bound `{U(node)}`")


CMP = {ast.Gt: "IC_gt", ast.GtE: "IC_ge", ast.Lt: "IC_lt", ast.LtE: "IC_le"}
FLIP = {"IC_gt": "IC_lt", "IC_ge": "IC_le", "IC_lt": "IC_gt", "IC_le": "IC_ge"}
NEG = {"IC_gt": "IC_le", "IC_ge": "IC_lt", "IC_lt": "IC_ge", "IC_le": "IC_gt"}


def _mentions_entry(node):
    return any(isinstance(n, ast.Name) and n.id == ENTRY for n in ast.walk(node))


def _cond(node):
    """resolved test -> coq it_cond"""
    neg = False
    while isinstance(node, ast.UnaryOp) and isinstance(node.op, ast.Not):
        neg = not neg
        node = node.operand
    if not (isinstance(node, ast.Compare) and len(node.ops) == 1 and type(node.ops[0]) in CMP):
        raise Unrecognised(f"window test `{U(node)[:100]}`")
    op = CMP[type(node.ops[0])]
    left, right = node.left, node.comparators[0]
    if _mentions_entry(right) and not _mentions_entry(left):
        left, right, op = right, left, FLIP[op]
    if neg:
        op = NEG[op]
    ks = U(left)
    if ks not in KEYS:
        raise Unrecognised(f"compared quantity `{ks[:100]}`")
    key, kk = KEYS[ks]
    b, bk = _bound(right)
    if kk != bk:
        raise Unrecognised(f"`{ks}` ({kk}) is not comparable with `{U(right)[:60]}` ({bk})")
    return f"IT_cmp {key} {op} ({b})"


# ---------------------------------------------------------------- the iterator
def _is_stop(s):
    if not (isinstance(s, ast.Raise) and s.cause is None and s.exc is not None):
        return False
    return U(s.exc) in ("StopIteration(self)", "StopIteration()", "StopIteration")


def _is_advance(s):
    return isinstance(s, ast.AugAssign) and isinstance(s.op, ast.Add) and U(s.target) == "self.__index" and U(s.value) == "1"


def _iterator(cls, fns):
    init = find_method(cls, "__init__")
    if [a.arg for a in init.args.args] != ["self", "entry_set"] or init.args.defaults or init.args.vararg or init.args.kwarg:
        raise Unrecognised("EntrySetIterator.__init__ signature")
    pinned = {"self.__entry_set": {"entry_set"}, "self.__entry_set_size": {"self.__entry_set.count", "entry_set.count"},
              "self.__index": {"0"}}
    seen, attrs, locs, prelude = set(), {}, {}, None
    canon = {"self.__entry_set.from_date": ast.Name(id=FROM, ctx=ast.Load()), "self.__entry_set._from_date": ast.Name(id=FROM, ctx=ast.Load()),
             "self.__entry_set.to_date": ast.Name(id=TO, ctx=ast.Load()), "self.__entry_set._to_date": ast.Name(id=TO, ctx=ast.Load())}
    param = {"entry_set": ast.parse("self.__entry_set", mode="eval").body}

    def res(node, names, extra_paths=None):
        paths = dict(attrs)
        n1 = _resolve(node, {**param, **names}, paths, fns)
        paths2 = dict(canon)
        paths2.update(extra_paths or {})
        return _resolve(n1, {}, paths2, {})

    for s in _stmts(init.body):
        a = _assign(s)
        if a and U(a[0]) in pinned:
            if U(a[0]) in seen or U(a[1]) not in pinned[U(a[0])]:
                raise Unrecognised(f"EntrySetIterator.__init__: `{U(s)}`")
            seen.add(U(a[0]))
        elif a and isinstance(a[0], ast.Attribute) and _name(a[0].value) == "self":
            if prelude is not None or U(a[0]) in attrs:
                raise Unrecognised(f"EntrySetIterator.__init__: `{U(s)[:80]}`")
            attrs[U(a[0])] = _resolve(a[1], {**param, **locs}, dict(attrs), {})
        elif a and isinstance(a[0], ast.Name):
            if a[0].id in locs or a[0].id == "entry_set":
                raise Unrecognised(f"EntrySetIterator.__init__: `{a[0].id}` assigned twice")
            locs[a[0].id] = _resolve(a[1], {**param, **locs}, dict(attrs), {})
        elif isinstance(s, ast.While):
            if prelude is not None or len(seen) != 3 or s.orelse:
                raise Unrecognised("EntrySetIterator.__init__: loop")
            t = s.test
            if not (isinstance(t, ast.BoolOp) and isinstance(t.op, ast.And) and len(t.values) == 2 and U(t.values[0]) == GUARD):
                raise Unrecognised(f"EntrySetIterator.__init__: loop test `{U(t)[:100]}`")
            if len(s.body) != 1 or not _is_advance(s.body[0]):
                raise Unrecognised("EntrySetIterator.__init__: loop body")
            c = res(t.values[1], locs, {f"{LIST}[self.__index]": ast.Name(id=ENTRY, ctx=ast.Load())})
            prelude = _cond(c)
        else:
            raise Unrecognised(f"EntrySetIterator.__init__: `{U(s)[:80]}`")
    if len(seen) != 3:
        raise Unrecognised("EntrySetIterator.__init__: pinned assignments missing")

    nxt = find_method(cls, "__next__")
    if [a.arg for a in nxt.args.args] != ["self"]:
        raise Unrecognised("__next__ signature")
    body = _stmts(nxt.body)
    if body:
        a = _assign(body[0])
        if a and isinstance(a[0], ast.Name) and U(a[1]) == "None":
            body = body[1:]
    if len(body) != 2 or not _is_stop(body[1]):
        raise Unrecognised("__next__: expected one loop followed by `raise StopIteration`")
    loop = body[0]
    if not (isinstance(loop, (ast.While, ast.If)) and U(loop.test) == GUARD and not loop.orelse):
        raise Unrecognised(f"__next__: loop `{U(loop.test)[:80]}`")
    is_while = isinstance(loop, ast.While)
    stmts = _stmts(loop.body)
    # fetch (+ advance)
    var = None
    if is_while:
        if len(stmts) < 2:
            raise Unrecognised("__next__: loop body")
        a0, a1 = _assign(stmts[0]), _assign(stmts[1])
        if a0 and isinstance(a0[0], ast.Name) and U(a0[1]) == f"{LIST}[self.__index]" and _is_advance(stmts[1]):
            var = a0[0].id
        elif _is_advance(stmts[0]) and a1 and isinstance(a1[0], ast.Name) and U(a1[1]) == f"{LIST}[self.__index - 1]":
            var = a1[0].id
        else:
            raise Unrecognised("__next__: fetch / advance")
        stmts = stmts[2:]
    else:
        a0 = _assign(stmts[0]) if stmts else None
        if not (a0 and isinstance(a0[0], ast.Name) and U(a0[1]) == f"{LIST}[self.__index]"):
            raise Unrecognised("__next__: fetch")
        var = a0[0].id
        stmts = stmts[1:]

    names = {var: ast.Name(id=ENTRY, ctx=ast.Load())}
    tests = []

    def action(block):
        """statements of a branch -> action"""
        if is_while:
            if len(block) == 1 and _is_stop(block[0]):
                return "IA_stop"
            if len(block) == 1 and isinstance(block[0], ast.Return) and _name(block[0].value) == var:
                return "IA_return"
            if len(block) == 1 and isinstance(block[0], ast.Continue):
                return "IA_skip"
        else:
            if len(block) == 1 and _is_stop(block[0]):
                return "IA_stop"
            if len(block) == 2 and _is_advance(block[0]) and isinstance(block[1], ast.Return) and _name(block[1].value) == var:
                return "IA_return"
        raise Unrecognised(f"__next__: branch `{'; '.join(U(b) for b in block)[:100]}`")

    closed = False
    for s in stmts:
        if closed:
            raise Unrecognised("__next__: statements after an unconditional exit")
        a = _assign(s)
        if a and isinstance(a[0], ast.Name):
            if a[0].id in names:
                raise Unrecognised(f"__next__: `{a[0].id}` assigned twice")
            names[a[0].id] = _resolve(a[1], names, dict(attrs), fns)
        elif isinstance(s, ast.If) and not s.orelse:
            tests.append((_cond(res(s.test, names)), action(_stmts(s.body))))
        elif isinstance(s, ast.If):
            # if C: A else: B   ==   (C, A); (always, B)
            tests.append((_cond(res(s.test, names)), action(_stmts(s.body))))
            tests.append(("IT_always", action(_stmts(s.orelse))))
            closed = True
        else:
            rest = stmts[stmts.index(s):]
            tests.append(("IT_always", action(rest)))
            closed = True
            break
    if not tests:
        raise Unrecognised("__next__: no test")
    return prelude, tests, ("IA_skip" if is_while else "IA_stop")


# ---------------------------------------------------------------- the set
def _prop(cls, name, expect):
    fn = find_method(cls, name)
    if not any(_name(d) == "property" for d in fn.decorator_list) or U(_single_return(fn)) != expect:
        raise Unrecognised(f"property {name}")


def _inline_method(cls, name, depth=0):
    """body of a `self` method of AbstractEntrySet as es_stmt list"""
    if depth > 4:
        raise Unrecognised("recursive sort helpers")
    fn = find_method(cls, name)
    if [a.arg for a in fn.args.args] != ["self"]:
        raise Unrecognised(f"{name} signature")
    out = []
    for s in _stmts(fn.body):
        out += _es_stmt(cls, s, "self", depth)
    return out


def _es_stmt(cls, s, obj, depth):
    t = U(s)
    if t == f"{obj}.__is_sorted = False" and obj == "self":
        return ["ES_flag false"]
    if t == f"{obj}.__is_sorted = True" and obj == "self":
        return ["ES_flag true"]
    if t == f"{obj}._sort_entries()":
        return ["ES_sort"]
    if isinstance(s, ast.If) and not s.orelse and obj == "self" and U(s.test) == "not self.__is_sorted":
        inner = sorted(U(x) for x in _stmts(s.body))
        if inner == ["self.__is_sorted = True", "self._sort_entries()"]:
            return ["ES_sort_if_unsorted"]
        raise Unrecognised(f"guarded sort `{t[:100]}`")
    if isinstance(s, ast.Expr) and isinstance(s.value, ast.Call) and not s.value.args and not s.value.keywords:
        f = s.value.func
        if isinstance(f, ast.Attribute) and _name(f.value) == obj and f.attr in ("_force_sort", "_check_sort"):
            return _inline_method(cls, f.attr, depth + 1)
    raise Unrecognised(f"statement `{t[:100]}`")


def _set(tree, cls, fns):
    _prop(cls, "from_date", "self._from_date")
    _prop(cls, "to_date", "self._to_date")
    _prop(cls, "count", "len(self._entry_list)")
    init = [U(s) for s in _stmts(find_method(cls, "__init__").body)]
    for need in ("self._from_date: date = from_date", "self._to_date: date = to_date", "self._entry_list: List[AbstractEntry] = []"):
        if need not in init:
            raise Unrecognised(f"AbstractEntrySet.__init__: `{need}` not found")
    # sort
    se = _stmts(find_method(cls, "_sort_entries").body)
    if not se or U(se[0]) != "self._entry_list.sort(key=_entry_sort_key)":
        raise Unrecognised("_sort_entries: sort call")
    if [U(s) for s in se[1:]] != ["parent: Optional[AbstractEntry] = None",
                                  "for entry in self._entry_list:\n    self._entry_to_parent[entry] = parent\n    parent = entry"]:
        raise Unrecognised("_sort_entries: parent links")
    if "_entry_sort_key" not in fns:
        raise Unrecognised("_entry_sort_key")
    par, ret = fns["_entry_sort_key"]
    ks = U(_Subst({par: ast.Name(id=ENTRY, ctx=ast.Load())}, {}, {}).visit(_copy.deepcopy(ret)))
    if ks not in KEYS or KEYS[ks][1] == "date":
        raise Unrecognised(f"_entry_sort_key returns `{ks}`")
    sort_key = KEYS[ks][0]
    # duplicate
    dup = find_method(cls, "duplicate")
    if [a.arg for a in dup.args.args] != ["self", "from_date", "to_date"] or [U(d) for d in dup.args.defaults] != ["MIN_DATE", "MAX_DATE"]:
        raise Unrecognised("duplicate signature")
    body = _stmts(dup.body)
    if len(body) < 2:
        raise Unrecognised("duplicate body")
    a = _assign(body[0])
    if not (a and isinstance(a[0], ast.Name) and U(a[1]) == "copy(self)"):
        raise Unrecognised("duplicate: the copy")
    if not any(isinstance(n, ast.ImportFrom) and n.module == "copy" and any(al.name == "copy" and al.asname is None for al in n.names)
               for n in tree.body):
        raise Unrecognised("duplicate: `copy` is not copy.copy")
    res = a[0].id
    if not (isinstance(body[-1], ast.Return) and _name(body[-1].value) == res):
        raise Unrecognised("duplicate: return")
    src = {"from_date": "EP_from_arg", "to_date": "EP_to_arg", "MIN_DATE": "EP_min_date", "MAX_DATE": "EP_max_date"}
    prog = []
    for s in body[1:-1]:
        a = _assign(s)
        if a and U(a[0]) in (f"{res}._from_date", f"{res}._to_date"):
            if _name(a[1]) not in src:
                raise Unrecognised(f"duplicate: `{U(s)}`")
            prog.append(f"ES_set {'EF_from' if U(a[0]).endswith('_from_date') else 'EF_to'} {src[_name(a[1])]}")
        else:
            prog += _es_stmt(cls, s, res, 0)
    # __iter__
    it = _stmts(find_method(cls, "__iter__").body)
    if not it or U(it[-1]) != "return EntrySetIterator(self)":
        raise Unrecognised("__iter__: return")
    iprog = []
    for s in it[:-1]:
        iprog += _es_stmt(cls, s, "self", 0)
    return sort_key, prog, iprog


def frag_entry_set(repo):
    tree = gen.parse(repo, "abstract_entry_set.py")
    fns = _module_fns(tree)
    prelude, tests, fall = _iterator(find_class(tree, "EntrySetIterator"), fns)
    sort_key, dup, it = _set(tree, find_class(tree, "AbstractEntrySet"), fns)
    s = TYPES
    s += "(* _sort_entries: self._entry_list.sort(key=_entry_sort_key): stable, by this quantity of the entry *)\n"
    s += f"Definition gen_es_sort_key : it_key := {sort_key}.\n"
    s += "(* duplicate: result = copy(self) (shallow: the entry list and the derived dictionaries are shared), then *)\n"
    s += f"Definition gen_es_duplicate : list es_stmt := {gen.coq_list(dup)}.\n"
    s += "(* __iter__: before `return EntrySetIterator(self)` *)\n"
    s += f"Definition gen_es_iter : list es_stmt := {gen.coq_list(it)}.\n"
    s += "(* EntrySetIterator.__init__: leading entries skipped while this holds (None: no such loop) *)\n"
    s += f"Definition gen_it_prelude : option it_cond := {'None' if prelude is None else 'Some (' + prelude + ')'}.\n"
    s += "(* EntrySetIterator.__next__: per entry, in source order (condition, action); then what happens when no test fires *)\n"
    s += "Definition gen_it_tests : list (it_cond * it_action) := " + gen.coq_list([f"({c}, {a})" for c, a in tests]) + ".\n"
    s += f"Definition gen_it_fallthrough : it_action := {fall}.\n"
    return s
