"""Translator fragment for the two ORDER KEYS of the lot matcher, read as data on every run.

1. accounting_engine.py: the AVL key of an acquired lot (`_get_avl_node_key`, `_get_avl_node_key_with_max_disambiguator`,
   `KEY_DISAMBIGUATOR_LENGTH`, `MAX_KEY_DISAMBIGUATOR`) and its two uses:
     gen_ak_zone      AZ_utc = `timestamp.astimezone(timezone.utc)` is formatted / AZ_wall_clock = the datetime as written
     gen_ak_format    the strftime format as a list of directives (AP_year4 %Y, AP_month %m, AP_day %d, AP_hour %H, AP_minute %M,
                      AP_second %S, AP_micro %f) and literal characters (AP_lit <code point>)
     gen_ak_sep       the text between the time and the id (code points)
     gen_ak_pad_char / gen_ak_pad_side / gen_ak_width     the format spec of the id: `0>12` = fill '0', digits right-aligned
                      (AS_pad_left: padding goes in front), width 12 (the class constant is evaluated)
     gen_ak_max_disambiguator     the text passed as id by the lookup key (`"9" * KEY_DISAMBIGUATOR_LENGTH` evaluated)
     gen_ak_insert    what `initialize` inserts per lot: (timestamp source, id source)
     gen_ak_lookup    what `get_acquired_lot_for_taxable_event` looks up: AKL_max_le = `find_max_value_less_than` (greatest key
                      <= the argument) of the max-disambiguator key of the taxable event's timestamp
2. abstract_accounting_method.py + plugin/accounting_method/*.py: the heap key of the feature-based methods:
   the FIELD ORDER of the NamedTuple `AcquiredLotSortKey` (tuples compare field by field in that order) and, per plugin, the
   value each field gets in `sort_key` - positional or keyword construction is resolved to the field it fills - emitted as
   the list of compared values in comparison order (`gen_sk_key`); `add_selected_lot_to_heap` / the iterator's `heappop` are
   pinned.  (gen.py's frag_methods reads the positional constructor arguments only; it neither sees the field order nor
   accepts keywords.)

Fail-closed: anything else raises Unrecognised and tie.generate falls back to accepted/avl_key.v.
"""
import ast
import os

from . import gen
from .expr import Unrecognised, find_class, find_method, Translator

TYPES = """Inductive ak_zone := AZ_utc | AZ_wall_clock.
Inductive ak_part := AP_year4 | AP_month | AP_day | AP_hour | AP_minute | AP_second | AP_micro | AP_lit (c : Z).
Inductive ak_side := AS_pad_left | AS_pad_right.
Inductive ak_ts_src := AKS_lot_timestamp | AKS_event_timestamp.
Inductive ak_id_src := AKI_lot_internal_id | AKI_max_disambiguator.
Inductive ak_lookup := AKL_max_le (t : ak_ts_src) (i : ak_id_src).
Inductive sk_field := SK_spot_price | SK_timestamp | SK_internal_id_int.
"""

DIRECTIVES = {"Y": "AP_year4", "m": "AP_month", "d": "AP_day", "H": "AP_hour", "M": "AP_minute", "S": "AP_second", "f": "AP_micro"}
SK_FIELDS = {"spot_price": "SK_spot_price", "timestamp": "SK_timestamp", "internal_id_int": "SK_internal_id_int"}
METH_CTOR = {"fifo": "Fifo", "lifo": "Lifo", "hifo": "Hifo", "lofo": "Lofo"}


def U(node):
    return ast.unparse(node)


def _name(node):
    return node.id if isinstance(node, ast.Name) else None


def _stmts(body):
    return [s for s in body if not Translator.is_noise(s)]


def _single_return(fn):
    body = _stmts(fn.body)
    if len(body) != 1 or not isinstance(body[0], ast.Return) or body[0].value is None:
        raise Unrecognised(f"{fn.name}: not a single return")
    return body[0].value


def _codes(text):
    return gen.coq_list([str(ord(c)) for c in text])


def _class_consts(cls):
    """simple class-level constants: ints, strings, "<str>" * <int const>"""
    env = {}
    for s in cls.body:
        tgt = val = None
        if isinstance(s, ast.Assign) and len(s.targets) == 1 and isinstance(s.targets[0], ast.Name):
            tgt, val = s.targets[0].id, s.value
        elif isinstance(s, ast.AnnAssign) and isinstance(s.target, ast.Name) and s.value is not None:
            tgt, val = s.target.id, s.value
        if tgt is None:
            continue
        try:
            env[tgt] = _const(val, env)
        except Unrecognised:
            pass
    return env


def _const(node, env):
    if isinstance(node, ast.Constant) and type(node.value) in (int, str):
        return node.value
    if isinstance(node, ast.Name) and node.id in env:
        return env[node.id]
    if isinstance(node, ast.Attribute) and _name(node.value) in ("self", "cls", "AccountingEngine") and node.attr in env:
        return env[node.attr]
    if isinstance(node, ast.BinOp) and isinstance(node.op, ast.Mult):
        a, b = _const(node.left, env), _const(node.right, env)
        if (isinstance(a, str) and isinstance(b, int)) or (isinstance(a, int) and isinstance(b, str)):
            return a * b
    raise Unrecognised(f"constant `{U(node)[:60]}`")


def _strftime_format(text):
    parts, i = [], 0
    while i < len(text):
        if text[i] == "%":
            if i + 1 >= len(text) or text[i + 1] not in DIRECTIVES:
                raise Unrecognised(f"strftime directive `{text[i:i + 2]}`")
            parts.append(DIRECTIVES[text[i + 1]])
            i += 2
        else:
            parts.append(f"AP_lit {ord(text[i])}")
            i += 1
    return parts


def _avl_key(cls, consts):
    fn = find_method(cls, "_get_avl_node_key")
    if [a.arg for a in fn.args.args] != ["self", "timestamp", "internal_id"] or fn.args.defaults:
        raise Unrecognised("_get_avl_node_key signature")
    ret = _single_return(fn)
    if not isinstance(ret, ast.JoinedStr):
        raise Unrecognised("_get_avl_node_key: not an f-string")
    vals = ret.values
    if len(vals) != 3 or not (isinstance(vals[0], ast.FormattedValue) and isinstance(vals[1], ast.Constant) and isinstance(vals[2], ast.FormattedValue)):
        raise Unrecognised("_get_avl_node_key: expected f\"{time}<sep>{id:spec}\"")
    # time
    tv = vals[0]
    if tv.conversion != -1 or tv.format_spec is not None:
        raise Unrecognised("_get_avl_node_key: time part")
    c = tv.value
    if not (isinstance(c, ast.Call) and isinstance(c.func, ast.Attribute) and c.func.attr == "strftime" and len(c.args) == 1 and not c.keywords
            and isinstance(c.args[0], ast.Constant) and isinstance(c.args[0].value, str)):
        raise Unrecognised("_get_avl_node_key: strftime call")
    who = U(c.func.value)
    if who == "timestamp.astimezone(timezone.utc)":
        zone = "AZ_utc"
    elif who in ("timestamp", "timestamp.replace(tzinfo=None)"):
        zone = "AZ_wall_clock"
    else:
        raise Unrecognised(f"_get_avl_node_key: formatted datetime `{who}`")
    fmt = _strftime_format(c.args[0].value)
    sep = vals[1].value
    if not isinstance(sep, str):
        raise Unrecognised("separator")
    # id
    iv = vals[2]
    if iv.conversion != -1 or _name(iv.value) != "internal_id" or not isinstance(iv.format_spec, ast.JoinedStr):
        raise Unrecognised("_get_avl_node_key: id part")
    spec = ""
    for p in iv.format_spec.values:
        if isinstance(p, ast.Constant) and isinstance(p.value, str):
            spec += p.value
        elif isinstance(p, ast.FormattedValue) and p.conversion == -1 and p.format_spec is None:
            spec += str(_const(p.value, consts))
        else:
            raise Unrecognised("id format spec")
    if len(spec) < 3 or spec[1] not in "<>" or not spec[2:].isdigit() or spec[2] == "0":
        raise Unrecognised(f"id format spec `{spec}`")
    fill, side, width = spec[0], ("AS_pad_left" if spec[1] == ">" else "AS_pad_right"), int(spec[2:])
    # max disambiguator
    fm = find_method(cls, "_get_avl_node_key_with_max_disambiguator")
    if [a.arg for a in fm.args.args] != ["self", "timestamp"]:
        raise Unrecognised("_get_avl_node_key_with_max_disambiguator signature")
    r = _single_return(fm)
    if not (isinstance(r, ast.Call) and U(r.func) == "self._get_avl_node_key" and len(r.args) == 2 and not r.keywords and _name(r.args[0]) == "timestamp"):
        raise Unrecognised("_get_avl_node_key_with_max_disambiguator body")
    maxd = _const(r.args[1], consts)
    if not isinstance(maxd, str):
        raise Unrecognised("max disambiguator is not a string")
    return zone, fmt, sep, fill, side, width, maxd


def _uses(cls):
    # insertion
    init = find_method(cls, "initialize")
    ins = [n for n in ast.walk(init) if isinstance(n, ast.Call) and U(n.func) == "self.__acquired_lot_avl.insert_node"]
    if len(ins) != 1 or len(ins[0].args) != 2 or ins[0].keywords:
        raise Unrecognised("initialize: insert_node call")
    lot_vars = [U(a[0]) for a in ((s.target, s.value) if isinstance(s, ast.AnnAssign) else (s.targets[0], s.value)
                                  for s in ast.walk(init) if isinstance(s, (ast.AnnAssign, ast.Assign)) and getattr(s, "value", None) is not None)
                if U(a[1]) == "next(acquired_lot_iterator)"]
    if len(lot_vars) != 1:
        raise Unrecognised("initialize: lot variable")
    v = lot_vars[0]
    k = U(ins[0].args[0])
    direct = f"self._get_avl_node_key({v}.timestamp, {v}.internal_id)"
    if k not in (direct, "f'{" + direct + "}'", f"str({direct})"):
        raise Unrecognised(f"initialize: inserted key `{k[:100]}`")
    if U(ins[0].args[1]) != f"_AcquiredLotAndIndex({v}, index)":
        raise Unrecognised("initialize: inserted value")
    if f"self.__acquired_lot_list.append({v})" not in [U(s) for s in ast.walk(init) if isinstance(s, ast.Expr)]:
        raise Unrecognised("initialize: list append")
    # lookup
    get = find_method(cls, "get_acquired_lot_for_taxable_event")
    look = [n for n in ast.walk(get) if isinstance(n, ast.Call) and isinstance(n.func, ast.Attribute) and U(n.func.value) == "self.__acquired_lot_avl"]
    if len(look) != 1 or look[0].func.attr != "find_max_value_less_than" or len(look[0].args) != 1 or look[0].keywords:
        raise Unrecognised("get_acquired_lot_for_taxable_event: lookup")
    arg = U(look[0].args[0])
    if arg == "self._get_avl_node_key_with_max_disambiguator(taxable_event.timestamp)":
        lk = "AKL_max_le AKS_event_timestamp AKI_max_disambiguator"
    else:
        raise Unrecognised(f"lookup key `{arg[:100]}`")
    return "(AKS_lot_timestamp, AKI_lot_internal_id)", lk


# ---------------------------------------------------------------- heap key
def _sk_component(node, lot):
    neg = False
    if isinstance(node, ast.UnaryOp) and isinstance(node.op, ast.USub):
        neg, node = True, node.operand
    s = U(node)
    if s == "ZERO" and not neg:
        return "0"
    table = {f"{lot}.spot_price": "(i_spot l)", f"{lot}.timestamp.timestamp()": "(utc_us (i_ts l))", f"{lot}.row": "(i_row l)"}
    if s not in table:
        raise Unrecognised(f"sort key component `{s[:60]}`")
    return f"(- {table[s]})" if neg else table[s]


def _sort_keys(repo):
    tree = gen.parse(repo, "abstract_accounting_method.py")
    nt = find_class(tree, "AcquiredLotSortKey")
    if [U(b) for b in nt.bases] != ["NamedTuple"]:
        raise Unrecognised("AcquiredLotSortKey is not a NamedTuple")
    fields = []
    for s in nt.body:
        if Translator.is_noise(s):
            continue
        if not (isinstance(s, ast.AnnAssign) and isinstance(s.target, ast.Name) and s.value is None and s.target.id in SK_FIELDS):
            raise Unrecognised(f"AcquiredLotSortKey: `{U(s)[:60]}`")
        fields.append(s.target.id)
    if sorted(fields) != sorted(SK_FIELDS):
        raise Unrecognised("AcquiredLotSortKey fields")
    # heap discipline (pinned)
    fb = find_class(tree, "AbstractFeatureBasedAccountingMethod")
    if [U(s) for s in _stmts(find_method(fb, "add_selected_lot_to_heap").body)] not in (
            ["heap_item = (self.sort_key(lot), lot)", "heappush(heap, heap_item)"], ["heappush(heap, (self.sort_key(lot), lot))"]):
        raise Unrecognised("add_selected_lot_to_heap")
    it = find_class(tree, "FeatureBasedAccountingMethodIterator")
    if "heappop(self.__acquired_lot_heap)" not in U(find_method(it, "__next__")):
        raise Unrecognised("FeatureBasedAccountingMethodIterator.__next__: heappop")
    # plugins
    rows = []
    pdir = os.path.join(repo, "src", "rp2", "plugin", "accounting_method")
    found = sorted(f[:-3] for f in os.listdir(pdir) if f.endswith(".py") and f != "__init__.py")
    if found != sorted(METH_CTOR):
        raise Unrecognised(f"accounting method plugins {found}")
    for m in gen.METHODS:
        cls = find_class(gen.parse(repo, os.path.join("plugin", "accounting_method", m + ".py")), "AccountingMethod")
        fns = [n for n in cls.body if isinstance(n, ast.FunctionDef) and n.name == "sort_key"]
        if not fns:
            rows.append(f"  | {METH_CTOR[m]} => []")
            continue
        fn = fns[0]
        args = [a.arg for a in fn.args.args]
        if len(args) != 2 or args[0] != "self":
            raise Unrecognised(f"{m}.sort_key signature")
        call = _single_return(fn)
        if not (isinstance(call, ast.Call) and _name(call.func) == "AcquiredLotSortKey"):
            raise Unrecognised(f"{m}.sort_key: not AcquiredLotSortKey(...)")
        if len(call.args) + len(call.keywords) != 3 or any(k.arg is None for k in call.keywords):
            raise Unrecognised(f"{m}.sort_key: arguments")
        by_field = dict(zip(fields, call.args))
        for k in call.keywords:
            if k.arg in by_field or k.arg not in SK_FIELDS:
                raise Unrecognised(f"{m}.sort_key: keyword {k.arg}")
            by_field[k.arg] = k.value
        rows.append(f"  | {METH_CTOR[m]} => " + gen.coq_list([_sk_component(by_field[f], args[1]) for f in fields]))
    return fields, rows


def frag_avl_key(repo):
    tree = gen.parse(repo, "accounting_engine.py")
    cls = find_class(tree, "AccountingEngine")
    consts = _class_consts(cls)
    zone, fmt, sep, fill, side, width, maxd = _avl_key(cls, consts)
    ins, look = _uses(cls)
    fields, rows = _sort_keys(repo)
    s = TYPES
    s += "(* _get_avl_node_key: f\"{<zone>(timestamp).strftime(<format>)}<sep>{internal_id:<pad char><side><width>}\" *)\n"
    s += f"Definition gen_ak_zone : ak_zone := {zone}.\n"
    s += f"Definition gen_ak_format : list ak_part := {gen.coq_list(fmt)}.\n"
    s += f"Definition gen_ak_sep : list Z := {_codes(sep)}.\n"
    s += f"Definition gen_ak_pad_char : Z := {ord(fill)}.\n"
    s += f"Definition gen_ak_pad_side : ak_side := {side}.\n"
    s += f"Definition gen_ak_width : Z := {width}.\n"
    s += "(* _get_avl_node_key_with_max_disambiguator: the id it passes *)\n"
    s += f"Definition gen_ak_max_disambiguator : list Z := {_codes(maxd)}.\n"
    s += "(* initialize: insert_node(key(lot.timestamp, lot.internal_id), (lot, index)); get_acquired_lot_for_taxable_event: the lookup *)\n"
    s += f"Definition gen_ak_insert : ak_ts_src * ak_id_src := {ins}.\n"
    s += f"Definition gen_ak_lookup : ak_lookup := {look}.\n"
    s += "(* AcquiredLotSortKey: field (= comparison) order; per plugin the compared values in that order *)\n"
    s += f"Definition gen_sk_fields : list sk_field := {gen.coq_list([SK_FIELDS[f] for f in fields])}.\n"
    s += "Definition gen_sk_key (m : meth) (l : intx) : list Z :=\n  match m with\n" + "\n".join(rows) + "\n  end.\n"
    return s
