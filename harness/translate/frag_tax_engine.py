"""Translator fragment `tax_engine`: the wiring of tax_engine.py read as DATA.

  compute_tax                              the taxable-event set handed to the matcher is the one just created from
                                           input_data (checked, not emitted);
  _create_unfiltered_taxable_event_set     which sets of input_data are scanned, in which order (gen_te_scan), and the
                                           predicate that selects a transaction (gen_te_filter);
  _create_unfiltered_gain_and_loss_set     what the taxable-event iterator and the acquired-lot iterator run over
                                           (gen_te_event_iter / gen_te_lot_iter : te_src; `X.duplicate(...)` is the token
                                           TeFiltered X), and for each of the four branches of the loop (earning / == / < /
                                           else) the GainLoss that is built (amount, lot or None) and the call that
                                           advances (which of the three engine calls, with which two amounts).

Model/TaxEngineGen.v interprets the data, Proofs/TaxEngineGenProofs.v proves the interpretation equal to
Pipeline.taxable_unsorted / Pipeline.fractions_of / Matcher.loop for the table of the current source.
Everything else in the three functions must have exactly the shape of the pinned source (type checks of the loop
prologue, exception handlers, constructor calls of the sets): otherwise Unrecognised (-> accepted fallback)."""
import ast

from . import gen
from .expr import Unrecognised, dotted, Translator

TYPES = (
    "(* tax_engine.py wiring as data; interpreted by Model/TaxEngineGen.v *)\n"
    "Inductive te_set := TeIn | TeOut | TeIntra.\n"
    "Inductive te_pred := TePredTaxable | TePredEarning | TePredAll.\n"
    "Inductive te_src := TeTaxableSet | TeInput (k : te_set) | TeFiltered (s : te_src).\n"
    "Inductive te_amt := TeEvAmt | TeLotAmt | TeZero.\n"
    "Inductive te_lot := TeLotNone | TeLotCur.\n"
    "Inductive te_adv := AdvNextEvent | AdvNextEventAndLot | AdvLotForEvent.\n"
    "Record te_branch := { tb_amt : te_amt; tb_lot : te_lot; tb_adv : te_adv; tb_adv_ev : te_amt; tb_adv_lot : te_amt }.\n"
)

INPUT_SETS = {"input_data.unfiltered_in_transaction_set": "TeIn", "input_data.unfiltered_out_transaction_set": "TeOut",
              "input_data.unfiltered_intra_transaction_set": "TeIntra"}
AMTS = {"taxable_event_amount": "TeEvAmt", "acquired_lot_amount": "TeLotAmt", "ZERO": "TeZero"}
STATE = "(taxable_event, acquired_lot, taxable_event_amount, acquired_lot_amount)"
PROLOGUE = [
    "AbstractTransaction.type_check('taxable_event', taxable_event)",
    "if acquired_lot is None:\n    raise RP2RuntimeError(\"Parameter 'acquired_lot' is None\")",
    "InTransaction.type_check('acquired_lot', acquired_lot)",
    "Configuration.type_check_positive_decimal('taxable_event_amount', taxable_event_amount)",
    "Configuration.type_check_positive_decimal('acquired_lot_amount', acquired_lot_amount)",
]


def _func(tree, name, params):
    fs = [n for n in tree.body if isinstance(n, ast.FunctionDef) and n.name == name]
    if len(fs) != 1:
        raise Unrecognised(f"{name}: expected exactly one definition")
    a = fs[0].args
    if a.vararg or a.kwarg or a.kwonlyargs or a.posonlyargs or a.defaults or [p.arg for p in a.args] != params:
        raise Unrecognised(f"{name}: signature")
    return fs[0]


def _stmts(body):
    """drop docstrings / logging / pass, bare declarations `x: T`, and the bookkeeping of total_amount (only logged)"""
    out = []
    for s in body:
        if Translator.is_noise(s):
            continue
        if isinstance(s, ast.AnnAssign) and s.value is None and isinstance(s.target, ast.Name):
            continue
        if isinstance(s, (ast.AnnAssign, ast.AugAssign)) and isinstance(s.target, ast.Name) and s.target.id == "total_amount":
            v = ast.unparse(s.value)
            if v in ("ZERO", "taxable_event_amount", "acquired_lot_amount"):
                continue
        out.append(s)
    return out


def _assign(s, target):
    """`target[: T] = value` -> value"""
    if isinstance(s, ast.AnnAssign) and s.value is not None and ast.unparse(s.target) == target:
        return s.value
    if isinstance(s, ast.Assign) and len(s.targets) == 1 and ast.unparse(s.targets[0]) == target:
        return s.value
    raise Unrecognised(f"expected an assignment to {target}, found `{ast.unparse(s)[:60]}`")


def _expect(s, text, what):
    if ast.unparse(s) != text:
        raise Unrecognised(f"{what}: `{ast.unparse(s)[:70]}`")


def _src(node):
    p = dotted(node)
    if p == "unfiltered_taxable_event_set":
        return "TeTaxableSet"
    if p in INPUT_SETS:
        return f"(TeInput {INPUT_SETS[p]})"
    if isinstance(node, ast.Call) and isinstance(node.func, ast.Attribute) and node.func.attr == "duplicate":
        # TransactionSet.duplicate(from_date=.., to_date=..): a date-filtered copy, whatever the bounds are
        return f"(TeFiltered {_src(node.func.value)})"
    raise Unrecognised("iterator source: " + ast.unparse(node)[:70])


def _iter_src(value, elem):
    """iter(cast(Iterable[elem], E)) -> source of E"""
    if not (isinstance(value, ast.Call) and dotted(value.func) == "iter" and len(value.args) == 1 and not value.keywords):
        raise Unrecognised("iterator: not iter(...)")
    c = value.args[0]
    if not (isinstance(c, ast.Call) and dotted(c.func) == "cast" and len(c.args) == 2 and not c.keywords
            and ast.unparse(c.args[0]) == f"Iterable[{elem}]"):
        raise Unrecognised("iterator: not iter(cast(Iterable[...], ...))")
    return _src(c.args[1])


def _amt(node):
    p = dotted(node)
    if p in AMTS:
        return AMTS[p]
    raise Unrecognised("amount: " + ast.unparse(node)[:50])


def _branch(body, want_continue):
    st = _stmts(body)
    if want_continue:
        if not st or not isinstance(st[-1], ast.Continue):
            raise Unrecognised("earning branch does not end with continue")
        st = st[:-1]
    if len(st) != 3:
        raise Unrecognised("loop branch: expected GainLoss(...), add_entry, advance")
    glv = _assign(st[0], "gain_loss")
    if not (isinstance(glv, ast.Call) and dotted(glv.func) == "GainLoss" and len(glv.args) == 4 and not glv.keywords
            and dotted(glv.args[0]) == "configuration" and dotted(glv.args[2]) == "taxable_event"):
        raise Unrecognised("loop branch: GainLoss call")
    amt = _amt(glv.args[1])
    lot = glv.args[3]
    if isinstance(lot, ast.Constant) and lot.value is None:
        lot = "TeLotNone"
    elif dotted(lot) == "acquired_lot":
        lot = "TeLotCur"
    else:
        raise Unrecognised("loop branch: lot of the GainLoss")
    _expect(st[1], "gain_loss_set.add_entry(gain_loss)", "loop branch")
    adv = _assign(st[2], STATE)
    if not (isinstance(adv, ast.Call) and not adv.keywords):
        raise Unrecognised("loop branch: advance")
    f = dotted(adv.func)
    args = adv.args
    if f == "_get_next_taxable_event_and_acquired_lot" and len(args) == 5 and dotted(args[0]) == "new_accounting_engine":
        kind, args = "AdvNextEventAndLot", args[1:]
    elif f == "new_accounting_engine.get_next_taxable_event_and_amount" and len(args) == 4:
        kind = "AdvNextEvent"
    elif f == "new_accounting_engine.get_acquired_lot_for_taxable_event" and len(args) == 4:
        kind = "AdvLotForEvent"
    else:
        raise Unrecognised("loop branch: advance call " + str(f))
    if dotted(args[0]) != "taxable_event" or dotted(args[1]) != "acquired_lot":
        raise Unrecognised("loop branch: advance arguments")
    return f"{{| tb_amt := {amt}; tb_lot := {lot}; tb_adv := {kind}; tb_adv_ev := {_amt(args[2])}; tb_adv_lot := {_amt(args[3])} |}}"


def frag_tax_engine(repo):
    tree = gen.parse(repo, "tax_engine.py")

    # ---- compute_tax: the event set handed to the matcher is the one created from input_data
    ct = _func(tree, "compute_tax", ["configuration", "accounting_engine", "input_data"])
    seen = {}
    for s in _stmts(ct.body):
        if isinstance(s, (ast.Assign, ast.AnnAssign)):
            tg = s.target if isinstance(s, ast.AnnAssign) else s.targets[0]
            if isinstance(tg, ast.Name):
                if tg.id in seen:
                    raise Unrecognised("compute_tax: variable assigned twice")
                seen[tg.id] = ast.unparse(s.value)
    if seen.get("unfiltered_taxable_event_set") != "_create_unfiltered_taxable_event_set(configuration, input_data)":
        raise Unrecognised("compute_tax: taxable event set")
    if seen.get("unfiltered_gain_loss_set") != \
            "_create_unfiltered_gain_and_loss_set(configuration, accounting_engine, input_data, unfiltered_taxable_event_set)":
        raise Unrecognised("compute_tax: gain/loss set")

    # ---- _create_unfiltered_taxable_event_set
    fn = _func(tree, "_create_unfiltered_taxable_event_set", ["configuration", "input_data"])
    st = _stmts(fn.body)
    if len(st) != 3:
        raise Unrecognised("taxable event set: statements")
    _expect(_assign(st[0], "taxable_event_set"), "TransactionSet(configuration, 'MIXED', input_data.asset, MIN_DATE, MAX_DATE)",
            "taxable event set: constructor")
    loop = st[1]
    if not (isinstance(loop, ast.For) and not loop.orelse and ast.unparse(loop.target) == "transaction_set"
            and isinstance(loop.iter, (ast.List, ast.Tuple))):
        raise Unrecognised("taxable event set: outer loop")
    scan = []
    for e in loop.iter.elts:
        p = dotted(e)
        if p not in INPUT_SETS:
            raise Unrecognised("taxable event set: scanned set " + ast.unparse(e)[:60])
        scan.append(INPUT_SETS[p])
    inner = _stmts(loop.body)
    if not (len(inner) == 1 and isinstance(inner[0], ast.For) and not inner[0].orelse and ast.unparse(inner[0].target) == "entry"
            and ast.unparse(inner[0].iter) == "transaction_set"):
        raise Unrecognised("taxable event set: inner loop")
    ib = _stmts(inner[0].body)
    if len(ib) != 2:
        raise Unrecognised("taxable event set: inner loop body")
    _expect(_assign(ib[0], "transaction"), "cast(AbstractTransaction, entry)", "taxable event set: cast")
    add = "taxable_event_set.add_entry(transaction)"
    if isinstance(ib[1], ast.If):
        if ib[1].orelse or [ast.unparse(x) for x in _stmts(ib[1].body)] != [add]:
            raise Unrecognised("taxable event set: selection body")
        t = ast.unparse(ib[1].test)
        if t == "transaction.is_taxable()":
            pred = "TePredTaxable"
        elif t == "transaction.is_earning()":
            pred = "TePredEarning"
        else:
            raise Unrecognised("taxable event set: selection test " + t[:60])
    elif ast.unparse(ib[1]) == add:
        pred = "TePredAll"
    else:
        raise Unrecognised("taxable event set: selection")
    _expect(st[2], "return taxable_event_set", "taxable event set: return")

    # ---- _create_unfiltered_gain_and_loss_set
    fn = _func(tree, "_create_unfiltered_gain_and_loss_set",
               ["configuration", "accounting_engine", "input_data", "unfiltered_taxable_event_set"])
    st = _stmts(fn.body)
    if len(st) != 7:
        raise Unrecognised("gain/loss set: statements")
    _expect(_assign(st[0], "gain_loss_set"), "GainLossSet(configuration, input_data.asset, MIN_DATE, MAX_DATE)", "gain/loss set: constructor")
    _expect(_assign(st[1], "new_accounting_engine"), "accounting_engine.__class__(accounting_engine.years_2_methods)", "gain/loss set: engine")
    ev_iter = _iter_src(_assign(st[2], "taxable_event_iterator"), "AbstractTransaction")
    lot_iter = _iter_src(_assign(st[3], "acquired_lot_iterator"), "InTransaction")
    _expect(st[4], "new_accounting_engine.initialize(taxable_event_iterator, acquired_lot_iterator)", "gain/loss set: initialize")
    tr = st[5]
    if not (isinstance(tr, ast.Try) and not tr.orelse and not tr.finalbody and len(tr.handlers) == 2):
        raise Unrecognised("gain/loss set: try statement")
    h0, h1 = tr.handlers
    if not (dotted(h0.type) == "AcquiredLotsExhaustedException" and len(h0.body) == 1 and isinstance(h0.body[0], ast.Raise)
            and ast.unparse(h0.body[0]).startswith("raise RP2ValueError(")):
        raise Unrecognised("gain/loss set: handler of exhausted lots")
    if not (dotted(h1.type) == "TaxableEventsExhaustedException" and all(isinstance(x, ast.Pass) for x in h1.body)):
        raise Unrecognised("gain/loss set: handler of exhausted events")
    _expect(st[6], "return gain_loss_set", "gain/loss set: return")
    tb = _stmts(tr.body)
    if len(tb) != 2:
        raise Unrecognised("gain/loss set: try body")
    _expect(_assign(tb[0], STATE), "_get_next_taxable_event_and_acquired_lot(new_accounting_engine, None, None, ZERO, ZERO)",
            "gain/loss set: first event")
    wl = tb[1]
    if not (isinstance(wl, ast.While) and not wl.orelse and ast.unparse(wl.test) == "taxable_event"):
        raise Unrecognised("gain/loss set: while loop")
    wb = _stmts(wl.body)
    if len(wb) != len(PROLOGUE) + 2 or [ast.unparse(x) for x in wb[:len(PROLOGUE)]] != PROLOGUE:
        raise Unrecognised("gain/loss set: loop prologue (type checks)")
    earn, chain = wb[-2], wb[-1]
    if not (isinstance(earn, ast.If) and not earn.orelse and ast.unparse(earn.test) == "taxable_event.is_earning()"):
        raise Unrecognised("gain/loss set: earning test")
    b_earn = _branch(earn.body, True)
    if not (isinstance(chain, ast.If) and ast.unparse(chain.test) == "taxable_event_amount == acquired_lot_amount"
            and len(chain.orelse) == 1 and isinstance(chain.orelse[0], ast.If)
            and ast.unparse(chain.orelse[0].test) == "taxable_event_amount < acquired_lot_amount" and chain.orelse[0].orelse):
        raise Unrecognised("gain/loss set: comparison chain")
    b_eq = _branch(chain.body, False)
    b_lt = _branch(chain.orelse[0].body, False)
    b_gt = _branch(chain.orelse[0].orelse, False)

    s = TYPES
    s += f"Definition gen_te_scan : list te_set := {gen.coq_list(scan)}.\n"
    s += f"Definition gen_te_filter : te_pred := {pred}.\n"
    s += f"Definition gen_te_event_iter : te_src := {ev_iter}.\n"
    s += f"Definition gen_te_lot_iter : te_src := {lot_iter}.\n"
    s += f"Definition gen_te_earn : te_branch := {b_earn}.\n"
    s += f"Definition gen_te_eq : te_branch := {b_eq}.\n"
    s += f"Definition gen_te_lt : te_branch := {b_lt}.\n"
    s += f"Definition gen_te_gt : te_branch := {b_gt}.\n"
    return s


gen.FRAGMENTS.append(("tax_engine", frag_tax_engine, None))
