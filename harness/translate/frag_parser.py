"""Translator fragment `parser`: the constants and tables the L1 model (Model/Parser.v,
Model/ConfigModel.v) takes from the source:

  * the precision of the float -> string conversion in ods_parser._process_constructor_argument_pack
    (f"{value:.11f}"),
  * the TABLE END keyword and the table-begin keywords (EntrySetType values),
  * per table: the constructor parameters in declaration order (= the field ids of the model),
    which of them have no default (mandatory), which are annotated RP2Decimal / Optional[RP2Decimal]
    (converted through the float format), and the field set of configuration._HEADER_COLUMNS,
  * the mandatory fields of the [general] section and the known section names.

Fail-closed: any shape that is not recognised raises Unrecognised (-> accepted fallback)."""
import ast
import os

from .expr import Unrecognised, find_class, find_method, dotted

SKIP_PARAMS = {"self", "configuration", "row", "from_lot"}


def _parse(repo, rel):
    with open(os.path.join(repo, "src", "rp2", rel), encoding="utf-8") as f:
        return ast.parse(f.read())


def _codes(s):
    return "[" + "; ".join(str(ord(ch)) for ch in s) + "]"


def _zlist(l):
    return "[" + "; ".join(str(x) for x in l) + "]"


def _fmt_decimals(tree):
    """the single JoinedStr `f"{value:.<n>f}"` passed to RP2Decimal inside _process_constructor_argument_pack"""
    fn = None
    for n in tree.body:
        if isinstance(n, ast.FunctionDef) and n.name == "_process_constructor_argument_pack":
            fn = n
    if fn is None:
        raise Unrecognised("_process_constructor_argument_pack not found")
    found = []
    for n in ast.walk(fn):
        if isinstance(n, ast.Call) and dotted(n.func) == "RP2Decimal" and len(n.args) == 1 and isinstance(n.args[0], ast.JoinedStr):
            js = n.args[0]
            if len(js.values) != 1 or not isinstance(js.values[0], ast.FormattedValue):
                raise Unrecognised("numeric conversion: f-string shape")
            fv = js.values[0]
            if dotted(fv.value) != "value" or fv.conversion != -1 or fv.format_spec is None:
                raise Unrecognised("numeric conversion: formatted value")
            spec = fv.format_spec
            if len(spec.values) != 1 or not isinstance(spec.values[0], ast.Constant):
                raise Unrecognised("numeric conversion: format spec")
            s = spec.values[0].value
            if not (isinstance(s, str) and len(s) >= 3 and s[0] == "." and s[-1] == "f" and s[1:-1].isdigit()):
                raise Unrecognised(f"numeric conversion: format spec {s!r}")
            found.append(int(s[1:-1]))
    if len(found) != 1:
        raise Unrecognised("numeric conversion: expected exactly one RP2Decimal(f\"{value:.Nf}\")")
    return found[0]


def _keyword_values(tree):
    cls = find_class(tree, "Keyword")
    out = {}
    for n in cls.body:
        if isinstance(n, ast.Assign) and isinstance(n.targets[0], ast.Name) and isinstance(n.value, ast.Constant):
            out[n.targets[0].id] = n.value.value
    return out


def _header_columns(tree, kw):
    val = None
    for n in tree.body:
        if isinstance(n, ast.AnnAssign) and isinstance(n.target, ast.Name) and n.target.id == "_HEADER_COLUMNS":
            val = n.value
        if isinstance(n, ast.Assign) and isinstance(n.targets[0], ast.Name) and n.targets[0].id == "_HEADER_COLUMNS":
            val = n.value
    if not isinstance(val, ast.Dict):
        raise Unrecognised("_HEADER_COLUMNS is not a dict display")

    def kwval(e):
        p = dotted(e)
        if p is None or not p.startswith("Keyword.") or not p.endswith(".value"):
            raise Unrecognised("_HEADER_COLUMNS element")
        name = p.split(".")[1]
        if name not in kw:
            raise Unrecognised("unknown Keyword member")
        return kw[name]
    out = {}
    for k, v in zip(val.keys, val.values):
        if not isinstance(v, (ast.Set, ast.List, ast.Tuple)):
            raise Unrecognised("_HEADER_COLUMNS value")
        out[kwval(k)] = [kwval(e) for e in v.elts]
    return out


def _ctor_params(repo, rel, cname):
    """-> [(name, has_default, is_decimal)] in declaration order, without self/configuration/row/from_lot"""
    cls = find_class(_parse(repo, rel), cname)
    init = find_method(cls, "__init__")
    a = init.args
    if a.vararg or a.kwarg or a.kwonlyargs or a.posonlyargs:
        raise Unrecognised(f"{cname}.__init__ signature shape")
    names = a.args
    ndef = len(a.defaults)
    out = []
    for i, p in enumerate(names):
        has_default = i >= len(names) - ndef
        ann = ast.unparse(p.annotation) if p.annotation is not None else ""
        is_dec = ann in ("RP2Decimal", "Optional[RP2Decimal]")
        if p.arg in SKIP_PARAMS:
            continue
        out.append((p.arg, has_default, is_dec))
    return out


def _remembers_tables(tree):
    """which test guards the "Found more than one <table>" error of parse_ods:
    False = the transaction set of that type is non-empty (a repeated table after an EMPTY table of the type goes unnoticed),
    True  = the table type is in a set of the types seen so far, filled at every table begin and never emptied."""
    fn = None
    for n in tree.body:
        if isinstance(n, ast.FunctionDef) and n.name == "parse_ods":
            fn = n
    if fn is None:
        raise Unrecognised("parse_ods not found")
    loop = [n for n in fn.body if isinstance(n, ast.For) and ast.unparse(n.iter) == "enumerate(input_sheet.rows())"]
    if len(loop) != 1:
        raise Unrecognised("parse_ods: row loop")
    begin = None
    for st in loop[0].body:
        if isinstance(st, ast.If) and ast.unparse(st.test) == "_is_table_begin(cell0_value)":
            begin = st
    if begin is None:
        raise Unrecognised("parse_ods: table-begin branch")
    body = [ast.unparse(x) for x in begin.body]
    if body[:2] != ["current_table_row_count = 0", "current_table_type = _get_entry_set_type(cell0_value)"] or len(body) not in (3, 4):
        raise Unrecognised("parse_ods: table-begin statements")

    def is_raise(stmts):
        return (len(stmts) == 1 and isinstance(stmts[0], ast.Raise) and "Found more than one" in ast.unparse(stmts[0])
                and ast.unparse(stmts[0]).startswith("raise RP2ValueError("))
    tail = begin.body[2:]
    guard = tail[0]
    if not isinstance(guard, ast.If) or guard.orelse:
        raise Unrecognised("parse_ods: repeated-table guard")
    test = ast.unparse(guard.test)
    if len(tail) == 1 and test == "current_table_type and (not unfiltered_transaction_sets[current_table_type].is_empty())" and is_raise(guard.body):
        return False
    # patched shapes: [if current_table_type:] if current_table_type in <seen>: raise ... ; <seen>.add(current_table_type)
    if len(tail) == 1 and test == "current_table_type":
        rest = guard.body
    elif len(tail) == 2:
        rest = tail
    else:
        raise Unrecognised("parse_ods: repeated-table guard test")
    if len(rest) != 2 or not isinstance(rest[0], ast.If) or rest[0].orelse or not is_raise(rest[0].body):
        raise Unrecognised("parse_ods: repeated-table guard body")
    t = rest[0].test
    if not (isinstance(t, ast.Compare) and len(t.ops) == 1 and isinstance(t.ops[0], ast.In) and ast.unparse(t.left) == "current_table_type"
            and isinstance(t.comparators[0], ast.Name)):
        raise Unrecognised("parse_ods: membership test")
    seen = t.comparators[0].id
    if ast.unparse(rest[1]) != f"{seen}.add(current_table_type)":
        raise Unrecognised("parse_ods: the seen set is not filled at the table begin")
    # initialised empty before the loop, never touched anywhere else
    inits, others = 0, 0
    for n in ast.walk(fn):
        if isinstance(n, (ast.Assign, ast.AnnAssign, ast.AugAssign)):
            tg = n.targets[0] if isinstance(n, ast.Assign) else n.target
            if isinstance(tg, ast.Name) and tg.id == seen:
                if isinstance(n, ast.AnnAssign) and n in fn.body and n.value is not None and ast.unparse(n.value) == "set()":
                    inits += 1
                elif isinstance(n, ast.Assign) and n in fn.body and ast.unparse(n.value) == "set()":
                    inits += 1
                else:
                    others += 1
        if isinstance(n, ast.Attribute) and isinstance(n.value, ast.Name) and n.value.id == seen and n.attr != "add":
            others += 1
        if isinstance(n, ast.Call) and isinstance(n.func, ast.Attribute) and isinstance(n.func.value, ast.Name) and n.func.value.id == seen \
                and n.func.attr == "add" and ast.unparse(n) != f"{seen}.add(current_table_type)":
            others += 1
    n_add = sum(1 for n in ast.walk(fn) if isinstance(n, ast.Call) and ast.unparse(n) == f"{seen}.add(current_table_type)")
    if inits != 1 or others != 0 or n_add != 1:
        raise Unrecognised("parse_ods: the seen set is modified elsewhere")
    return True


def frag_parser(repo):
    ods = _parse(repo, "ods_parser.py")
    decimals = _fmt_decimals(ods)
    tend = None
    for n in ods.body:
        if isinstance(n, ast.AnnAssign) and isinstance(n.target, ast.Name) and n.target.id == "_TABLE_END":
            tend = n.value
        if isinstance(n, ast.Assign) and isinstance(n.targets[0], ast.Name) and n.targets[0].id == "_TABLE_END":
            tend = n.value
    if not (isinstance(tend, ast.Constant) and isinstance(tend.value, str)):
        raise Unrecognised("_TABLE_END")
    # _is_table_end compares the cell with _TABLE_END by ==
    src = ast.unparse(ods)
    if "def _is_table_end(cell_value: str) -> bool:\n    return cell_value == _TABLE_END" not in src:
        raise Unrecognised("_is_table_end body")
    if "def _is_empty(cell_value: str) -> bool:\n    return cell_value is None or cell_value == ''" not in src:
        raise Unrecognised("_is_empty body")
    et = find_class(_parse(repo, "entry_types.py"), "EntrySetType")
    ev = {}
    for n in et.body:
        if isinstance(n, ast.Assign) and isinstance(n.targets[0], ast.Name) and isinstance(n.value, ast.Constant):
            ev[n.targets[0].id] = n.value.value
    for k in ("IN", "OUT", "INTRA"):
        if k not in ev or ev[k] != k.lower():
            raise Unrecognised("EntrySetType members")
    cfgt = _parse(repo, "configuration.py")
    kw = _keyword_values(cfgt)
    hc = _header_columns(cfgt, kw)
    tables = [("in", "in_header", "in_transaction.py", "InTransaction"),
              ("out", "out_header", "out_transaction.py", "OutTransaction"),
              ("intra", "intra_header", "intra_transaction.py", "IntraTransaction")]
    remembers = _remembers_tables(ods)
    s = f"Definition gen_fmt_decimals : Z := {decimals}.\n"
    s += f"Definition gen_parser_remembers_tables : bool := {'true' if remembers else 'false'}.\n"
    s += f"Definition gen_table_end : str := {_codes(tend.value)}.\n"
    for k in ("IN", "OUT", "INTRA"):
        s += f"Definition gen_kw_{k.lower()} : str := {_codes(ev[k])}.\n"
    for t, sec, rel, cname in tables:
        params = _ctor_params(repo, rel, cname)
        names = [p[0] for p in params]
        if sec not in hc:
            raise Unrecognised(f"_HEADER_COLUMNS lacks {sec}")
        if sorted(set(hc[sec])) != sorted(names):
            # a header field that is no constructor parameter (or vice versa) changes what a config may map
            raise Unrecognised(f"_HEADER_COLUMNS[{sec}] differs from the parameters of {cname}.__init__")
        s += f"Definition gen_{t}_fields : list str := [" + "; ".join(_codes(n) for n in names) + "].\n"
        s += f"Definition gen_{t}_mandatory : list Z := {_zlist([i for i, p in enumerate(params) if not p[1]])}.\n"
        s += f"Definition gen_{t}_numeric : list Z := {_zlist([i for i, p in enumerate(params) if p[2]])}.\n"
        s += f"Definition gen_{t}_section : str := {_codes(sec)}.\n"
    for k in ("GENERAL", "ACCOUNTING_METHODS", "ASSETS", "EXCHANGES", "HOLDERS"):
        if k not in kw:
            raise Unrecognised(f"Keyword.{k}")
        s += f"Definition gen_kw_{k.lower()} : str := {_codes(kw[k])}.\n"
    return s
