"""Translator fragment `jp_report`: what Model/JpReport.v takes from
src/rp2/plugin/report/jp/tax_report_jp.py (+ the two shipped templates and the locale catalogues).

Emitted (Generated.v):
  * the two structural facts the C20 theorems depend on, as booleans read from the source:
      gen_jp_years_sorted        -- does the per-asset loop iterate the years in sorted order?
      gen_jp_prev_existing_year  -- does the opening-balance reference name the sheet of the year
                                    handled in the previous loop iteration (the previous EXISTING
                                    year) rather than the hard-wired `year - 1`?
      gen_jp_intra_yen_guard_on_crypto -- is the yen value of a transfer's lost amount kept whenever the
                                    lost amount itself is > 0 (rather than only when the yen value is
                                    > 0 at 13 decimals, which leaves a sold amount without yen value)?
  * row arithmetic: first transaction row (row_index = 21), TRANSACTION_ROW_START, the value returned
    as previous_year_row_offset (row_index + 9), summary start row (setdefault(year, 7)), the column
    of each transaction-row field, the asset label cell;
  * the "cell programs": every `_fill_cell(sheet, row_index + K, C, f"...")` after the transaction loop,
    the summary line and the summary totals, as tables (row delta, column, pieces of the f-string);
  * _INCOME_TRANSACTION_TYPES;
  * the template inventory (capacity and static cells of the __Asset / __Summary sheets, which must be
    the same in every shipped language) and the translations of the three texts the writer formats
    ("{}_{}", "{}_Summary", "Transfer") for the shipped languages en / kl.
Fail-closed: any shape not listed here raises Unrecognised -> accepted/jp_report.v is used.
"""
import ast
import gettext
import os

from . import gen
from .expr import Unrecognised, find_class, find_method, dotted, Translator

LANGS = ["en", "kl"]            # languages with a shipped tax_report_jp template (code 0, 1)
REL = "plugin/report/jp/tax_report_jp.py"


def _stmts(body):
    return [s for s in body if not Translator.is_noise(s)]


def _u(node):
    return ast.unparse(node)


def _lit(s):
    return gen.coq_list([str(ord(ch)) for ch in s])


def _class_const(cls, name):
    for n in cls.body:
        if isinstance(n, ast.AnnAssign) and isinstance(n.target, ast.Name) and n.target.id == name:
            return n.value
        if isinstance(n, ast.Assign) and isinstance(n.targets[0], ast.Name) and n.targets[0].id == name:
            return n.value
    raise Unrecognised(f"class constant {name}")


def _int_const(node, what):
    if isinstance(node, ast.Constant) and isinstance(node.value, int) and not isinstance(node.value, bool):
        return node.value
    raise Unrecognised(f"{what}: not an integer constant")


def _plus(node, base_src):
    """`<base>` -> 0, `<base> + K` -> K (K integer constant)"""
    if _u(node) == base_src:
        return 0
    if isinstance(node, ast.BinOp) and isinstance(node.op, ast.Add) and _u(node.left) == base_src:
        return _int_const(node.right, base_src + " + K")
    raise Unrecognised(f"expected {base_src} [+ K], found {_u(node)}")


OFF = "self.__year_row_offset[year]"
NAME = "self.get_tax_sheet_name(asset, year)"


def _pieces(node):
    """f-string -> list of Coq jpiece terms"""
    if isinstance(node, ast.Constant) and isinstance(node.value, str):
        return [f"JLit {_lit(node.value)}"]
    if not isinstance(node, ast.JoinedStr):
        raise Unrecognised(f"not an f-string: {_u(node)}")
    out = []
    for v in node.values:
        if isinstance(v, ast.Constant) and isinstance(v.value, str):
            out.append(f"JLit {_lit(v.value)}")
            continue
        if not isinstance(v, ast.FormattedValue) or v.conversion != -1 or v.format_spec is not None:
            raise Unrecognised("f-string piece with conversion / format spec")
        e = v.value
        src = _u(e)
        if src == NAME:
            out.append("JName")
        elif src == "previous_year_sheet_name":
            out.append("JPrevName")
        elif src.startswith("previous_year_row_offset"):
            out.append(f"JPrev ({_plus(e, 'previous_year_row_offset')})")
        elif src.startswith("row_index"):
            out.append(f"JRow ({_plus(e, 'row_index')})")
        elif src.startswith(OFF):
            out.append(f"JOff ({_plus(e, OFF)})")
        else:
            raise Unrecognised(f"f-string expression {src}")
    return out


def _fill(stmt, sheet):
    """self._fill_cell(<sheet>, row, col, value, apply_style=False) -> (row node, col int, value node)"""
    if not (isinstance(stmt, ast.Expr) and isinstance(stmt.value, ast.Call) and dotted(stmt.value.func) == "self._fill_cell"):
        return None
    c = stmt.value
    if len(c.args) != 4 or _u(c.args[0]) != sheet:
        return None
    if [(k.arg, _u(k.value)) for k in c.keywords] != [("apply_style", "False")]:
        raise Unrecognised("_fill_cell keywords")
    return c.args[1], _int_const(c.args[2], "column"), c.args[3]


def _jp_tree(repo):
    return gen.parse(repo, REL)


# ----------------------------------------------------------------------------- __generate_asset
def _generate_asset(cls):
    fn = find_method(cls, "__generate_asset")
    body = _stmts(fn.body)
    src = [_u(s) for s in body]
    need = ["previous_year_row_offset: int = 0",
            "years_2_transaction_sets: Dict[int, List[AbstractTransaction]] = {}"]
    for n in need:
        if n not in src:
            raise Unrecognised(f"__generate_asset: missing `{n}`")
    loops = [s for s in body if isinstance(s, ast.For)]
    if len(loops) != 2:
        raise Unrecognised("__generate_asset: expected two loops")
    g, y = loops
    if _u(g.iter) != "chain(in_transaction_set, out_transaction_set, intra_transaction_set)" or _u(g.target) != "entry" \
            or [_u(s) for s in _stmts(g.body)] != ["years_2_transaction_sets.setdefault(entry.timestamp.year, []).append(entry)"]:
        raise Unrecognised("__generate_asset: grouping loop")
    for nm, attr in (("in_transaction_set", "in_transaction_set"), ("out_transaction_set", "out_transaction_set"),
                     ("intra_transaction_set", "intra_transaction_set")):
        if f"{nm}: TransactionSet = computed_data.{attr}" not in src:
            raise Unrecognised(f"__generate_asset: {nm}")
    if _u(y.target) != "(year, transaction_set)":
        raise Unrecognised("__generate_asset: year loop target")
    it = _u(y.iter)
    if it == "years_2_transaction_sets.items()":
        years_sorted = False
    elif it == "sorted(years_2_transaction_sets.items())":
        years_sorted = True
    else:
        raise Unrecognised(f"__generate_asset: year loop iterates {it}")
    yb = _stmts(y.body)
    if not yb or not (isinstance(yb[0], ast.Assign) and _u(yb[0].targets[0]) == "previous_year_row_offset"
                      and isinstance(yb[0].value, ast.Call) and dotted(yb[0].value.func) == "self.__generate_asset_year"):
        raise Unrecognised("__generate_asset: call of __generate_asset_year")
    kw = {k.arg: _u(k.value) for k in yb[0].value.keywords}
    base_kw = {"asset": "asset", "year": "year", "transaction_list": "sorted(transaction_set, key=lambda x: x.timestamp)",
               "output_file": "output_file", "previous_year_row_offset": "previous_year_row_offset"}
    if yb[0].value.args:
        raise Unrecognised("__generate_asset: positional arguments")
    rest = yb[1:]
    passes_prev = False
    if kw == base_kw:
        pass
    elif kw == dict(base_kw, previous_year="previous_year"):
        # the caller must hand over the year of the previous iteration: `previous_year = year` right after the call,
        # initialised before the loop
        if not rest or _u(rest[0]) != "previous_year = year":
            raise Unrecognised("__generate_asset: previous_year is passed but not updated after the call")
        if "previous_year: int = 0" not in src:
            raise Unrecognised("__generate_asset: previous_year not initialised")
        if body.index(y) < src.index("previous_year: int = 0"):
            raise Unrecognised("__generate_asset: previous_year initialised after the loop")
        rest = rest[1:]
        passes_prev = True
    else:
        raise Unrecognised(f"__generate_asset: keywords {kw}")
    if not rest or _u(rest[0]) != "summary_sheet: Any = output_file.sheets[self.get_summary_sheet_name(year)]":
        raise Unrecognised("__generate_asset: summary sheet lookup")
    totals = []
    for s in rest[1:]:
        f = _fill(s, "summary_sheet")
        if f is None:
            raise Unrecognised(f"__generate_asset: unexpected statement {_u(s)[:60]}")
        row, col, val = f
        totals.append((_plus(row, OFF), col, _pieces(val)))
    if not totals:
        raise Unrecognised("__generate_asset: no summary totals")
    return years_sorted, passes_prev, totals


# ----------------------------------------------------------------------------- __generate_asset_year
ROW_FIELDS = ["transaction_month", "transaction_day", "transaction_client", "transaction_type", "purchase_crypto_amount",
              "purchase_amount_in_yen", "sales_crypto_amount", "sales_amount_in_yen", "fee_in_yen"]
SALE_YEN = "transaction_row.sales_amount_in_yen if formatted_donation_amount is None else formatted_donation_amount"


def _row_loop(loop):
    """the transaction loop: dispatch on the class, skip test, insert, one _fill_cell per field, row_index += 1"""
    if _u(loop.target) != "entry" or _u(loop.iter) != "transaction_list":
        raise Unrecognised("row loop header")
    b = _stmts(loop.body)
    if len(b) < 5 or not isinstance(b[0], ast.If):
        raise Unrecognised("row loop body")
    d = b[0]
    want = [("isinstance(entry, InTransaction)", "self.__process_in_transaction(entry)"),
            ("isinstance(entry, OutTransaction)", "self.__process_out_transaction(entry)"),
            ("isinstance(entry, IntraTransaction)", "self.__process_intra_transaction(entry)")]
    node = d
    for k, (test, call) in enumerate(want):
        if not isinstance(node, ast.If) or _u(node.test) != test:
            raise Unrecognised("row loop: class dispatch")
        bb = _stmts(node.body)
        if not bb or _u(bb[0]) != f"transaction_row = {call}":
            raise Unrecognised("row loop: process call")
        extra = [_u(s) for s in bb[1:]]
        if k == 0 and extra != ["total_gifts += transaction_row.gift"]:
            raise Unrecognised("row loop: gifts")
        if k == 1:
            if len(bb) != 2 or not isinstance(bb[1], ast.If) or _u(bb[1].test) != "transaction_row.donated_amount_in_yen is not None" \
                    or [_u(s) for s in _stmts(bb[1].body)] != [
                        "total_donations += transaction_row.donated_amount_in_yen",
                        "formatted_donation_amount = f'0 (￥{float(transaction_row.donated_amount_in_yen):0,.2f})'"]:
                raise Unrecognised("row loop: donations")
        if k == 2 and extra:
            raise Unrecognised("row loop: intra branch")
        node = node.orelse[0] if (k < 2 and len(node.orelse) == 1) else node
    if len(node.orelse) != 1 or not isinstance(node.orelse[0], ast.Raise):
        raise Unrecognised("row loop: final else")
    skip = b[1]
    if not (isinstance(skip, ast.If) and not skip.orelse and [_u(s) for s in _stmts(skip.body)] == ["continue"]
            and _u(skip.test) == "transaction_row.purchase_crypto_amount is None and transaction_row.sales_crypto_amount is None"):
        raise Unrecognised("row loop: skip test")
    if _u(b[2]) != "self.__insert_secondary_transaction_row(asset_year_sheet, row_index)":
        raise Unrecognised("row loop: row insertion")
    cols = {}

    def take(stmt, guard):
        f = _fill(stmt, "asset_year_sheet")
        if f is None or _u(f[0]) != "row_index":
            raise Unrecognised(f"row loop: {_u(stmt)[:60]}")
        v = _u(f[2])
        if v == SALE_YEN:
            field = "sales_amount_in_yen"
        elif v.startswith("transaction_row.") and v[len("transaction_row."):] in ROW_FIELDS:
            field = v[len("transaction_row."):]
        else:
            raise Unrecognised(f"row loop: value {v}")
        want_guard = {"purchase_crypto_amount": "p", "purchase_amount_in_yen": "p", "sales_crypto_amount": "s", "sales_amount_in_yen": "s"}.get(field)
        if guard != want_guard or field in cols:
            raise Unrecognised(f"row loop: guard of {field}")
        cols[field] = f[1]

    for s in b[3:-2]:
        if isinstance(s, ast.If):
            t = _u(s.test)
            g = {"transaction_row.purchase_crypto_amount is not None": "p", "transaction_row.sales_crypto_amount is not None": "s"}.get(t)
            if g is None or s.orelse:
                raise Unrecognised("row loop: conditional fill")
            for x in _stmts(s.body):
                take(x, g)
        else:
            take(s, None)
    if [_u(s) for s in b[-2:]] != ["row_index += 1", "formatted_donation_amount = None"]:
        raise Unrecognised("row loop: tail")
    if sorted(cols) != sorted(ROW_FIELDS):
        raise Unrecognised("row loop: fields written")
    if len(set(cols.values())) != len(cols):
        raise Unrecognised("row loop: two fields in one column")
    return cols


def _insert_helper(cls, name):
    fn = find_method(cls, name)
    b = _stmts(fn.body)
    if not b or _u(b[0]) != "sheet_name.insert_rows(index=row, count=1)":
        raise Unrecognised(f"{name}: insert_rows")
    for s in b[1:]:
        if not (isinstance(s, ast.Assign) and _u(s.targets[0]).endswith(".style_name")):
            raise Unrecognised(f"{name}: not only styles")


def _generate_asset_year(cls, passes_prev):
    fn = find_method(cls, "__generate_asset_year")
    params = [a.arg for a in fn.args.args]
    base = ["self", "asset", "year", "transaction_list", "output_file", "previous_year_row_offset"]
    if params == base:
        has_prev = False
    elif params == base + ["previous_year"]:
        has_prev = True
    else:
        raise Unrecognised(f"__generate_asset_year: parameters {params}")
    if has_prev != passes_prev:
        raise Unrecognised("__generate_asset_year: previous_year parameter vs call site")
    b = _stmts(fn.body)
    src = [_u(s) for s in b]
    if src[:2] != ["asset_year_sheet: Any = output_file.sheets[self.ASSET_TEMPLATE_SHEET].copy(newname=self.get_tax_sheet_name(asset, year))",
                   "output_file.sheets += asset_year_sheet"]:
        raise Unrecognised("__generate_asset_year: sheet copy")
    f = _fill(b[2], "asset_year_sheet")
    if f is None or _u(f[2]) != "asset":
        raise Unrecognised("__generate_asset_year: asset label")
    label = (_int_const(f[0], "label row"), f[1])
    first = None
    for s in b:
        if isinstance(s, ast.AnnAssign) and _u(s.target) == "row_index":
            first = _int_const(s.value, "row_index")
    if first is None:
        raise Unrecognised("row_index initial value")
    for n in ("total_donations: RP2Decimal = ZERO", "total_gifts: RP2Decimal = ZERO", "formatted_donation_amount: Optional[str] = None"):
        if n not in src:
            raise Unrecognised(f"__generate_asset_year: missing `{n}`")
    loops = [k for k, s in enumerate(b) if isinstance(s, ast.For)]
    if len(loops) != 1:
        raise Unrecognised("__generate_asset_year: loops")
    cols = _row_loop(b[loops[0]])
    tail, line = [], []
    k = loops[0] + 1
    prev_existing = None
    seen_summary = False
    ret = None
    while k < len(b):
        s = b[k]
        t = src[k]
        f = _fill(s, "asset_year_sheet")
        if f is not None:
            if seen_summary:
                raise Unrecognised("asset sheet written after the summary block")
            row, col, val = f
            v = _u(val)
            if v in ("previous_year_crypto_cell if previous_year_crypto_cell else 0", "previous_year_yen_cell if previous_year_yen_cell else 0"):
                tail.append((_plus(row, "row_index"), col, "JOpen " + v.split()[0]))
            else:
                tail.append((_plus(row, "row_index"), col, "JF " + gen.coq_list(_pieces(val))))
        elif t in ("previous_year_crypto_cell: Optional[str] = None", "previous_year_yen_cell: Optional[str] = None", "year_summary_sheet: Any"):
            pass
        elif isinstance(s, ast.If) and t.startswith("if previous_year_row_offset != 0:"):
            ib = _stmts(s.body)
            if s.orelse or len(ib) != 3:
                raise Unrecognised("previous-year block")
            nm = _u(ib[0])
            if nm == "previous_year_sheet_name: str = self.get_tax_sheet_name(asset, year - 1)":
                prev_existing = False
            elif nm == "previous_year_sheet_name: str = self.get_tax_sheet_name(asset, previous_year)" and has_prev:
                prev_existing = True
            else:
                raise Unrecognised(f"previous-year sheet name: {nm}")
            opening = {}
            for x in ib[1:]:
                if not (isinstance(x, ast.Assign) and _u(x.targets[0]) in ("previous_year_crypto_cell", "previous_year_yen_cell")):
                    raise Unrecognised("previous-year block: assignments")
                opening[_u(x.targets[0])] = _pieces(x.value)
            if sorted(opening) != ["previous_year_crypto_cell", "previous_year_yen_cell"]:
                raise Unrecognised("previous-year block: cells")
        elif isinstance(s, ast.If) and _u(s.test).startswith("self.__year_row_offset.setdefault(year, "):
            seen_summary = True
            test = s.test
            if not (isinstance(test, ast.Compare) and len(test.ops) == 1 and isinstance(test.ops[0], ast.Eq)
                    and isinstance(test.left, ast.Call) and len(test.left.args) == 2):
                raise Unrecognised("summary creation test")
            start = _int_const(test.left.args[1], "summary start")
            if _int_const(test.comparators[0], "summary start") != start:
                raise Unrecognised("setdefault default and compared value differ")
            if [_u(x) for x in _stmts(s.body)] != [
                    "year_summary_sheet = output_file.sheets[self.SUMMARY_TEMPLATE_SHEET].copy(newname=self.get_summary_sheet_name(year))",
                    "output_file.sheets.insert(2 + self.__number_of_summaries, year_summary_sheet)",
                    "self.__number_of_summaries += 1"]:
                raise Unrecognised("summary creation branch")
            if [_u(x) for x in _stmts(s.orelse)] != ["year_summary_sheet = output_file.sheets[self.get_summary_sheet_name(year)]"]:
                raise Unrecognised("summary lookup branch")
        elif t == f"self.__insert_summary_row(year_summary_sheet, {OFF})":
            if not seen_summary:
                raise Unrecognised("summary row inserted before the sheet exists")
        elif _fill(s, "year_summary_sheet") is not None:
            row, col, val = _fill(s, "year_summary_sheet")
            if _u(row) != OFF:
                raise Unrecognised("summary line row")
            v = _u(val)
            kind = {"asset": "JAsset", "total_donations": "JDonations", "total_gifts": "JGifts"}.get(v)
            line.append((col, kind if kind else "JF " + gen.coq_list(_pieces(val))))
        elif t == f"{OFF} += 1":
            if k != len(b) - 2:
                raise Unrecognised("offset increment is not the last statement before return")
        elif isinstance(s, ast.Return):
            ret = _plus(s.value, "row_index")
        else:
            raise Unrecognised(f"__generate_asset_year: unexpected statement {t[:70]}")
        k += 1
    if prev_existing is None or ret is None or not line or not tail:
        raise Unrecognised("__generate_asset_year: incomplete")
    if f"{OFF} += 1" not in src:
        raise Unrecognised("offset increment missing")
    return {"label": label, "first": first, "cols": cols, "tail": tail, "line": line, "start": start, "ret": ret,
            "prev_existing": prev_existing, "opening": opening}


# ----------------------------------------------------------------------------- __process_intra_transaction
def _process_intra(cls):
    """the row of a transfer: which comparison decides whether the yen value of the lost amount is kept.
    true  = `transaction_fee_in_yen if transaction_fee_in_crypto > ZERO else None` (guarded like the sold amount),
    false = `transaction_fee_in_yen if transaction_fee_in_yen > ZERO else None` (finding F14: a positive amount whose yen
            value is 0 at 13 decimals has a sold amount but no yen value)"""
    fn = find_method(cls, "__process_intra_transaction")
    b = _stmts(fn.body)
    src = [_u(x) for x in b]
    want_head = ["transaction_fee_in_crypto: Optional[RP2Decimal] = None", "transaction_fee_in_yen: Optional[RP2Decimal] = None",
                 "transaction_fee_in_crypto = transaction.crypto_sent - transaction.crypto_received",
                 "transaction_fee_in_yen = transaction_fee_in_crypto * transaction.spot_price"]
    if src[:-1] != want_head or not isinstance(b[-1], ast.Return):
        raise Unrecognised("__process_intra_transaction: body")
    call = b[-1].value
    if not (isinstance(call, ast.Call) and dotted(call.func) == "_TransactionRow" and not call.args):
        raise Unrecognised("__process_intra_transaction: return value")
    kw = {k.arg: _u(k.value) for k in call.keywords}
    yen = kw.pop("sales_amount_in_yen", None)
    if kw != {"transaction_type": "TransactionType.FEE.value.upper()", "transaction_month": "transaction.timestamp.month",
              "transaction_day": "transaction.timestamp.day", "transaction_client": "_(self.TRANSFER)",
              "sales_crypto_amount": "transaction_fee_in_crypto if transaction_fee_in_crypto > ZERO else None",
              "fee_in_yen": "ZERO", "gift": "ZERO"}:
        raise Unrecognised("__process_intra_transaction: row fields")
    if yen == "transaction_fee_in_yen if transaction_fee_in_yen > ZERO else None":
        return False
    if yen == "transaction_fee_in_yen if transaction_fee_in_crypto > ZERO else None":
        return True
    raise Unrecognised(f"__process_intra_transaction: sales_amount_in_yen = {yen}")


# ----------------------------------------------------------------------------- templates / texts
def _template(repo, lang):
    import ezodf
    p = os.path.join(repo, "src", "rp2", "plugin", "report", "data", "jp", f"template_tax_report_jp_{lang}.ods")
    doc = ezodf.opendoc(p)
    out = {}
    names = [sh.name for sh in doc.sheets]
    for nm in ("__Asset", "__Summary"):
        if names.count(nm) != 1:
            raise Unrecognised(f"template {lang}: sheet {nm}")
        sh = doc.sheets[nm]
        cells = []
        for r in range(sh.nrows()):
            for c in range(sh.ncols()):
                x = sh[r, c]
                if x.formula is not None or x.value not in (None, ""):
                    if x.formula is not None or not isinstance(x.value, str):
                        raise Unrecognised(f"template {lang}/{nm}: non-text cell at {r},{c}")
                    cells.append((r, c))
        out[nm] = (sh.nrows(), sh.ncols(), cells)
    return out, names


LEGEND_SHEET = "__Legend_tax_report_jp"          # f"__Legend_{cls.get_name()}": get_name() is the module name


def _legend_template(repo, lang):
    """the legend sheet of the shipped template -- its geometry DIFFERS between the languages --: rows, columns, non-empty
    cells, the row (< 100) whose first cell equals the translated "Accounting Method" (what _initialize_output_file looks
    for), and the translated sheet name"""
    import ezodf
    p = os.path.join(repo, "src", "rp2", "plugin", "report", "data", "jp", f"template_tax_report_jp_{lang}.ods")
    doc = ezodf.opendoc(p)
    if [sh.name for sh in doc.sheets].count(LEGEND_SHEET) != 1:
        raise Unrecognised(f"template {lang}: sheet {LEGEND_SHEET}")
    sh = doc.sheets[LEGEND_SHEET]
    t = gettext.translation("messages", localedir=os.path.join(repo, "src", "rp2", "locales"), languages=[lang])
    label = t.gettext("Accounting Method")
    cells = []
    for r in range(sh.nrows()):
        for c in range(sh.ncols()):
            x = sh[r, c]
            if x.formula is not None or x.value not in (None, ""):
                if x.formula is not None or not isinstance(x.value, str):
                    raise Unrecognised(f"template {lang}/{LEGEND_SHEET}: non-text cell at {r},{c}")
                cells.append((r, c))
    row = None
    for r in range(min(100, sh.nrows())):
        if sh[r, 0].value == label:
            row = r
            break
    return sh.nrows(), sh.ncols(), cells, row, t.gettext("Legend")


def _texts(repo, lang):
    t = gettext.translation("messages", localedir=os.path.join(repo, "src", "rp2", "locales"), languages=[lang])
    name, summ, transfer = t.gettext("{}_{}"), t.gettext("{}_Summary"), t.gettext("Transfer")
    a = name.split("{}")
    b = summ.split("{}")
    if len(a) != 3 or len(b) != 2:
        raise Unrecognised(f"{lang}: sheet name formats {name!r} {summ!r}")
    return a, b, transfer


def frag_jp(repo):
    try:
        return _frag_jp(repo)
    except Unrecognised:
        raise
    except Exception as exc:  # noqa: BLE001   (ezodf / gettext / ast surprises: fail closed)
        raise Unrecognised(f"{type(exc).__name__}: {exc}") from exc


def _frag_jp(repo):
    tree = _jp_tree(repo)
    cls = find_class(tree, "Generator")
    trs = _int_const(_class_const(cls, "TRANSACTION_ROW_START"), "TRANSACTION_ROW_START")
    for nm, want in (("ASSET_TEMPLATE_SHEET", "Asset"), ("SUMMARY_TEMPLATE_SHEET", "Summary"), ("TRANSFER", "Transfer")):
        v = _class_const(cls, nm)
        if not (isinstance(v, ast.Constant) and v.value == want):
            raise Unrecognised(nm)
    if _u(_single_return(find_method(cls, "get_tax_sheet_name"))) != "_('{}_{}').format(asset, year)":
        raise Unrecognised("get_tax_sheet_name")
    if _u(_single_return(find_method(cls, "get_summary_sheet_name"))) != "_('{}_Summary').format(year)":
        raise Unrecognised("get_summary_sheet_name")
    keep = _u(gen._module_const(tree, "_TEMPLATE_SHEETS_TO_KEEP"))  # noqa: SLF001
    if keep != "{f'__{item.value}' for item in _SheetNames}":
        raise Unrecognised("_TEMPLATE_SHEETS_TO_KEEP")
    inc = gen._module_const(tree, "_INCOME_TRANSACTION_TYPES")  # noqa: SLF001
    if not isinstance(inc, ast.Dict):
        raise Unrecognised("_INCOME_TRANSACTION_TYPES")
    income = []
    for k in inc.keys:
        p = dotted(k)
        if p is None or not p.startswith("TransactionType.") or p.split(".")[1] not in gen.TTYPES:
            raise Unrecognised("_INCOME_TRANSACTION_TYPES key")
        income.append(p.split(".")[1])
    income = sorted(set(income), key=gen.TTYPES.index)
    # generate(): both dates given -> error
    g = find_method(cls, "generate")
    gs = _stmts(g.body)
    if not (isinstance(gs[0], ast.If) and _u(gs[0].test) == "from_date != MIN_DATE and to_date != MAX_DATE" and isinstance(gs[0].body[0], ast.Raise)):
        raise Unrecognised("generate: from/to restriction")
    gsrc = _u(g)
    for need in ("output_file = self._initialize_output_file(country=country, legend_data=[], "
                 "years_2_accounting_method_names=years_2_accounting_method_names, output_dir_path=output_dir_path, "
                 "output_file_prefix=output_file_prefix, output_file_name=self.OUTPUT_FILE, template_path=template_path, "
                 "template_sheets_to_keep=_TEMPLATE_SHEETS_TO_KEEP, from_date=from_date, to_date=to_date)",
                 "for asset, computed_data in asset_to_computed_data.items():", "self.__generate_asset(computed_data, output_file)",
                 "del output_file.sheets[self.ASSET_TEMPLATE_SHEET]", "del output_file.sheets[self.SUMMARY_TEMPLATE_SHEET]"):
        if need not in gsrc:
            raise Unrecognised(f"generate: `{need}`")
    _insert_helper(cls, "__insert_secondary_transaction_row")
    _insert_helper(cls, "__insert_summary_row")
    init = [_u(s) for s in _stmts(find_method(cls, "__init__").body)]
    if "self.__year_row_offset: Dict[int, int] = {}" not in init or "self.__number_of_summaries: int = 0" not in init:
        raise Unrecognised("__init__")
    years_sorted, passes_prev, totals = _generate_asset(cls)
    y = _generate_asset_year(cls, passes_prev)
    yen_guard = _process_intra(cls)
    # (previous_year handed over but the name still built from `year - 1`: recognised, prev_existing = false)
    # templates: identical geometry in every shipped language
    tmpl = None
    for lang in LANGS:
        t, names = _template(repo, lang)
        if tmpl is None:
            tmpl = t
        elif t != tmpl:
            raise Unrecognised(f"template geometry of {lang} differs from {LANGS[0]}")
    texts = [_texts(repo, lang) for lang in LANGS]
    legends = [_legend_template(repo, lang) for lang in LANGS]

    def cells(l):
        return gen.coq_list([f"({r}, {c})" for r, c in l])

    def table3(rows):
        return "[" + ";\n   ".join(f"({dr}, {c}, {v})" for dr, c, v in rows) + "]"

    op = y["opening"]
    tail = [(dr, c, ("JOpen " + gen.coq_list(op[v.split()[1]])) if v.startswith("JOpen ") else v) for dr, c, v in y["tail"]]
    s = "Inductive jpiece := JLit (s : str) | JRow (k : Z) | JOff (k : Z) | JName | JPrevName | JPrev (k : Z).\n"
    s += "Inductive jval := JF (ps : list jpiece) | JOpen (ps : list jpiece) | JAsset | JDonations | JGifts.\n"
    s += f"Definition gen_jp_years_sorted : bool := {'true' if years_sorted else 'false'}.\n"
    s += f"Definition gen_jp_prev_existing_year : bool := {'true' if y['prev_existing'] else 'false'}.\n"
    s += f"Definition gen_jp_intra_yen_guard_on_crypto : bool := {'true' if yen_guard else 'false'}.\n"
    s += f"Definition gen_jp_first_row : Z := {y['first']}.\n"
    s += f"Definition gen_jp_transaction_row_start : Z := {trs}.\n"
    s += f"Definition gen_jp_return_delta : Z := {y['ret']}.\n"
    s += f"Definition gen_jp_summary_start : Z := {y['start']}.\n"
    s += f"Definition gen_jp_label_cell : Z * Z := ({y['label'][0]}, {y['label'][1]}).\n"
    for fld in ROW_FIELDS:
        s += f"Definition gen_jp_col_{fld} : Z := {y['cols'][fld]}.\n"
    s += f"Definition gen_jp_income_types : list ttype := {gen.coq_list(income)}.\n"
    s += "Definition gen_jp_asset_tail : list (Z * Z * jval) :=\n  " + table3(tail) + ".\n"
    s += "Definition gen_jp_summary_line : list (Z * jval) :=\n  [" + ";\n   ".join(f"({c}, {v})" for c, v in y["line"]) + "].\n"
    s += "Definition gen_jp_summary_totals : list (Z * Z * jval) :=\n  " + table3([(dr, c, "JF " + gen.coq_list(ps)) for dr, c, ps in totals]) + ".\n"
    for nm, key in (("asset", "__Asset"), ("summary", "__Summary")):
        r, c, cl = tmpl[key]
        s += f"Definition gen_jp_tmpl_{nm}_rows : Z := {r}.\nDefinition gen_jp_tmpl_{nm}_cols : Z := {c}.\n"
        s += f"Definition gen_jp_tmpl_{nm}_cells : list (Z * Z) := {cells(cl)}.\n"
    s += "(* translations used for sheet names / the client of a transfer row; language code 0 = en, 1 = kl *)\n"
    s += "Definition gen_jp_name_fmt (lang : Z) : str * str * str :=\n"
    for k, (a, b, tr) in enumerate(texts):
        s += f"  {'if lang =? ' + str(k) + ' then' if k < len(texts) - 1 else ''} ({_lit(a[0])}, {_lit(a[1])}, {_lit(a[2])}){' else' if k < len(texts) - 1 else '.'}\n"
    s += "Definition gen_jp_summary_fmt (lang : Z) : str * str :=\n"
    for k, (a, b, tr) in enumerate(texts):
        s += f"  {'if lang =? ' + str(k) + ' then' if k < len(texts) - 1 else ''} ({_lit(b[0])}, {_lit(b[1])}){' else' if k < len(texts) - 1 else '.'}\n"
    s += "Definition gen_jp_transfer (lang : Z) : str :=\n"
    for k, (a, b, tr) in enumerate(texts):
        s += f"  {'if lang =? ' + str(k) + ' then' if k < len(texts) - 1 else ''} {_lit(tr)}{' else' if k < len(texts) - 1 else '.'}\n"
    s += "(* the template's legend sheet per language: size, non-empty cells, the row of the translated \"Accounting Method\", translated name *)\n"

    def per_lang(name, ty, vals):
        t = f"Definition {name} (lang : Z) : {ty} :=\n"
        for k, v in enumerate(vals):
            t += f"  {'if lang =? ' + str(k) + ' then' if k < len(vals) - 1 else ''} {v}{' else' if k < len(vals) - 1 else '.'}\n"
        return t
    s += per_lang("gen_jp_legend_rows", "Z", [str(x[0]) for x in legends])
    s += per_lang("gen_jp_legend_cols", "Z", [str(x[1]) for x in legends])
    s += per_lang("gen_jp_legend_cells", "list (Z * Z)", [cells(x[2]) for x in legends])
    s += per_lang("gen_jp_legend_method_row", "option Z", ["None" if x[3] is None else f"(Some {x[3]})" for x in legends])
    s += per_lang("gen_jp_legend_name", "str", [_lit(x[4]) for x in legends])
    return s


def _single_return(m):
    body = _stmts(m.body)
    if len(body) != 1 or not isinstance(body[0], ast.Return):
        raise Unrecognised(f"{m.name}: not a single return")
    return body[0].value


def flags(repo):
    """(years_sorted, prev_existing_year, intra_yen_guard_on_crypto) as the translator reads them, or None when the shape
    is unrecognised"""
    try:
        cls = find_class(_jp_tree(repo), "Generator")
        ys, pp, _ = _generate_asset(cls)
        y = _generate_asset_year(cls, pp)
        return ys, y["prev_existing"], _process_intra(cls)
    except Exception:  # noqa: BLE001
        return None


gen.FRAGMENTS.append(("jp_report", frag_jp, None))
