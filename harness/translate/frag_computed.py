def frag_computed(repo):
    return "(* placeholder *)\n"
