"""Translator fragment for computed_data.py (+ AbstractEntrySet.duplicate): the update rules of ComputedData as tables.

Read from the source on every run, fail-closed (anything outside the recognised shapes raises Unrecognised and
tie.generate falls back to accepted/computed.v, status `fallback(...)`).  Statements are walked IN ORDER, with a small
symbolic state (which accumulators are ZERO, which filtered views exist), so what is emitted is what the code computes:

  * the running-sum loops of __init__: for each dictionary behind a `get_crypto_*_running_sum` getter, which set its loop
    iterates (unfiltered / filtered), whether the loop has a to-date cut, and the attribute accumulated
    (`acc = ZERO` before the loop, `acc += t.<attr>` then `self.__d[t] = acc` in the body);
  * `_create_yearly_gain_loss_list`: the key tuple, the accumulated attribute per YearlyGainLoss field (through
    _YearlyGainLossAmounts), the to-date cut with its break/continue (None when the function has none or the call does not
    pass to_date), the set the call hands over (unfiltered / filtered), the sort; `_filter_yearly_gain_loss_by_year`:
    the bounds on y.year and what the call binds them to;
  * the sold-percentage loop: the set iterated, the skip conditions, the attribute accumulated;
  * `_compute_price_per_unit`: cut, numerator and denominator attributes, the set handed over;
  * order: are the two `duplicate(from_date, to_date)` calls made before the yearly summary; does
    `AbstractEntrySet.duplicate` re-sort its copy unconditionally (`_force_sort`) - this is what recomputes the fraction
    numbering for the window's to-date;
  * `crypto_deduction` of the three transaction classes (an attribute a running sum may be switched to).

Model/ComputedGen.v interprets the tables; Proofs/ComputedGenProofs.v proves agreement with `running`, `yearly_add`,
`yearly_list`, `sold_pct_add`, `price_per_unit` of Model/Computed.v.
"""
import ast

from . import gen
from .expr import Unrecognised, find_class, find_method, Translator

TYPES = """Inductive cd_loop_set := LS_unfiltered | LS_filtered.
Inductive cd_field := CF_crypto_in | CF_crypto_fee | CF_crypto_out_no_fee | CF_crypto_out_with_fee | CF_crypto_sent
| CF_crypto_received | CF_crypto_balance_change | CF_crypto_taxable_amount | CF_crypto_deduction | CF_crypto_amount.
Inductive cd_fiat_field := CFF_fiat_in_with_fee | CFF_fiat_in_no_fee | CFF_fiat_fee.
Inductive gl_field := GF_crypto_amount | GF_proceeds | GF_cost_basis | GF_gain | GF_lot_pct | GF_event_pct.
Inductive yk_comp := YK_event_local_year | YK_asset | YK_event_type | YK_is_long.
Inductive y_field := YF_crypto | YF_fiat | YF_cost | YF_gain.
Inductive y_filter := YFL_ge_from_year | YFL_le_to_year.
Inductive sold_skip := SS_no_lot | SS_lot_before_from | SS_lot_after_to.
(* a loop: (set iterated, to-date cut: None / Some true = break / Some false = continue, attribute) *)
Definition cd_run := (cd_loop_set * option bool * cd_field)%type.
"""

TX_FIELDS = {
    "in": {"crypto_in", "crypto_fee", "crypto_balance_change", "crypto_taxable_amount", "crypto_deduction"},
    "out": {"crypto_out_no_fee", "crypto_fee", "crypto_out_with_fee", "crypto_balance_change", "crypto_taxable_amount", "crypto_deduction"},
    "intra": {"crypto_sent", "crypto_received", "crypto_fee", "crypto_balance_change", "crypto_taxable_amount", "crypto_deduction"},
    "gl": {"crypto_amount"},
}
FIAT_IN = {"fiat_in_with_fee", "fiat_in_no_fee", "fiat_fee"}
GL_FIELDS = {"crypto_amount": "GF_crypto_amount", "taxable_event_fiat_amount_with_fee_fraction": "GF_proceeds",
             "fiat_cost_basis": "GF_cost_basis", "fiat_gain": "GF_gain", "acquired_lot_fraction_percentage": "GF_lot_pct",
             "taxable_event_fraction_percentage": "GF_event_pct"}
RUN_GETTERS = [("get_crypto_in_running_sum", "in", "gen_run_in"), ("get_crypto_in_fee_running_sum", "in", "gen_run_in_fee"),
               ("get_crypto_out_running_sum", "out", "gen_run_out"), ("get_crypto_out_fee_running_sum", "out", "gen_run_out_fee"),
               ("get_crypto_intra_fee_running_sum", "intra", "gen_run_intra_fee"),
               ("get_crypto_gain_loss_running_sum", "gl", "gen_run_gl")]
VIEW_PROPS = {"taxable_event_set": "__filtered_taxable_event_set", "gain_loss_set": "__filtered_gain_loss_set",
              "yearly_gain_loss_list": "__filtered_yearly_gain_loss_list", "in_transaction_set": "__filtered_in_transaction_set",
              "out_transaction_set": "__filtered_out_transaction_set", "intra_transaction_set": "__filtered_intra_transaction_set",
              "balance_set": "__filtered_balance_set", "price_per_unit": "__filtered_price_per_unit"}
YGL_FIELDS = ["year", "asset", "transaction_type", "is_long_term_capital_gains", "crypto_amount", "fiat_amount", "fiat_cost_basis",
              "fiat_gain_loss"]
ID_FIELDS = YGL_FIELDS[:4]
AMOUNT_FIELDS = YGL_FIELDS[4:]
Y_OF_FIELD = {"crypto_amount": "YF_crypto", "fiat_amount": "YF_fiat", "fiat_cost_basis": "YF_cost", "fiat_gain_loss": "YF_gain"}
SORT_CRITERIA = ("f\"{yearly_gain_loss.asset} {yearly_gain_loss.year} {('LONG' if yearly_gain_loss.is_long_term_capital_gains else 'SHORT')} "
                 "{yearly_gain_loss.transaction_type.value}\"")
GUARDS = {"not isinstance(from_date, date)", "not isinstance(to_date, date)",
          "self.__filtered_taxable_event_set.asset != self.__asset", "self.__filtered_gain_loss_set.asset != self.__asset",
          "self.__filtered_balance_set.asset != self.__asset", "self.__asset != input_data.asset"}


def U(node):
    return ast.unparse(node)


def _name(node):
    return node.id if isinstance(node, ast.Name) else None


def _assign(stmt):
    if isinstance(stmt, ast.Assign) and len(stmt.targets) == 1:
        return stmt.targets[0], stmt.value
    if isinstance(stmt, ast.AnnAssign) and stmt.value is not None:
        return stmt.target, stmt.value
    return None


def _bare_annotation(s):
    return isinstance(s, ast.AnnAssign) and s.value is None and isinstance(s.target, ast.Name)


def _stmts(body):
    return [s for s in body if not Translator.is_noise(s) and not _bare_annotation(s)]


def _self_attr(node):
    """self.__x -> '__x'"""
    if isinstance(node, ast.Attribute) and _name(node.value) == "self":
        return node.attr
    return None


def _dataclass_fields(cls):
    return [s.target.id for s in cls.body if isinstance(s, ast.AnnAssign) and isinstance(s.target, ast.Name)]


def _ctor_args(call, fields, what):
    """positional + keyword arguments of a dataclass constructor call -> {field: node}"""
    if len(call.args) > len(fields):
        raise Unrecognised(f"{what}: too many arguments")
    args = dict(zip(fields, call.args))
    for k in call.keywords:
        if k.arg is None or k.arg in args or k.arg not in fields:
            raise Unrecognised(f"{what}: argument `{k.arg}`")
        args[k.arg] = k.value
    if set(args) != set(fields):
        raise Unrecognised(f"{what}: missing arguments")
    return args


def _alias_stmt(s, aliases):
    """x[: T] = cast(T, <alias>) / x = <alias>  -> name bound, else None"""
    a = _assign(s)
    if a is None or _name(a[0]) is None:
        return None
    v = a[1]
    if isinstance(v, ast.Call) and _name(v.func) == "cast" and len(v.args) == 2 and not v.keywords:
        v = v.args[1]
    if _name(v) in aliases:
        return a[0].id
    return None


def _cut_stmt(s, aliases, ts_path, to_name):
    """if <alias>.<ts_path>.date() > to_date: break|continue -> True (break) / False (continue); None if not of this shape"""
    if not (isinstance(s, ast.If) and not s.orelse and len(s.body) == 1 and isinstance(s.body[0], (ast.Break, ast.Continue))):
        return None
    t = s.test
    if not (isinstance(t, ast.Compare) and len(t.ops) == 1 and isinstance(t.ops[0], ast.Gt) and _name(t.comparators[0]) == to_name):
        return None
    for al in aliases:
        if U(t.left) == f"{al}.{ts_path}.date()":
            return isinstance(s.body[0], ast.Break)
    return None


TS_PATH = {"in": "timestamp", "out": "timestamp", "intra": "timestamp", "gl": "taxable_event.timestamp"}


def coq_opt_bool(b):
    return "None" if b is None else f"(Some {'true' if b else 'false'})"


class Loop:
    """one `for entry in <set>:` of ComputedData.__init__, statements in order"""

    def __init__(self, loop, kind, zero):
        if loop.orelse or not isinstance(loop.target, ast.Name):
            raise Unrecognised("loop header")
        self.kind = kind
        self.aliases = {loop.target.id}
        self.zero = zero
        self.adds = {}            # accumulator -> attributes added so far in the iteration
        self.stored_accs = set()
        self.stores = {}          # dictionary attribute -> accumulated attribute
        self.cut = None
        self.skip = None
        self.sold = None          # (dictionary attribute, gl field)
        self.guarded = False
        for s in _stmts(loop.body):
            self.stmt(s)
        for acc in self.adds:
            if acc not in self.stored_accs:
                raise Unrecognised(f"accumulator `{acc}` is never stored")

    def field_of(self, node, allowed):
        if isinstance(node, ast.Attribute) and _name(node.value) in self.aliases and node.attr in allowed:
            return node.attr
        raise Unrecognised(f"`{U(node)}` is not a known attribute of the loop entry")

    def lot_of(self, node):
        return isinstance(node, ast.Attribute) and node.attr == "acquired_lot" and _name(node.value) in self.aliases

    def stmt(self, s):
        n = _alias_stmt(s, self.aliases)
        if n is not None:
            if n in self.adds or n in self.zero:
                raise Unrecognised(f"`{n}` rebound")
            self.aliases.add(n)
            return
        c = _cut_stmt(s, self.aliases, TS_PATH[self.kind], "to_date")
        if c is not None:
            if self.adds or self.stores or self.cut is not None or self.guarded or self.sold:
                raise Unrecognised("to-date cut is not at the head of the loop body")
            self.cut = c
            return
        if isinstance(s, ast.AugAssign) and isinstance(s.op, ast.Add) and _name(s.target):
            acc = s.target.id
            if self.guarded or acc in self.stored_accs or acc not in self.zero:
                raise Unrecognised(f"`{U(s)}`: accumulator not ZERO at loop entry, already stored, or behind a skip")
            self.adds.setdefault(acc, []).append(self.field_of(s.value, TX_FIELDS[self.kind]))
            return
        if isinstance(s, ast.If):
            return self.skip_stmt(s)
        a = _assign(s)
        if a is not None and isinstance(a[0], ast.Subscript) and _self_attr(a[0].value):
            d, key, val = _self_attr(a[0].value), a[0].slice, a[1]
            if _name(key) in self.aliases and _name(val):
                acc = val.id
                if self.guarded or d in self.stores or len(self.adds.get(acc, [])) != 1:
                    raise Unrecognised(f"`{U(s)}`: not the store of a running sum of one attribute")
                self.stores[d] = self.adds[acc][0]
                self.stored_accs.add(acc)
                return
            if self.kind == "gl" and self.lot_of(key) and self.sold is None:
                ok = (isinstance(val, ast.BinOp) and isinstance(val.op, ast.Add) and isinstance(val.left, ast.Call)
                      and isinstance(val.left.func, ast.Attribute) and val.left.func.attr == "setdefault"
                      and _self_attr(val.left.func.value) == d and len(val.left.args) == 2 and not val.left.keywords
                      and self.lot_of(val.left.args[0]) and _name(val.left.args[1]) == "ZERO")
                if not ok:
                    raise Unrecognised(f"sold-percentage update `{U(s)[:100]}`")
                self.sold = (d, GL_FIELDS[self.field_of(val.right, set(GL_FIELDS))])
                return
        raise Unrecognised(f"loop statement `{U(s)[:100]}`")

    def skip_stmt(self, s):
        if self.kind != "gl" or self.skip is not None or self.sold is not None:
            raise Unrecognised(f"`if` in a loop body: `{U(s.test)[:100]}`")
        if s.orelse or len(s.body) != 1 or not isinstance(s.body[0], ast.Continue):
            raise Unrecognised("skip test does not `continue`")
        t = s.test
        vals = t.values if isinstance(t, ast.BoolOp) and isinstance(t.op, ast.Or) else [t]
        out = []
        for v in vals:
            if isinstance(v, ast.UnaryOp) and isinstance(v.op, ast.Not) and self.lot_of(v.operand):
                out.append("SS_no_lot")
                continue
            if (isinstance(v, ast.Compare) and len(v.ops) == 1 and isinstance(v.left, ast.Call) and not v.left.args
                    and U(v.left.func).endswith(".acquired_lot.timestamp.date")
                    and self.lot_of(v.left.func.value.value)):
                if "SS_no_lot" not in out:
                    raise Unrecognised("the lot's date is read before the lot is tested")
                if isinstance(v.ops[0], ast.Lt) and _name(v.comparators[0]) == "from_date":
                    out.append("SS_lot_before_from")
                    continue
                if isinstance(v.ops[0], ast.Gt) and _name(v.comparators[0]) == "to_date":
                    out.append("SS_lot_after_to")
                    continue
            raise Unrecognised(f"skip condition `{U(v)}`")
        if len(set(out)) != len(out):
            raise Unrecognised("skip condition repeated")
        self.skip = out
        self.guarded = True


# --------------------------------------------------------------------------------------------- static methods
def _price_per_unit(fn):
    """-> (cut, numerator fiat attribute, denominator crypto attribute)"""
    params = [a.arg for a in fn.args.args]
    if params != ["unfiltered_in_transaction_set", "to_date"] or fn.args.defaults:
        raise Unrecognised("_compute_price_per_unit signature")
    body = _stmts(fn.body)
    zero, i = set(), 0
    while i < len(body) and _assign(body[i]) and _name(_assign(body[i])[0]) and _name(_assign(body[i])[1]) == "ZERO":
        zero.add(_assign(body[i])[0].id)
        i += 1
    if len(body) != i + 2 or not isinstance(body[i], ast.For) or not isinstance(body[i + 1], ast.Return):
        raise Unrecognised("_compute_price_per_unit body")
    loop = body[i]
    if _name(loop.iter) != params[0] or loop.orelse or not isinstance(loop.target, ast.Name):
        raise Unrecognised("_compute_price_per_unit loop")
    aliases, cut, adds = {loop.target.id}, None, {}
    for s in _stmts(loop.body):
        n = _alias_stmt(s, aliases)
        if n is not None:
            aliases.add(n)
            continue
        c = _cut_stmt(s, aliases, "timestamp", "to_date")
        if c is not None:
            if adds or cut is not None:
                raise Unrecognised("_compute_price_per_unit: cut is not at the head of the loop body")
            cut = c
            continue
        if (isinstance(s, ast.AugAssign) and isinstance(s.op, ast.Add) and _name(s.target) in zero and s.target.id not in adds
                and isinstance(s.value, ast.Attribute) and _name(s.value.value) in aliases):
            adds[s.target.id] = s.value.attr
            continue
        raise Unrecognised(f"_compute_price_per_unit: `{U(s)[:80]}`")
    r = body[i + 1].value
    if not (isinstance(r, ast.IfExp) and isinstance(r.body, ast.BinOp) and isinstance(r.body.op, ast.Div)
            and _name(r.body.left) in adds and _name(r.body.right) in adds and _name(r.orelse) == "ZERO"
            and U(r.test) == f"{r.body.right.id} is not ZERO"):
        raise Unrecognised(f"_compute_price_per_unit returns `{U(r)}`")
    num, den = adds[r.body.left.id], adds[r.body.right.id]
    if len(adds) != 2 or num not in FIAT_IN or den not in TX_FIELDS["in"]:
        raise Unrecognised("_compute_price_per_unit: accumulated attributes")
    return cut, num, den


def _year_filter(fn):
    """-> {'lo': parameter name, 'hi': parameter name} (bounds on y.year, both inclusive)"""
    params = [a.arg for a in fn.args.args]
    if len(params) < 2 or fn.args.defaults or fn.args.vararg or fn.args.kwarg:
        raise Unrecognised("_filter_yearly_gain_loss_by_year signature")
    r = gen._single_return(fn)
    if not (isinstance(r, ast.ListComp) and len(r.generators) == 1 and not r.generators[0].is_async
            and _name(r.generators[0].iter) == params[0] and isinstance(r.generators[0].target, ast.Name)
            and _name(r.elt) == r.generators[0].target.id and len(r.generators[0].ifs) == 1):
        raise Unrecognised("_filter_yearly_gain_loss_by_year is not a filtering comprehension")
    y = r.elt.id
    bounds = {}

    def put(side, p):
        if p not in params[1:] or side in bounds:
            raise Unrecognised("year filter bound")
        bounds[side] = p

    def comp(t):
        if not isinstance(t, ast.Compare):
            raise Unrecognised(f"year filter `{U(t)}`")
        items = [t.left] + list(t.comparators)
        for a, op, b in zip(items, t.ops, items[1:]):
            ay, by = U(a) == f"{y}.year", U(b) == f"{y}.year"
            if ay == by:
                raise Unrecognised(f"year filter `{U(t)}`")
            if isinstance(op, ast.GtE):
                put("lo", _name(b)) if ay else put("hi", _name(a))
            elif isinstance(op, ast.LtE):
                put("hi", _name(b)) if ay else put("lo", _name(a))
            else:
                raise Unrecognised(f"year filter `{U(t)}`: strict or unknown comparison")
    t = r.generators[0].ifs[0]
    for v in (t.values if isinstance(t, ast.BoolOp) and isinstance(t.op, ast.And) else [t]):
        comp(v)
    return params, bounds


def _yearly(tree, cls):
    """-> (key components, [(YearlyGainLoss amount field, gl attribute)], cut)"""
    ygl = find_class(tree, "YearlyGainLoss")
    if _dataclass_fields(ygl) != YGL_FIELDS:
        raise Unrecognised("YearlyGainLoss fields")
    if _dataclass_fields(find_class(tree, "_YearlyGainLossId")) != ID_FIELDS:
        raise Unrecognised("_YearlyGainLossId fields")
    if _dataclass_fields(find_class(tree, "_YearlyGainLossAmounts")) != AMOUNT_FIELDS:
        raise Unrecognised("_YearlyGainLossAmounts fields")
    h = U(gen._single_return(find_method(ygl, "__hash__")))
    if h != "hash((self.year, self.asset, self.transaction_type, self.is_long_term_capital_gains))":
        raise Unrecognised("YearlyGainLoss.__hash__")
    crit = None
    for n in tree.body:
        if isinstance(n, ast.FunctionDef) and n.name == "_yearly_gain_loss_sort_criteria":
            crit = U(gen._single_return(n))
    if crit != ast.unparse(ast.parse(SORT_CRITERIA, mode="eval").body):
        raise Unrecognised("_yearly_gain_loss_sort_criteria")

    fn = find_method(cls, "_create_yearly_gain_loss_list")
    params = [a.arg for a in fn.args.args]
    if params not in (["unfiltered_gain_loss_set", "to_date"], ["unfiltered_gain_loss_set"]):
        raise Unrecognised("_create_yearly_gain_loss_list signature")
    if len(params) == 2 and [U(d) for d in fn.args.defaults] != ["MAX_DATE"]:
        raise Unrecognised("_create_yearly_gain_loss_list: default of to_date")
    body = _stmts(fn.body)
    loops = [s for s in body if isinstance(s, ast.For)]
    if len(loops) != 2:
        raise Unrecognised("_create_yearly_gain_loss_list: expected the accumulation loop and the construction loop")
    l1, l2 = loops
    i1, i2 = body.index(l1), body.index(l2)
    pre = body[:i1]
    if len(pre) != 1 or not _assign(pre[0]) or not _name(_assign(pre[0])[0]) or U(_assign(pre[0])[1]) != "{}":
        raise Unrecognised("_create_yearly_gain_loss_list: statements before the accumulation loop")
    summ = _assign(pre[0])[0].id
    # ---- accumulation loop
    if _name(l1.iter) != params[0] or l1.orelse or not isinstance(l1.target, ast.Name):
        raise Unrecognised("accumulation loop header")
    aliases, cut, key_var, value_var, key, local, acc = {l1.target.id}, None, None, None, None, {}, None
    for s in _stmts(l1.body):
        n = _alias_stmt(s, aliases)
        if n is not None:
            aliases.add(n)
            continue
        c = _cut_stmt(s, aliases, "taxable_event.timestamp", "to_date") if len(params) == 2 else None
        if c is not None:
            if cut is not None or key_var or value_var or local or acc:
                raise Unrecognised("yearly to-date cut is not at the head of the loop body")
            cut = c
            continue
        a = _assign(s)
        if a is None:
            raise Unrecognised(f"accumulation loop: `{U(s)[:80]}`")
        tgt, val = a
        if isinstance(val, ast.Call) and _name(val.func) == "_YearlyGainLossId" and _name(tgt) and key_var is None and acc is None:
            key_var = tgt.id
            args = _ctor_args(val, ID_FIELDS, "_YearlyGainLossId")
            key = []
            want = {"year": ("taxable_event.timestamp.year", "YK_event_local_year"), "asset": ("asset", "YK_asset"),
                    "transaction_type": ("taxable_event.transaction_type", "YK_event_type"),
                    "is_long_term_capital_gains": ("is_long_term_capital_gains()", "YK_is_long")}
            for f in ID_FIELDS:
                src = U(args[f])
                if not any(src == f"{al}.{want[f][0]}" for al in aliases):
                    raise Unrecognised(f"yearly key component {f} = `{src}`")
                key.append(want[f][1])
            continue
        if (isinstance(val, ast.Call) and isinstance(val.func, ast.Attribute) and val.func.attr == "setdefault" and _name(val.func.value) == summ
                and _name(tgt) and value_var is None and key_var and len(val.args) == 2 and _name(val.args[0]) == key_var
                and U(val.args[1]) == "_YearlyGainLossAmounts(ZERO, ZERO, ZERO, ZERO)"):
            value_var = tgt.id
            continue
        if _name(tgt) and value_var and acc is None and isinstance(val, ast.BinOp):
            local[tgt.id] = val
            continue
        if (isinstance(tgt, ast.Subscript) and _name(tgt.value) == summ and _name(tgt.slice) == key_var and value_var and acc is None
                and isinstance(val, ast.Call) and _name(val.func) == "_YearlyGainLossAmounts"):
            args = _ctor_args(val, AMOUNT_FIELDS, "_YearlyGainLossAmounts")
            acc = {}
            for f in AMOUNT_FIELDS:
                e = args[f]
                if _name(e) in local:
                    e = local[e.id]
                if not (isinstance(e, ast.BinOp) and isinstance(e.op, ast.Add) and U(e.left) == f"{value_var}.{f}"
                        and isinstance(e.right, ast.Attribute) and _name(e.right.value) in aliases and e.right.attr in GL_FIELDS):
                    raise Unrecognised(f"yearly amount {f} = `{U(e)}`")
                acc[f] = GL_FIELDS[e.right.attr]
            continue
        raise Unrecognised(f"accumulation loop: `{U(s)[:80]}`")
    if key is None or acc is None:
        raise Unrecognised("accumulation loop: key or amounts not found")
    # ---- construction loop and return
    mid = body[i1 + 1:i2]
    if not mid or not _assign(mid[0]) or U(_assign(mid[0])[1]) != "set()" or not _name(_assign(mid[0])[0]):
        raise Unrecognised("yearly: result set")
    rset = _assign(mid[0])[0].id
    totals = set()
    for s in mid[1:]:
        a = _assign(s)
        if a is None or not _name(a[0]) or _name(a[1]) != "ZERO":
            raise Unrecognised(f"yearly: `{U(s)[:80]}`")
        totals.add(a[0].id)
    it = l2.iter
    if not (isinstance(it, ast.Call) and U(it) == f"{summ}.items()" and isinstance(l2.target, ast.Tuple) and len(l2.target.elts) == 2
            and all(isinstance(e, ast.Name) for e in l2.target.elts) and not l2.orelse):
        raise Unrecognised("construction loop header")
    k2, v2 = (e.id for e in l2.target.elts)
    b2 = _stmts(l2.body)
    a = _assign(b2[0]) if b2 else None
    if a is None or not _name(a[0]) or not (isinstance(a[1], ast.Call) and _name(a[1].func) == "YearlyGainLoss"):
        raise Unrecognised("construction loop: YearlyGainLoss(...)")
    yv = a[0].id
    args = _ctor_args(a[1], YGL_FIELDS, "YearlyGainLoss")
    for f in ID_FIELDS:
        if U(args[f]) != f"{k2}.{f}":
            raise Unrecognised(f"YearlyGainLoss({f}=`{U(args[f])}`)")
    amounts = []
    for f in AMOUNT_FIELDS:
        v = args[f]
        if not (isinstance(v, ast.Attribute) and _name(v.value) == v2 and v.attr in acc):
            raise Unrecognised(f"YearlyGainLoss({f}=`{U(v)}`)")
        amounts.append((Y_OF_FIELD[f], acc[v.attr]))
    if len(b2) < 2 or U(b2[1]) != f"{rset}.add({yv})":
        raise Unrecognised("construction loop: add")
    for s in b2[2:]:      # grand totals that are never read
        if not (isinstance(s, ast.AugAssign) and _name(s.target) in totals and isinstance(s.value, ast.Attribute) and _name(s.value.value) == yv):
            raise Unrecognised(f"construction loop: `{U(s)[:80]}`")
    tail = body[i2 + 1:]
    if [U(s) for s in tail] != [f"return list(sorted({rset}, key=_yearly_gain_loss_sort_criteria, reverse=True))"]:
        raise Unrecognised("yearly: return")
    return key, amounts, cut, len(params) == 2


def _duplicate(repo):
    tree = gen.parse(repo, "abstract_entry_set.py")
    cls = find_class(tree, "AbstractEntrySet")
    fn = find_method(cls, "duplicate")
    body = [U(s) for s in _stmts(fn.body)]
    if [a.arg for a in fn.args.args] != ["self", "from_date", "to_date"]:
        raise Unrecognised("duplicate signature")
    head, tail = ["result: AbstractEntrySetSubclass = copy(self)", "result._from_date = from_date", "result._to_date = to_date"], ["return result"]
    if body[:3] != head or body[-1:] != tail or len(body) != 5 or body[3] not in ("result._force_sort()", "result._check_sort()"):
        raise Unrecognised("duplicate body")
    if [U(s) for s in _stmts(find_method(cls, "_force_sort").body)] != ["self.__is_sorted = False", "self._check_sort()"]:
        raise Unrecognised("_force_sort body")
    chk = [U(s) for s in _stmts(find_method(cls, "_check_sort").body)]
    if chk != ["if not self.__is_sorted:\n    self._sort_entries()\n    self.__is_sorted = True"]:
        raise Unrecognised("_check_sort body")
    return body[3] == "result._force_sort()"


def _deductions(repo):
    out = []
    for mod, cname, rec, pre, fields in (
            ("in_transaction.py", "InTransaction", "intx", "i", ["crypto_in", "crypto_fee"]),
            ("out_transaction.py", "OutTransaction", "outtx", "o", ["crypto_out_no_fee", "crypto_fee", "crypto_out_with_fee"]),
            ("intra_transaction.py", "IntraTransaction", "intratx", "x", ["crypto_sent", "crypto_received", "crypto_fee"])):
        cls = find_class(gen.parse(repo, mod), cname)
        env = {}
        for f in fields:
            env[f"self.{f}"] = (f"({pre}_{f} t)", "grid")
            env[f"self.__{f}"] = (f"({pre}_{f} t)", "grid")
        kind = {"i": "in", "o": "out", "x": "intra"}[pre]
        out.append(f"Definition gen_{kind}_crypto_deduction (t : {rec}) : Z := " + gen._method(cls, "crypto_deduction", env, "grid") + ".")
    return "\n".join(out) + "\n"


# --------------------------------------------------------------------------------------------- ComputedData.__init__
def frag_computed(repo):
    tree = gen.parse(repo, "computed_data.py")
    cls = find_class(tree, "ComputedData")
    for prop, attr in VIEW_PROPS.items():
        if U(gen._single_return(find_method(cls, prop))) != f"self.{attr}":
            raise Unrecognised(f"property {prop}")
    run_dict = {}        # dictionary attribute -> (kind, coq name)
    for g, kind, coq in RUN_GETTERS:
        fn = find_method(cls, g)
        p = [a.arg for a in fn.args.args]
        body = _stmts(fn.body)
        r = body[-1] if body else None
        if not (len(p) == 2 and len(body) == 2 and isinstance(body[0], ast.Expr) and U(body[0].value.func).endswith(".type_check")
                and isinstance(r, ast.Return) and isinstance(r.value, ast.Subscript) and _self_attr(r.value.value)
                and _name(r.value.slice) == p[1]):
            raise Unrecognised(f"getter {g}")
        d = _self_attr(r.value.value)
        if d in run_dict:
            raise Unrecognised(f"two getters read `{d}`")
        run_dict[d] = (kind, coq)
    fn = find_method(cls, "get_in_lot_sold_percentage")
    body = _stmts(fn.body)
    r = body[-1].value if body and isinstance(body[-1], ast.Return) else None
    p = [a.arg for a in fn.args.args]
    if not (len(p) == 2 and isinstance(r, ast.IfExp) and isinstance(r.body, ast.Subscript) and _self_attr(r.body.value)
            and U(r) == f"self.{_self_attr(r.body.value)}[{p[1]}] if {p[1]} in self.{_self_attr(r.body.value)} else ZERO"):
        raise Unrecognised("getter get_in_lot_sold_percentage")
    sold_dict = _self_attr(r.body.value)

    ppu_cut, ppu_num, ppu_den = _price_per_unit(find_method(cls, "_compute_price_per_unit"))
    fparams, fbounds = _year_filter(find_method(cls, "_filter_yearly_gain_loss_by_year"))
    ykey, yamounts, ycut, y_has_to = _yearly(tree, cls)
    force = _duplicate(repo)

    init = find_method(cls, "__init__")
    if [a.arg for a in init.args.args] != ["self", "asset", "unfiltered_taxable_event_set", "unfiltered_gain_loss_set", "input_data",
                                           "from_date", "to_date"] or [U(d) for d in init.args.defaults] != ["MIN_DATE", "MAX_DATE"]:
        raise Unrecognised("ComputedData.__init__ signature")
    sets = {"unfiltered_gain_loss_set": ("gl", "LS_unfiltered")}
    for k in ("in", "out", "intra"):
        sets[f"input_data.unfiltered_{k}_transaction_set"] = (k, "LS_unfiltered")
        sets[f"input_data.filtered_{k}_transaction_set"] = (k, "LS_filtered")
    zero, empty = set(), set()
    seen = {}            # event -> position
    runs, sold, yearly_src, yfilter, ppu_src = {}, None, None, None, None
    DUP = "{}.duplicate(from_date=from_date, to_date=to_date)"
    for pos, s in enumerate(_stmts(init.body)):
        if isinstance(s, ast.Expr) and isinstance(s.value, ast.Call) and U(s.value.func).endswith(".type_check"):
            continue
        if isinstance(s, ast.If):
            if U(s.test) in GUARDS and not s.orelse and len(s.body) == 1 and isinstance(s.body[0], ast.Raise):
                continue
            raise Unrecognised(f"__init__: `if {U(s.test)[:80]}`")
        if isinstance(s, ast.For):
            src = sets.get(U(s.iter))
            if src is None:
                raise Unrecognised(f"__init__: loop over `{U(s.iter)}`")
            lp = Loop(s, src[0], zero)
            for acc in lp.adds:
                zero.discard(acc)
            for d, field in lp.stores.items():
                if d not in run_dict or d not in empty or run_dict[d][1] in runs or run_dict[d][0] != src[0]:
                    raise Unrecognised(f"__init__: running sum stored in `self.{d}`")
                runs[run_dict[d][1]] = f"({src[1]}, {coq_opt_bool(lp.cut)}, CF_{field})"
                empty.discard(d)
            if lp.sold is not None:
                if lp.sold[0] != sold_dict or sold_dict not in empty or sold is not None:
                    raise Unrecognised("__init__: sold-percentage dictionary")
                sold = (src[1], lp.cut, lp.skip or [], lp.sold[1])
                empty.discard(sold_dict)
            elif lp.skip is not None:
                raise Unrecognised("__init__: skip test without a sold-percentage update")
            continue
        a = _assign(s)
        if a is None:
            raise Unrecognised(f"__init__: `{U(s)[:80]}`")
        tgt, val = a
        ts, vs = U(tgt), U(val)
        if ts == "self.__asset" and vs == "Configuration.type_check_string('asset', asset)":
            continue
        if ts == "self.__filtered_taxable_event_set" and vs == DUP.format("unfiltered_taxable_event_set") and "dup_ev" not in seen:
            seen["dup_ev"] = pos
            continue
        if ts == "self.__filtered_gain_loss_set" and vs == DUP.format("unfiltered_gain_loss_set") and "dup_gl" not in seen:
            seen["dup_gl"] = pos
            sets["self.__filtered_gain_loss_set"] = ("gl", "LS_filtered")
            continue
        if (ts == "yearly_gain_loss_list" and isinstance(val, ast.Call) and U(val.func) == "self._create_yearly_gain_loss_list"
                and not val.keywords and "yearly" not in seen):
            want = [["to_date"], []] if y_has_to else [[]]
            if not val.args or [U(x) for x in val.args[1:]] not in want:
                raise Unrecognised(f"__init__: `{vs}`")
            src = sets.get(U(val.args[0]))
            if src is None or src[0] != "gl":
                raise Unrecognised(f"__init__: yearly summary of `{U(val.args[0])}`")
            yearly_src = (src[1], ycut if len(val.args) == 2 else None)
            seen["yearly"] = pos
            continue
        if (ts == "self.__filtered_yearly_gain_loss_list" and isinstance(val, ast.Call) and U(val.func) == "self._filter_yearly_gain_loss_by_year"
                and not val.keywords and "yearly" in seen and yfilter is None and len(val.args) == len(fparams)
                and U(val.args[0]) == "yearly_gain_loss_list"):
            bind = dict(zip(fparams[1:], [U(x) for x in val.args[1:]]))
            yfilter = []
            if "lo" in fbounds:
                if bind[fbounds["lo"]] != "from_date.year":
                    raise Unrecognised("year filter: lower bound")
                yfilter.append("YFL_ge_from_year")
            if "hi" in fbounds:
                if bind[fbounds["hi"]] != "to_date.year":
                    raise Unrecognised("year filter: upper bound")
                yfilter.append("YFL_le_to_year")
            continue
        m = [k for k in ("in", "out", "intra") if ts == f"self.__filtered_{k}_transaction_set"]
        if m and vs == f"input_data.filtered_{m[0]}_transaction_set" and ts not in sets:
            sets[ts] = (m[0], "LS_filtered")
            continue
        if ts == "self.__filtered_balance_set" and vs == "BalanceSet(unfiltered_taxable_event_set.configuration, input_data, to_date)":
            seen["balance"] = pos
            continue
        if (ts == "self.__filtered_price_per_unit" and isinstance(val, ast.Call) and U(val.func) == "self._compute_price_per_unit"
                and not val.keywords and len(val.args) == 2 and U(val.args[1]) == "to_date" and ppu_src is None):
            src = sets.get(U(val.args[0]))
            if src is None or src[0] != "in":
                raise Unrecognised(f"__init__: price per unit of `{U(val.args[0])}`")
            ppu_src = src[1]
            continue
        d = _self_attr(tgt)
        if d and vs == "{}" and (d in run_dict or d == sold_dict) and d not in empty and d not in seen:
            empty.add(d)
            seen[d] = pos
            continue
        if _name(tgt) and vs == "ZERO":
            zero.add(tgt.id)
            continue
        raise Unrecognised(f"__init__: `{U(s)[:100]}`")
    need = [c for _, _, c in RUN_GETTERS]
    if sorted(runs) != sorted(need) or sold is None or yearly_src is None or yfilter is None or ppu_src is None:
        raise Unrecognised("__init__: a running sum, the sold percentage, the yearly summary or the price per unit is missing")
    if not {"dup_ev", "dup_gl", "balance"} <= set(seen):
        raise Unrecognised("__init__: filtered views / balance set missing")
    dup_first = max(seen["dup_ev"], seen["dup_gl"]) < seen["yearly"]

    s = TYPES
    s += "(* running sums behind get_crypto_*_running_sum *)\n"
    for c in need:
        s += f"Definition {c} : cd_run := {runs[c]}.\n"
    s += "(* _create_yearly_gain_loss_list as called by __init__, _filter_yearly_gain_loss_by_year *)\n"
    s += f"Definition gen_yearly_source : cd_loop_set := {yearly_src[0]}.\n"
    s += f"Definition gen_yearly_cut : option bool := {coq_opt_bool(yearly_src[1]).strip('()')}.\n"
    s += f"Definition gen_yearly_key : list yk_comp := {gen.coq_list(ykey)}.\n"
    s += "Definition gen_yearly_acc : list (y_field * gl_field) := " + gen.coq_list([f"({a}, {b})" for a, b in yamounts]) + ".\n"
    s += f"Definition gen_yearly_filter : list y_filter := {gen.coq_list(yfilter)}.\n"
    s += "(* sold percentage per lot (get_in_lot_sold_percentage) *)\n"
    s += f"Definition gen_sold_source : cd_loop_set := {sold[0]}.\n"
    s += f"Definition gen_sold_cut : option bool := {coq_opt_bool(sold[1]).strip('()')}.\n"
    s += f"Definition gen_sold_skip : list sold_skip := {gen.coq_list(sold[2])}.\n"
    s += f"Definition gen_sold_field : gl_field := {sold[3]}.\n"
    s += "(* _compute_price_per_unit as called by __init__ *)\n"
    s += f"Definition gen_ppu_source : cd_loop_set := {ppu_src}.\n"
    s += f"Definition gen_ppu_cut : option bool := {coq_opt_bool(ppu_cut).strip('()')}.\n"
    s += f"Definition gen_ppu_num : cd_fiat_field := CFF_{ppu_num}.\n"
    s += f"Definition gen_ppu_den : cd_field := CF_{ppu_den}.\n"
    s += "(* order / re-sort: see Proofs/ComputedGenProofs.v code_duplicate_* *)\n"
    s += f"Definition gen_cd_duplicate_before_yearly : bool := {'true' if dup_first else 'false'}.\n"
    s += f"Definition gen_duplicate_force_sorts : bool := {'true' if force else 'false'}.\n"
    s += _deductions(repo)
    return s
