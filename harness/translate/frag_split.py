"""Translator fragment `split`: the crypto-fee split of an IN row,
ods_parser._create_and_process_transaction, read as DATA:

  * the guard of the `if` as a boolean expression over named predicates
    (isinstance(transaction, <class>), transaction.is_crypto_fee_defined, transaction.is_taxable(),
    transaction.is_earning());  InTransaction.is_crypto_fee_defined itself is translated (single expression);
  * the keyword-argument map of the re-created InTransaction(...) and of the artificial OutTransaction(...):
    for every constructor parameter where its value comes from (type `ssrc` below).  The maps are emitted
    sorted by parameter name: Python keyword arguments are order-insensitive, so is the table;
  * the container each derived transaction goes to, and the container of the else-branch (which must add
    the unchanged `transaction`).

Model/SplitGen.v interprets the table, Proofs/SplitGenProofs.v proves that the interpretation is the hand-written
Parser.split_in / Parser.fee_out / the guard and destinations of Parser.data_row, for the table of the CURRENT source.

Fail-closed: any other statement, keyword, or expression form raises Unrecognised (-> accepted fallback, status
`fallback(...)`).  A few behaviour-preserving or behaviour-changing rewrites are still *representable* (they then
change the table instead of hiding behind the fallback):
  - `**d` where d is a local dict display with constant string keys (expanded),
  - a local variable assigned once to a side-effect-free recognised expression (inlined),
  - `str(transaction.timestamp)` (same as f"{transaction.timestamp}"),
  - `transaction.timestamp.strftime(<constant format without %f>)` (token STsNoSubsec: drops the sub-second part),
  - a value that is an additional parameter of the function (token SOtherParam)."""
import ast

from . import gen
from .expr import Unrecognised, find_class, find_method, dotted, Translator

FUNC = "_create_and_process_transaction"
PARAMS = ["configuration", "row_values", "current_table_type", "internal_id", "unfiltered_transaction_sets",
          "artificial_transaction_list"]
CALL_ARGS = {"configuration": "configuration", "row_values": "row_values", "current_table_type": "current_table_type",
             "internal_id": "i + 1", "unfiltered_transaction_sets": "unfiltered_transaction_sets",
             "artificial_transaction_list": "artificial_transaction_list"}

ATTRS = ["asset", "exchange", "holder", "spot_price", "crypto_in", "crypto_fee", "fiat_in_no_fee", "fiat_in_with_fee",
         "fiat_fee", "unique_id", "notes"]
KEYS = ["configuration", "timestamp", "asset", "exchange", "holder", "transaction_type", "spot_price", "crypto_in",
        "crypto_fee", "fiat_in_no_fee", "fiat_in_with_fee", "fiat_fee", "row", "unique_id", "notes", "from_lot",
        "crypto_out_no_fee", "crypto_out_with_fee", "fiat_out_no_fee"]
CLASSES = {"InTransaction": "CIn", "OutTransaction": "COut", "IntraTransaction": "CIntra"}
SETS = {"EntrySetType.IN": "DIn", "EntrySetType.OUT": "DOut", "EntrySetType.INTRA": "DIntra", "current_table_type": "DCurrent"}

TYPES = (
    "(* ods_parser._create_and_process_transaction as data: where every constructor argument of the two derived\n"
    "   transactions comes from, the guard of the split, the containers.  Interpreted by Model/SplitGen.v. *)\n"
    "Inductive sattr := " + " | ".join("A_" + a for a in ATTRS) + ".\n"
    "Inductive ssrc := SConfiguration | STsStr | STsNoSubsec | SAttr (a : sattr) | STypeValue | SConstType (t : ttype)\n"
    "  | SNone | SZero | SInternalId | SNewArtificialId | SNotes | SOtherParam.\n"
    "Inductive skey := " + " | ".join("K_" + k for k in KEYS) + ".\n"
    "Inductive sclass := CIn | COut | CIntra.\n"
    "Inductive spred := PFeeDefined | PIsTaxable | PIsEarning.\n"
    "Inductive sguard := GIs (c : sclass) | GPred (p : spred) | GAnd (a b : sguard) | GOr (a b : sguard) | GNot (a : sguard).\n"
    "Inductive sset := DIn | DOut | DIntra | DCurrent.\n"
    "Inductive sdest := DSet (s : sset) | DArtificial.\n"
)


def _stmts(body):
    return [s for s in body if not Translator.is_noise(s)]


def _func(tree, name):
    fs = [n for n in tree.body if isinstance(n, ast.FunctionDef) and n.name == name]
    if len(fs) != 1:
        raise Unrecognised(f"{name}: expected exactly one definition")
    return fs[0]


# ---------------------------------------------------------------- guard
def _guard(node):
    if isinstance(node, ast.BoolOp):
        op = "GAnd" if isinstance(node.op, ast.And) else "GOr"
        vals = [_guard(v) for v in node.values]
        acc = vals[0]
        for v in vals[1:]:
            acc = f"({op} {acc} {v})"
        return acc
    if isinstance(node, ast.UnaryOp) and isinstance(node.op, ast.Not):
        return f"(GNot {_guard(node.operand)})"
    if isinstance(node, ast.Call) and isinstance(node.func, ast.Name) and node.func.id == "isinstance":
        if (len(node.args) == 2 and not node.keywords and dotted(node.args[0]) == "transaction"
                and isinstance(node.args[1], ast.Name) and node.args[1].id in CLASSES):
            return f"(GIs {CLASSES[node.args[1].id]})"
        raise Unrecognised("guard: isinstance form")
    p = dotted(node)
    if p == "transaction.is_crypto_fee_defined":
        return "(GPred PFeeDefined)"
    if p == "transaction.is_taxable()":
        return "(GPred PIsTaxable)"
    if p == "transaction.is_earning()":
        return "(GPred PIsEarning)"
    raise Unrecognised("guard: " + ast.unparse(node)[:80])


# ---------------------------------------------------------------- values
_TEXT_NODES = (ast.JoinedStr, ast.FormattedValue, ast.Constant, ast.IfExp, ast.Name, ast.Attribute, ast.BinOp, ast.Add,
               ast.Load)


def _is_text(node):
    """a side-effect-free string-building expression (the notes are not modelled: one token)"""
    for n in ast.walk(node):
        if not isinstance(n, _TEXT_NODES):
            return False
        if isinstance(n, ast.Constant) and not (isinstance(n.value, str) or n.value is None):
            return False
    return True


class _Ctx:
    def __init__(self, extra_params, module_strs):
        self.extra_params = extra_params
        self.module_strs = module_strs     # module-level NAME = "constant string"
        self.locals = {}                   # name -> ast expr (assigned once, side-effect free)
        self.dicts = {}                    # name -> ast.Dict

    def value(self, node, key, depth=0):
        if depth > 4:
            raise Unrecognised("local variables nested too deep")
        if key == "notes":
            if _is_text(node):
                return "SNotes"
            raise Unrecognised("notes expression")
        if isinstance(node, ast.Constant) and node.value is None:
            return "SNone"
        if isinstance(node, ast.Name):
            if node.id in self.locals:
                v = self.value(self.locals[node.id], key, depth + 1)
                if v == "SNewArtificialId":
                    raise Unrecognised("artificial id drawn into a local variable")
                return v
            if node.id == "configuration":
                return "SConfiguration"
            if node.id == "internal_id":
                return "SInternalId"
            if node.id == "ZERO":
                return "SZero"
            if node.id in self.extra_params:
                return "SOtherParam"
            raise Unrecognised(f"value: name {node.id}")
        if isinstance(node, ast.JoinedStr):
            if (len(node.values) == 1 and isinstance(node.values[0], ast.FormattedValue) and node.values[0].conversion == -1
                    and node.values[0].format_spec is None and dotted(node.values[0].value) == "transaction.timestamp"):
                return "STsStr"
            raise Unrecognised("value: f-string")
        if isinstance(node, ast.Call):
            if dotted(node) == "configuration.get_new_artificial_id()":
                return "SNewArtificialId"
            if (isinstance(node.func, ast.Name) and node.func.id == "str" and len(node.args) == 1 and not node.keywords
                    and dotted(node.args[0]) == "transaction.timestamp"):
                return "STsStr"
            if (isinstance(node.func, ast.Attribute) and node.func.attr == "strftime" and dotted(node.func.value) == "transaction.timestamp"
                    and len(node.args) == 1 and not node.keywords):
                a = node.args[0]
                fmt = None
                if isinstance(a, ast.Constant) and isinstance(a.value, str):
                    fmt = a.value
                elif isinstance(a, ast.Name) and a.id in self.module_strs:
                    fmt = self.module_strs[a.id]
                if fmt is not None and "%f" not in fmt:
                    return "STsNoSubsec"
                raise Unrecognised("value: strftime format")
            raise Unrecognised("value: call " + ast.unparse(node)[:60])
        p = dotted(node)
        if p is not None:
            if p == "transaction.transaction_type.value":
                return "STypeValue"
            parts = p.split(".")
            if len(parts) == 3 and parts[0] == "TransactionType" and parts[2] == "value" and parts[1] in gen.TTYPES:
                return f"(SConstType {parts[1]})"
            if len(parts) == 2 and parts[0] == "transaction" and parts[1] in ATTRS:
                return f"(SAttr A_{parts[1]})"
        raise Unrecognised("value: " + ast.unparse(node)[:60])


def _ctor_param_names(repo, rel, cname):
    init = find_method(find_class(gen.parse(repo, rel), cname), "__init__")
    a = init.args
    if a.vararg or a.kwarg or a.kwonlyargs or a.posonlyargs:
        raise Unrecognised(f"{cname}.__init__ signature shape")
    return [p.arg for p in a.args if p.arg != "self"]


def _ctor_call(call, ctx, allowed):
    """InTransaction(...) / OutTransaction(...) with keyword arguments only -> {key: src}"""
    if call.args:
        raise Unrecognised("constructor called with positional arguments")
    out = {}

    def put(k, v):
        if k in out:
            raise Unrecognised(f"keyword {k} given twice")
        if k not in allowed or k not in KEYS:
            raise Unrecognised(f"unknown keyword {k}")
        out[k] = ctx.value(v, k)
    for kw in call.keywords:
        if kw.arg is None:
            if not (isinstance(kw.value, ast.Name) and kw.value.id in ctx.dicts):
                raise Unrecognised("** of something that is not a local dict display")
            d = ctx.dicts[kw.value.id]
            for k, v in zip(d.keys, d.values):
                if not (isinstance(k, ast.Constant) and isinstance(k.value, str)):
                    raise Unrecognised("dict display key")
                put(k.value, v)
        else:
            put(kw.arg, kw.value)
    return out


def _dest(node):
    """unfiltered_transaction_sets[<set>].add_entry / artificial_transaction_list.append -> sdest"""
    if not isinstance(node, ast.Attribute):
        raise Unrecognised("container")
    if node.attr == "append" and dotted(node.value) == "artificial_transaction_list":
        return "DArtificial"
    if node.attr == "add_entry" and isinstance(node.value, ast.Subscript) and dotted(node.value.value) == "unfiltered_transaction_sets":
        k = dotted(node.value.slice)
        if k in SETS:
            return f"(DSet {SETS[k]})"
    raise Unrecognised("container: " + ast.unparse(node)[:80])


def _table(m):
    return "[" + "; ".join(f"(K_{k}, {m[k]})" for k in sorted(m)) + "]"


def frag_split(repo):
    ods = gen.parse(repo, "ods_parser.py")
    fn = _func(ods, FUNC)
    a = fn.args
    if a.vararg or a.kwarg or a.kwonlyargs or a.posonlyargs or a.defaults:
        raise Unrecognised(f"{FUNC}: signature shape")
    params = [p.arg for p in a.args]
    if any(p not in params for p in PARAMS) or len(set(params)) != len(params):
        raise Unrecognised(f"{FUNC}: parameters")
    extra = [p for p in params if p not in PARAMS]
    if any(p in ("transaction", "notes", "ZERO") for p in extra):
        raise Unrecognised(f"{FUNC}: parameter name")
    # the single call site (parse_ods) hands over the values the model assumes: internal_id = sheet row number i + 1
    calls = [n for n in ast.walk(ods) if isinstance(n, ast.Call) and isinstance(n.func, ast.Name) and n.func.id == FUNC]
    if len(calls) != 1 or calls[0].keywords or len(calls[0].args) != len(params):
        raise Unrecognised(f"{FUNC}: call site")
    for p, arg in zip(params, calls[0].args):
        if p in CALL_ARGS and ast.unparse(arg) != CALL_ARGS[p]:
            raise Unrecognised(f"{FUNC}: call site passes {ast.unparse(arg)[:40]} for {p}")
    module_strs = {}
    for n in ods.body:
        tgt = val = None
        if isinstance(n, ast.AnnAssign) and isinstance(n.target, ast.Name):
            tgt, val = n.target.id, n.value
        elif isinstance(n, ast.Assign) and len(n.targets) == 1 and isinstance(n.targets[0], ast.Name):
            tgt, val = n.targets[0].id, n.value
        if tgt and isinstance(val, ast.Constant) and isinstance(val.value, str):
            module_strs[tgt] = val.value

    body = _stmts(fn.body)
    if len(body) != 2:
        raise Unrecognised(f"{FUNC}: expected `transaction = ...` and one if-statement")
    s0 = body[0]
    if not (isinstance(s0, (ast.Assign, ast.AnnAssign)) and s0.value is not None
            and dotted(s0.target if isinstance(s0, ast.AnnAssign) else s0.targets[0]) == "transaction"
            and ast.unparse(s0.value) == "_create_transaction(configuration, current_table_type, internal_id, row_values)"):
        raise Unrecognised(f"{FUNC}: first statement")
    branch = body[1]
    if not isinstance(branch, ast.If):
        raise Unrecognised(f"{FUNC}: second statement is not an if")
    guard = _guard(branch.test)

    # else-branch: the unchanged transaction goes to one container
    els = _stmts(branch.orelse)
    if not (len(els) == 1 and isinstance(els[0], ast.Expr) and isinstance(els[0].value, ast.Call)):
        raise Unrecognised(f"{FUNC}: else-branch")
    ec = els[0].value
    if not (len(ec.args) == 1 and not ec.keywords and dotted(ec.args[0]) == "transaction"):
        raise Unrecognised(f"{FUNC}: else-branch does not add the unchanged transaction")
    else_dest = _dest(ec.func)

    ctx = _Ctx(extra, module_strs)
    ctors = {"InTransaction": _ctor_param_names(repo, "in_transaction.py", "InTransaction"),
             "OutTransaction": _ctor_param_names(repo, "out_transaction.py", "OutTransaction")}
    found = {}
    for st in _stmts(branch.body):
        if isinstance(st, (ast.Assign, ast.AnnAssign)):
            tg = st.target if isinstance(st, ast.AnnAssign) else (st.targets[0] if len(st.targets) == 1 else None)
            if not isinstance(tg, ast.Name) or st.value is None:
                raise Unrecognised(f"{FUNC}: assignment target")
            name = tg.id
            if name == "notes":
                if not _is_text(st.value):
                    raise Unrecognised(f"{FUNC}: notes assignment")
                continue
            if name in params or name in ("transaction", "ZERO") or name in ctx.locals or name in ctx.dicts:
                raise Unrecognised(f"{FUNC}: re-assignment of {name}")
            if isinstance(st.value, ast.Dict):
                if any(k is None for k in st.value.keys):
                    raise Unrecognised("dict display with ** inside")
                ctx.dicts[name] = st.value
            else:
                ctx.locals[name] = st.value
            continue
        if not (isinstance(st, ast.Expr) and isinstance(st.value, ast.Call)):
            raise Unrecognised(f"{FUNC}: statement {type(st).__name__} in the split branch")
        c = st.value
        if not (len(c.args) == 1 and not c.keywords and isinstance(c.args[0], ast.Call) and isinstance(c.args[0].func, ast.Name)):
            raise Unrecognised(f"{FUNC}: split branch call shape")
        cname = c.args[0].func.id
        if cname not in ctors or cname in found:
            raise Unrecognised(f"{FUNC}: split branch constructs {cname}")
        found[cname] = (_ctor_call(c.args[0], ctx, ctors[cname]), _dest(c.func))
    if sorted(found) != ["InTransaction", "OutTransaction"]:
        raise Unrecognised(f"{FUNC}: split branch must build one InTransaction and one OutTransaction")
    # every local must be well-formed even if unused (a side effect hidden in an unused local is not representable)
    for name, v in ctx.locals.items():
        if not _is_text(v):
            ctx.value(v, "row")

    # InTransaction.is_crypto_fee_defined (single expression over crypto_fee)
    icls = find_class(gen.parse(repo, "in_transaction.py"), "InTransaction")
    env = {"self.crypto_fee": ("(i_crypto_fee t)", "grid"), "self.__crypto_fee": ("(i_crypto_fee t)", "grid")}
    fee_defined = gen._method(icls, "is_crypto_fee_defined", env, "bool")

    s = TYPES
    s += f"Definition gen_in_is_crypto_fee_defined (t : intx) : bool := {fee_defined}.\n"
    s += f"Definition gen_split_guard : sguard := {guard}.\n"
    s += f"Definition gen_split_in_args : list (skey * ssrc) :=\n  {_table(found['InTransaction'][0])}.\n"
    s += f"Definition gen_split_in_dest : sdest := {found['InTransaction'][1]}.\n"
    s += f"Definition gen_split_fee_args : list (skey * ssrc) :=\n  {_table(found['OutTransaction'][0])}.\n"
    s += f"Definition gen_split_fee_dest : sdest := {found['OutTransaction'][1]}.\n"
    s += f"Definition gen_split_else_dest : sdest := {else_dest}.\n"
    return s


gen.FRAGMENTS.append(("split", frag_split, None))
