"""Regenerates coq/theories/Model/Generated.v from /repo's working tree.

One recogniser per fragment; a fragment whose AST is not recognised falls back
to the accepted text committed under harness/translate/accepted/ and is
reported as `fallback(<reason>)` (the correspondence streams cover every
fragment independently, so a fallback weakens the tie, it does not cut it).
"""
import ast
import os
import sys

from .expr import Translator, Unrecognised, find_class, find_method, dotted

HERE = os.path.dirname(os.path.abspath(__file__))
ACCEPTED = os.path.join(HERE, "accepted")

TTYPES = ["AIRDROP", "BUY", "DONATE", "FEE", "GIFT", "HARDFORK", "INCOME", "INTEREST",
          "LOST", "MINING", "MOVE", "SELL", "STAKING", "WAGES"]
COUNTRIES = ["us", "es", "jp", "ie", "generic"]
METHODS = ["fifo", "lifo", "hifo", "lofo"]


def parse(repo, rel):
    with open(os.path.join(repo, "src", "rp2", rel), encoding="utf-8") as f:
        return ast.parse(f.read())


def coq_list(items):
    return "[" + "; ".join(items) + "]"


def tt_env():
    return {f"TransactionType.{t}": (t, "ttype") for t in TTYPES}


# ------------------------------------------------------------------ T1
def frag_types(repo):
    tree = parse(repo, "entry_types.py")
    cls = find_class(tree, "TransactionType")
    members = []
    for n in cls.body:
        if isinstance(n, ast.Assign) and len(n.targets) == 1 and isinstance(n.targets[0], ast.Name):
            if not (isinstance(n.value, ast.Constant) and isinstance(n.value.value, str)):
                raise Unrecognised("enum member with non-string value")
            members.append((n.targets[0].id, n.value.value))
    if [m for m, _ in members] != TTYPES:
        raise Unrecognised("TransactionType members differ from the modelled 14")
    if any(v != m.lower() for m, v in members):
        raise Unrecognised("TransactionType value is not the lower-cased name")
    earn = None
    for n in tree.body:
        tgt = None
        if isinstance(n, ast.AnnAssign) and isinstance(n.target, ast.Name):
            tgt, val = n.target.id, n.value
        elif isinstance(n, ast.Assign) and isinstance(n.targets[0], ast.Name):
            tgt, val = n.targets[0].id, n.value
        if tgt == "_transaction_type_earn_values":
            if not isinstance(val, ast.Set):
                raise Unrecognised("earn set is not a set display")
            earn = []
            for e in val.elts:
                p = dotted(e)
                if p is None or not p.startswith("TransactionType.") or p.split(".")[1] not in TTYPES:
                    raise Unrecognised("earn set element")
                earn.append(p.split(".")[1])
    if earn is None:
        raise Unrecognised("earn set not found")
    m = find_method(cls, "is_earn_type")
    ok = (len(m.body) == 1 and isinstance(m.body[0], ast.Return) and isinstance(m.body[0].value, ast.Compare)
          and isinstance(m.body[0].value.ops[0], ast.In) and dotted(m.body[0].value.left) == "self"
          and dotted(m.body[0].value.comparators[0]) == "_transaction_type_earn_values")
    if not ok:
        raise Unrecognised("is_earn_type body")
    earn = sorted(set(earn), key=TTYPES.index)
    names = "Definition ttype_value (t : ttype) : str :=\n  match t with\n"
    for m, v in members:
        names += f"  | {m} => {coq_list([str(ord(ch)) for ch in v])}\n"
    names += "  end.\n"
    return (f"Definition earn_types : list ttype := {coq_list(earn)}.\n"
            "Definition is_earn_type (t : ttype) : bool := ttype_in t earn_types.\n" + names)


def _allowed_from_init(cls, cname):
    init = find_method(cls, "__init__")
    for n in ast.walk(init):
        if not isinstance(n, ast.If) or not n.body or not isinstance(n.body[0], ast.Raise):
            continue
        t = n.test
        # form A: self.transaction_type not in (TransactionType.X, ...)
        if (isinstance(t, ast.Compare) and len(t.ops) == 1 and isinstance(t.ops[0], ast.NotIn)
                and dotted(t.left) == "self.transaction_type" and isinstance(t.comparators[0], (ast.Tuple, ast.List, ast.Set))):
            out = []
            for e in t.comparators[0].elts:
                p = dotted(e)
                if p is None or not p.startswith("TransactionType."):
                    raise Unrecognised("allowed type element")
                out.append(p.split(".")[1])
            return out, False
        # form B: self.transaction_type != X and ... and not self.transaction_type.is_earn_type()
        if isinstance(t, ast.BoolOp) and isinstance(t.op, ast.And):
            out, earn, good = [], False, True
            for v in t.values:
                if (isinstance(v, ast.Compare) and len(v.ops) == 1 and isinstance(v.ops[0], ast.NotEq)
                        and dotted(v.left) == "self.transaction_type" and (dotted(v.comparators[0]) or "").startswith("TransactionType.")):
                    out.append(dotted(v.comparators[0]).split(".")[1])
                elif (isinstance(v, ast.UnaryOp) and isinstance(v.op, ast.Not)
                      and dotted(v.operand) == "self.transaction_type.is_earn_type()"):
                    earn = True
                else:
                    good = False
            if good and out:
                return out, earn
    raise Unrecognised(f"allowed-type check of {cname} not found")


def frag_allowed(repo):
    i_cls = find_class(parse(repo, "in_transaction.py"), "InTransaction")
    o_cls = find_class(parse(repo, "out_transaction.py"), "OutTransaction")
    ia, iearn = _allowed_from_init(i_cls, "InTransaction")
    oa, oearn = _allowed_from_init(o_cls, "OutTransaction")
    for t in ia + oa:
        if t not in TTYPES:
            raise Unrecognised("unknown type in allowed list")
    ia = sorted(set(ia), key=TTYPES.index)
    oa = sorted(set(oa), key=TTYPES.index)
    s = f"Definition in_allowed_base : list ttype := {coq_list(ia)}.\n"
    s += f"Definition in_allows_earn : bool := {'true' if iearn else 'false'}.\n"
    s += "Definition in_type_allowed (t : ttype) : bool := ttype_in t in_allowed_base || (in_allows_earn && is_earn_type t).\n"
    s += f"Definition out_allowed_base : list ttype := {coq_list(oa)}.\n"
    s += f"Definition out_allows_earn : bool := {'true' if oearn else 'false'}.\n"
    s += "Definition out_type_allowed (t : ttype) : bool := ttype_in t out_allowed_base || (out_allows_earn && is_earn_type t).\n"
    return s


# ------------------------------------------------------------------ T2 transaction classes
def _coerce(res, want, tr):
    c, ty = res
    if ty == "raise":
        raise Unrecognised("method always raises")
    if ty == "zero":
        if want == "odec":
            return "(Some dzero)"
        return tr.zero_like(want)[0]
    if ty == want:
        return c
    if want == "odec" and ty in ("dec", "grid"):
        return f"(Some {tr.to_dec((c, ty))})"
    if want == "dec" and ty == "grid":
        return tr.to_dec((c, ty))
    raise Unrecognised(f"result type {ty}, wanted {want}")


def _method(cls, name, env, want, lot_mode=None):
    m = find_method(cls, name)
    tr = Translator(env, lot_mode)
    return _coerce(tr.block(m.body, want if want != "odec" else None), want, tr)


def frag_in_methods(repo):
    cls = find_class(parse(repo, "in_transaction.py"), "InTransaction")
    env = tt_env()
    fields = {"crypto_in": ("(i_crypto_in t)", "grid"), "crypto_fee": ("(i_crypto_fee t)", "grid"),
              "fiat_in_no_fee": ("(i_fiat_in_no_fee t)", "dec"), "fiat_in_with_fee": ("(i_fiat_in_with_fee t)", "dec"),
              "fiat_fee": ("(i_fiat_fee t)", "dec"), "spot_price": ("(i_spot t)", "grid")}
    for k, v in fields.items():
        env[f"self.{k}"] = v
        env[f"self.__{k}"] = v
    env["self.transaction_type"] = ("(i_type t)", "ttype")
    env["self.transaction_type.is_earn_type()"] = ("(is_earn_type (i_type t))", "bool")
    out = []
    out.append("Definition in_is_taxable (t : intx) : bool := " + _method(cls, "is_taxable", env, "bool") + ".")
    env["self.is_taxable()"] = ("(in_is_taxable t)", "bool")
    out.append("Definition in_is_earning (t : intx) : bool := " + _method(cls, "is_earning", env, "bool") + ".")
    out.append("Definition in_crypto_balance_change (t : intx) : Z := " + _method(cls, "crypto_balance_change", env, "grid") + ".")
    out.append("Definition in_fiat_taxable_amount (t : intx) : dec := " + _method(cls, "fiat_taxable_amount", env, "dec") + ".")
    out.append("Definition in_crypto_taxable_amount (t : intx) : Z := " + _method(cls, "crypto_taxable_amount", env, "grid") + ".")
    out.append("Definition in_fiat_balance_change (t : intx) : dec := " + _method(cls, "fiat_balance_change", env, "dec") + ".")
    return "\n".join(out) + "\n"


def frag_out_methods(repo):
    cls = find_class(parse(repo, "out_transaction.py"), "OutTransaction")
    env = tt_env()
    fields = {"crypto_out_no_fee": ("(o_crypto_out_no_fee t)", "grid"), "crypto_fee": ("(o_crypto_fee t)", "grid"),
              "crypto_out_with_fee": ("(o_crypto_out_with_fee t)", "grid"),
              "fiat_out_no_fee": ("(o_fiat_out_no_fee t)", "dec"), "fiat_fee": ("(o_fiat_fee t)", "dec"),
              "fiat_out_with_fee": ("(o_fiat_out_with_fee t)", "dec"), "spot_price": ("(o_spot t)", "grid")}
    for k, v in fields.items():
        env[f"self.{k}"] = v
        env[f"self.__{k}"] = v
    env["self.transaction_type"] = ("(o_type t)", "ttype")
    env["self.transaction_type.is_earn_type()"] = ("(is_earn_type (o_type t))", "bool")
    out = []
    out.append("Definition out_is_taxable (t : outtx) : bool := " + _method(cls, "is_taxable", env, "bool") + ".")
    out.append("Definition out_is_earning (t : outtx) : bool := " + _method(cls, "is_earning", env, "bool") + ".")
    out.append("Definition out_crypto_balance_change (t : outtx) : Z := " + _method(cls, "crypto_balance_change", env, "grid") + ".")
    out.append("Definition out_fiat_taxable_amount (t : outtx) : dec := " + _method(cls, "fiat_taxable_amount", env, "dec") + ".")
    out.append("Definition out_crypto_taxable_amount (t : outtx) : Z := " + _method(cls, "crypto_taxable_amount", env, "grid") + ".")
    out.append("Definition out_fiat_balance_change (t : outtx) : dec := " + _method(cls, "fiat_balance_change", env, "dec") + ".")
    return "\n".join(out) + "\n"


def frag_intra_methods(repo):
    cls = find_class(parse(repo, "intra_transaction.py"), "IntraTransaction")
    env = tt_env()
    fields = {"crypto_sent": ("(x_crypto_sent t)", "grid"), "crypto_received": ("(x_crypto_received t)", "grid"),
              "crypto_fee": ("(x_crypto_fee t)", "grid"), "fiat_fee": ("(x_fiat_fee t)", "dec"),
              "spot_price": ("(x_spot t)", "grid")}
    for k, v in fields.items():
        env[f"self.{k}"] = v
        env[f"self.__{k}"] = v
    out = []
    # is_taxable: both `return self.crypto_fee > ZERO` (grid comparison, the repair of finding F8) and `return self.fiat_fee > ZERO`
    # (13-decimal comparison of the fiat value, the rule before it) are translated by the typed comparison of expr.py; the
    # positive theorems of C03/C07/C15 go through Proofs/TransferFee.v code_intra_taxable_iff_fee, which only holds for the former
    out.append("Definition intra_is_taxable (t : intratx) : bool := " + _method(cls, "is_taxable", env, "bool") + ".")
    out.append("Definition intra_is_earning (t : intratx) : bool := " + _method(cls, "is_earning", env, "bool") + ".")
    out.append("Definition intra_crypto_balance_change (t : intratx) : Z := " + _method(cls, "crypto_balance_change", env, "grid") + ".")
    out.append("Definition intra_fiat_taxable_amount (t : intratx) : dec := " + _method(cls, "fiat_taxable_amount", env, "dec") + ".")
    out.append("Definition intra_crypto_taxable_amount (t : intratx) : Z := " + _method(cls, "crypto_taxable_amount", env, "grid") + ".")
    out.append("Definition intra_fiat_balance_change (t : intratx) : dec := " + _method(cls, "fiat_balance_change", env, "dec") + ".")
    return "\n".join(out) + "\n"


DISPATCH = """
Definition t_is_taxable (t : txn) : bool :=
  match t with TIn a => in_is_taxable a | TOut a => out_is_taxable a | TIntra a => intra_is_taxable a end.
Definition t_is_earning (t : txn) : bool :=
  match t with TIn a => in_is_earning a | TOut a => out_is_earning a | TIntra a => intra_is_earning a end.
Definition t_balance_change (t : txn) : Z :=
  match t with TIn a => in_crypto_balance_change a | TOut a => out_crypto_balance_change a | TIntra a => intra_crypto_balance_change a end.
Definition t_fiat_taxable (t : txn) : dec :=
  match t with TIn a => in_fiat_taxable_amount a | TOut a => out_fiat_taxable_amount a | TIntra a => intra_fiat_taxable_amount a end.
Definition t_crypto_taxable (t : txn) : Z :=
  match t with TIn a => in_crypto_taxable_amount a | TOut a => out_crypto_taxable_amount a | TIntra a => intra_crypto_taxable_amount a end.
Definition t_fiat_balance_change (t : txn) : dec :=
  match t with TIn a => in_fiat_balance_change a | TOut a => out_fiat_balance_change a | TIntra a => intra_fiat_balance_change a end.
"""


# ------------------------------------------------------------------ T2 gain/loss
def frag_gain_loss(repo):
    cls = find_class(parse(repo, "gain_loss.py"), "GainLoss")
    base = {
        "self.taxable_event.timestamp": ("(t_ts ev)", "ts"),
        "self.__taxable_event.timestamp": ("(t_ts ev)", "ts"),
        "self.taxable_event.is_earning()": ("(t_is_earning ev)", "bool"),
        "self.taxable_event.fiat_taxable_amount": ("(t_fiat_taxable ev)", "dec"),
        "self.taxable_event.crypto_balance_change": ("(t_balance_change ev)", "grid"),
        "self.taxable_event.crypto_taxable_amount": ("(t_crypto_taxable ev)", "grid"),
        "self.taxable_event.fiat_balance_change": ("(t_fiat_balance_change ev)", "dec"),
        "self.crypto_amount": ("amt", "grid"),
        "self.__crypto_amount": ("amt", "grid"),
        "self.acquired_lot": ("lot", "optlot"),
        "self.__acquired_lot": ("lot", "optlot"),
        "self.acquired_lot.timestamp": ("(i_ts l)", "ts"),
        "self.acquired_lot.fiat_in_with_fee": ("(i_fiat_in_with_fee l)", "dec"),
        "self.acquired_lot.fiat_in_no_fee": ("(i_fiat_in_no_fee l)", "dec"),
        "self.acquired_lot.fiat_fee": ("(i_fiat_fee l)", "dec"),
        "self.acquired_lot.crypto_balance_change": ("(in_crypto_balance_change l)", "grid"),
        "self.acquired_lot.crypto_in": ("(i_crypto_in l)", "grid"),
        "self.configuration.country.get_long_term_capital_gain_period()": ("period", "int"),
    }

    def both(name, want, env):
        none = _method(cls, name, env, want, "none")
        some = _method(cls, name, env, want, "some")
        return f"match lot with None => {none} | Some l => {some} end"

    out = []
    out.append("Definition gl_proceeds (ev : txn) (amt : Z) : option dec := "
               + _method(cls, "taxable_event_fiat_amount_with_fee_fraction", base, "odec", "some") + ".")
    out.append("Definition gl_cost_basis (ev : txn) (lot : option intx) (amt : Z) : option dec := "
               + both("fiat_cost_basis", "odec", base) + ".")
    env2 = dict(base)
    env2["self.taxable_event_fiat_amount_with_fee_fraction"] = ("(gl_proceeds ev amt)", "odec")
    env2["self.fiat_cost_basis"] = ("(gl_cost_basis ev lot amt)", "odec")
    out.append("Definition gl_gain (ev : txn) (lot : option intx) (amt : Z) : option dec := "
               + _method(cls, "fiat_gain", env2, "odec", "some") + ".")
    out.append("Definition gl_event_pct (ev : txn) (amt : Z) : option dec := "
               + _method(cls, "taxable_event_fraction_percentage", base, "odec", "some") + ".")
    out.append("Definition gl_lot_pct (ev : txn) (lot : option intx) (amt : Z) : option dec := "
               + both("acquired_lot_fraction_percentage", "odec", base) + ".")
    out.append("Definition gl_is_long (period : Z) (ev : txn) (lot : option intx) : bool := "
               + both("is_long_term_capital_gains", "bool", base) + ".")
    return "\n".join(out) + "\n"


# ------------------------------------------------------------------ T3 countries
def _single_return(m):
    body = [s for s in m.body if not Translator.is_noise(s)]
    if len(body) != 1 or not isinstance(body[0], ast.Return):
        raise Unrecognised(f"{m.name}: not a single return")
    return body[0].value


def _str_set(node):
    if isinstance(node, ast.Set) and all(isinstance(e, ast.Constant) and isinstance(e.value, str) for e in node.elts):
        return [e.value for e in node.elts]
    raise Unrecognised("not a set of string constants")


GEN_IDS = {"open_positions": "GOpenPositions", "rp2_full_report": "GFullReport", "us.tax_report_us": "GTaxUS",
           "jp.tax_report_jp": "GTaxJP", "ie.tax_report_ie": "GTaxIE"}


def frag_countries(repo):
    periods, defaults, methods, gens, langs, codes = {}, {}, {}, {}, {}, {}
    for c in COUNTRIES:
        tree = parse(repo, f"plugin/country/{c}.py")
        classes = [n for n in tree.body if isinstance(n, ast.ClassDef)]
        if len(classes) != 1:
            raise Unrecognised(f"{c}: expected one class")
        cls = classes[0]
        v = _single_return(find_method(cls, "get_long_term_capital_gain_period"))
        if isinstance(v, ast.Constant) and isinstance(v.value, int) and not isinstance(v.value, bool):
            periods[c] = str(v.value)
        elif dotted(v) == "sys.maxsize":
            periods[c] = "9223372036854775807"
        elif c == "generic" and dotted(v) == "self.__long_term_capital_gain_period":
            periods[c] = "env_period"
            _check_generic_env(cls)
        else:
            raise Unrecognised(f"{c}: long-term period expression")
        v = _single_return(find_method(cls, "get_default_accounting_method"))
        if not (isinstance(v, ast.Constant) and v.value in METHODS):
            raise Unrecognised(f"{c}: default method")
        defaults[c] = v.value
        ms = _str_set(_single_return(find_method(cls, "get_accounting_methods")))
        if any(m not in METHODS for m in ms):
            raise Unrecognised(f"{c}: unknown accounting method")
        methods[c] = sorted(set(ms), key=METHODS.index)
        gs = _str_set(_single_return(find_method(cls, "get_report_generators")))
        if any(g not in GEN_IDS for g in gs):
            raise Unrecognised(f"{c}: unknown generator")
        gens[c] = sorted(set(gs))
        v = _single_return(find_method(cls, "get_default_generation_language"))
        if not (isinstance(v, ast.Constant) and isinstance(v.value, str)):
            raise Unrecognised(f"{c}: default language")
        langs[c] = v.value
    C = {"us": "US", "es": "ES", "jp": "JP", "ie": "IE", "generic": "GENERIC"}
    M = {"fifo": "Fifo", "lifo": "Lifo", "hifo": "Hifo", "lofo": "Lofo"}

    def table(name, ty, f, extra=""):
        s = f"Definition {name} (c : country){extra} : {ty} :=\n  match c with\n"
        for c in COUNTRIES:
            s += f"  | {C[c]} => {f(c)}\n"
        return s + "  end.\n"

    def strlit(s):
        return coq_list([str(ord(ch)) for ch in s])

    s = "Inductive gen_id := GOpenPositions | GFullReport | GTaxUS | GTaxJP | GTaxIE.\n"
    s += table("country_period", "Z", lambda c: periods[c], " (env_period : Z)")
    s += table("country_default_method", "meth", lambda c: M[defaults[c]])
    s += table("country_methods", "list meth", lambda c: coq_list([M[m] for m in methods[c]]))
    s += table("country_generators", "list gen_id", lambda c: coq_list([GEN_IDS[g] for g in gens[c]]))
    s += table("country_default_language", "str", lambda c: strlit(langs[c]) + "%Z")
    return s


def _check_generic_env(cls):
    """generic.__init__: period = int(os.environ['LONG_TERM_CAPITAL_GAINS']); negative rejected."""
    init = find_method(cls, "__init__")
    src = ast.unparse(init)
    need = ["os.environ.get('LONG_TERM_CAPITAL_GAINS')", "int(long_term_capital_gain_period)",
            "self.__long_term_capital_gain_period < 0"]
    for n in need:
        if n not in src:
            raise Unrecognised(f"generic.__init__: missing `{n}`")
    # the assignment must be the plain int() conversion
    ok = False
    for n in ast.walk(init):
        if isinstance(n, ast.Assign) and dotted(n.targets[0]) == "self.__long_term_capital_gain_period":
            v = n.value
            ok = (isinstance(v, ast.Call) and isinstance(v.func, ast.Name) and v.func.id == "int"
                  and len(v.args) == 1 and isinstance(v.args[0], ast.Name) and v.args[0].id == "long_term_capital_gain_period")
    if not ok:
        raise Unrecognised("generic.__init__: period assignment")


# ------------------------------------------------------------------ T4 accounting methods
def frag_methods(repo):
    M = {"fifo": "Fifo", "lifo": "Lifo", "hifo": "Hifo", "lofo": "Lofo"}
    kinds, keys = {}, {}
    fieldmap = {"lot.spot_price": "(i_spot l)", "lot.timestamp.timestamp()": "(utc_us (i_ts l))", "lot.row": "(i_row l)"}
    for m in METHODS:
        tree = parse(repo, f"plugin/accounting_method/{m}.py")
        classes = [n for n in tree.body if isinstance(n, ast.ClassDef) and n.name == "AccountingMethod"]
        if len(classes) != 1:
            raise Unrecognised(f"{m}: AccountingMethod class")
        cls = classes[0]
        bases = [dotted(b) for b in cls.bases]
        if bases == ["AbstractChronologicalAccountingMethod"]:
            v = _single_return(find_method(cls, "lot_candidates_order"))
            p = dotted(v)
            if p == "AcquiredLotCandidatesOrder.OLDER_TO_NEWER":
                kinds[m] = "Chrono true"
            elif p == "AcquiredLotCandidatesOrder.NEWER_TO_OLDER":
                kinds[m] = "Chrono false"
            else:
                raise Unrecognised(f"{m}: lot_candidates_order")
            keys[m] = "(0, 0, 0)"
            if any(isinstance(n, ast.FunctionDef) and n.name not in ("lot_candidates_order",) for n in cls.body):
                raise Unrecognised(f"{m}: extra methods override the chronological base")
        elif bases == ["AbstractFeatureBasedAccountingMethod"]:
            kinds[m] = "Feature"
            fn = find_method(cls, "sort_key")
            if [a.arg for a in fn.args.args] != ["self", "lot"]:
                raise Unrecognised(f"{m}: sort_key signature")
            v = _single_return(fn)
            if not (isinstance(v, ast.Call) and dotted(v.func) == "AcquiredLotSortKey" and len(v.args) == 3 and not v.keywords):
                raise Unrecognised(f"{m}: sort_key is not AcquiredLotSortKey(a, b, c)")
            comps = []
            for a in v.args:
                neg = False
                if isinstance(a, ast.UnaryOp) and isinstance(a.op, ast.USub):
                    neg, a = True, a.operand
                p = dotted(a)
                if p == "ZERO" and not neg:
                    comps.append("0")
                elif p in fieldmap:
                    comps.append(f"(- {fieldmap[p]})" if neg else fieldmap[p])
                else:
                    raise Unrecognised(f"{m}: sort key component")
            keys[m] = "(" + ", ".join(comps) + ")"
            if any(isinstance(n, ast.FunctionDef) and n.name != "sort_key" for n in cls.body):
                raise Unrecognised(f"{m}: extra methods override the feature-based base")
        else:
            raise Unrecognised(f"{m}: base classes {bases}")
    s = "Inductive mkind := Chrono (older_first : bool) | Feature.\n"
    s += "Definition meth_kind (m : meth) : mkind :=\n  match m with\n"
    for m in METHODS:
        s += f"  | {M[m]} => {kinds[m]}\n"
    s += "  end.\n"
    s += "Definition meth_sort_key (m : meth) (l : intx) : Z * Z * Z :=\n  match m with\n"
    for m in METHODS:
        s += f"  | {M[m]} => {keys[m]}\n"
    s += "  end.\n"
    return s


# ------------------------------------------------------------------ T6 constants
def _module_const(tree, name):
    for n in tree.body:
        if isinstance(n, ast.AnnAssign) and isinstance(n.target, ast.Name) and n.target.id == name:
            return n.value
        if isinstance(n, ast.Assign) and isinstance(n.targets[0], ast.Name) and n.targets[0].id == name:
            return n.value
    raise Unrecognised(f"constant {name} not found")


def frag_constants(repo):
    t = parse(repo, "rp2_decimal.py")
    cd = _module_const(t, "CRYPTO_DECIMALS")
    if not (isinstance(cd, ast.Constant) and isinstance(cd.value, int)):
        raise Unrecognised("CRYPTO_DECIMALS")
    mask = ast.unparse(_module_const(t, "CRYPTO_DECIMAL_MASK"))
    if mask != "Decimal('1.' + '0' * int(CRYPTO_DECIMALS))":
        raise Unrecognised("CRYPTO_DECIMAL_MASK")
    cls = find_class(t, "RP2Decimal")
    src = ast.unparse(cls)
    prec = None
    for n in cls.body:
        if isinstance(n, ast.Assign) and ast.unparse(n.targets[0]) == "getcontext().prec":
            v = ast.unparse(n.value)
            if v == "CRYPTO_DECIMALS + 18":
                prec = cd.value + 18
            elif isinstance(n.value, ast.Constant):
                prec = n.value.value
    if prec is None:
        raise Unrecognised("decimal precision")
    traps = "getcontext().traps[FloatOperation] = True" in src
    for op, pyop in (("__eq__", "__eq__"), ("__ge__", "__ge__"), ("__gt__", "__gt__")):
        m = find_method(cls, op)
        want = f"return (self - other).quantize(CRYPTO_DECIMAL_MASK).{pyop}(ZERO)"
        if want not in ast.unparse(m):
            raise Unrecognised(f"RP2Decimal.{op}")
    if "return not self.__gt__(other)" not in ast.unparse(find_method(cls, "__le__")):
        raise Unrecognised("RP2Decimal.__le__")
    if "return not self.__ge__(other)" not in ast.unparse(find_method(cls, "__lt__")):
        raise Unrecognised("RP2Decimal.__lt__")
    if "return not self.__eq__(other)" not in ast.unparse(find_method(cls, "__ne__")):
        raise Unrecognised("RP2Decimal.__ne__")
    b = parse(repo, "balance.py")
    bm = ast.unparse(_module_const(b, "CRYPTO_BALANCE_DECIMAL_MASK"))
    if not (bm.startswith("Decimal('1.' + '0' * ") and bm.endswith(")")):
        raise Unrecognised("CRYPTO_BALANCE_DECIMAL_MASK")
    bal_digits = int(bm[len("Decimal('1.' + '0' * "):-1])
    o = open(os.path.join(repo, "src", "rp2", "ods_parser.py"), encoding="utf-8").read()
    if "RP2Decimal(f\"{value:.11f}\")" not in o:
        raise Unrecognised("ods_parser numeric conversion is not '{value:.11f}'")
    s = f"Definition gen_crypto_decimals : Z := {cd.value}.\n"
    s += f"Definition gen_prec : Z := {prec}.\n"
    s += f"Definition gen_float_trap : bool := {'true' if traps else 'false'}.\n"
    s += f"Definition gen_balance_mask_digits : Z := {bal_digits}.\n"
    s += "Definition gen_parse_decimals : Z := 11.\n"
    return s


FRAGMENTS = [
    ("types", frag_types, None),
    ("allowed", frag_allowed, None),
    ("in_methods", frag_in_methods, None),
    ("out_methods", frag_out_methods, None),
    ("intra_methods", frag_intra_methods, None),
    ("dispatch", lambda repo: DISPATCH, None),
    ("gain_loss", frag_gain_loss, None),
    ("countries", frag_countries, None),
    ("methods", frag_methods, None),
    ("constants", frag_constants, None),
]
from .frag_open_positions import FRAGMENT as _F_OPEN_POSITIONS; FRAGMENTS.append(_F_OPEN_POSITIONS)  # noqa: E402,E702

FRAGMENTS.append(("parser", lambda repo: __import__("harness.translate.frag_parser", fromlist=["frag_parser"]).frag_parser(repo), None))
from .frag_tax_report import frag_tax_report; FRAGMENTS.append(("tax_report", frag_tax_report, None))  # noqa: E402,E702  (C14)

HEADER = """(** GENERATED from /repo's working tree by harness/translate/gen.py -- do not edit. *)
From RP2V Require Import Base.Prelude Base.Time Base.Dec Model.Types.
Open Scope Z_scope.
"""


def generate(repo, extra_fragments=()):
    parts = [HEADER]
    status = {}
    for name, fn, _ in list(FRAGMENTS) + list(extra_fragments):
        acc_path = os.path.join(ACCEPTED, name + ".v")
        try:
            text = fn(repo)
            status[name] = "translated"
            if os.path.exists(acc_path):
                with open(acc_path, encoding="utf-8") as f:
                    if f.read() != text:
                        status[name] = "translated(differs-from-accepted)"
        except (Unrecognised, SyntaxError, OSError, KeyError, IndexError, AttributeError, ValueError) as exc:
            if not os.path.exists(acc_path):
                raise
            with open(acc_path, encoding="utf-8") as f:
                text = f.read()
            status[name] = f"fallback({type(exc).__name__}: {exc})"
        parts.append(f"\n(* ---- fragment: {name} [{status[name].split('(')[0]}] ---- *)\n" + text)
    return "".join(parts), status


def accept(repo):
    os.makedirs(ACCEPTED, exist_ok=True)
    for name, fn, _ in FRAGMENTS:
        text = fn(repo)
        with open(os.path.join(ACCEPTED, name + ".v"), "w", encoding="utf-8") as f:
            f.write(text)


from . import frag_jp  # noqa: E402,F401  (registers fragment jp_report: tax_report_jp.py, C20)
from . import frag_full_report  # noqa: E402,F401  (registers the full_report fragment)
from . import frag_l6  # noqa: E402,F401  (registers the L6 fragments: inventory, l6_flags, imports)
from . import frag_split  # noqa: E402,F401  (registers fragment split: ods_parser._create_and_process_transaction as a table)
from . import frag_tax_engine  # noqa: E402,F401  (registers fragment tax_engine: wiring of tax_engine.py as data)


if __name__ == "__main__":
    repo = sys.argv[2] if len(sys.argv) > 2 else "/repo"
    if sys.argv[1] == "accept":
        accept(repo)
    else:
        text, st = generate(repo)
        sys.stdout.write(text)
        sys.stderr.write(repr(st) + "\n")
