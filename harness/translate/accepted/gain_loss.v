Definition gl_proceeds (ev : txn) (amt : Z) : option dec := (odiv (dmul (t_fiat_taxable ev) (of_grid amt)) (of_grid (t_balance_change ev))).
Definition gl_cost_basis (ev : txn) (lot : option intx) (amt : Z) : option dec := match lot with None => (Some dzero) | Some l => (odiv (dmul (i_fiat_in_with_fee l) (of_grid amt)) (of_grid (in_crypto_balance_change l))) end.
Definition gl_gain (ev : txn) (lot : option intx) (amt : Z) : option dec := (olift2 dsub (gl_proceeds ev amt) (gl_cost_basis ev lot amt)).
Definition gl_event_pct (ev : txn) (amt : Z) : option dec := (odiv (of_grid amt) (of_grid (t_balance_change ev))).
Definition gl_lot_pct (ev : txn) (lot : option intx) (amt : Z) : option dec := match lot with None => (Some dzero) | Some l => (odiv (of_grid amt) (of_grid (in_crypto_balance_change l))) end.
Definition gl_is_long (period : Z) (ev : txn) (lot : option intx) : bool := match lot with None => false | Some l => (Z.geb (days_between (i_ts l) (t_ts ev)) period) end.
