Definition gen_always_repush : bool := false.
