Definition gen_always_repush : bool := true.
