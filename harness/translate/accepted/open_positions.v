Inductive op_part := OPLit (s : str) | OPRow1 | OPHdr1 | OPEnd | OPHolder | OPInputName.
Inductive op_val := OVAsset | OVHolder | OVExchange | OVBalance | OVUnit | OVCost | OVWeight
  | OVStr (s : str) | OVLabel | OVEmpty | OVFormula (ps : list op_part).
Definition gen_op_header_rows : Z := 3.
Definition gen_op_sheet_ids : list str := [[65; 115; 115; 101; 116]; [65; 115; 115; 101; 116; 32; 45; 32; 69; 120; 99; 104; 97; 110; 103; 101]; [73; 110; 112; 117; 116]].
Definition gen_op_lot_cost (l : intx) (sold_percent : dec) : dec := (dmul (i_fiat_in_with_fee l) (dsub (1, 0) sold_percent)).
Definition gen_op_lot_counts (transaction_cost_basis : dec) : bool := (dgtb transaction_cost_basis dzero).
Definition gen_op_balance_counts (final_balance : Z) : bool := (Z.gtb final_balance 0).
Definition gen_op_unit_cost (asset_cost_basis : dec) (total_crypto_balance : Z) : option dec := (odiv asset_cost_basis (of_grid total_crypto_balance)).
Definition gen_op_row_cost (balance : Z) (unit_cost_basis : dec) : dec := (dmul (of_grid balance) unit_cost_basis).
Definition gen_op_weight (row_cost total_cost_basis : dec) : option dec := (odiv row_cost total_cost_basis).
Definition gen_op_style4_min : dec := (20, -2).
Definition gen_op_style2_min : dec := (1, 0).
Definition gen_op_totals_need_more_than : Z := 1.
Definition gen_op_drop_orphans : bool := false.
Definition gen_op_hdr_asset : list (bool * bool) := [(false, true); (false, true); (true, true); (true, true); (true, true); (true, true); (true, true); (true, true); (true, true); (true, true); (true, true); (true, true)].
Definition gen_op_notes_asset : list (Z * Z) := [(0, 6)].
Definition gen_op_hdr_asset_exchange : list (bool * bool) := [(false, true); (false, true); (false, true); (true, true); (true, true); (true, true); (true, true); (true, true); (true, true); (true, true); (true, true); (true, true); (true, true)].
Definition gen_op_notes_asset_exchange : list (Z * Z) := [(0, 7)].
Definition gen_op_hdr_input : list (bool * bool) := [(true, true); (false, true)].
Definition gen_op_notes_input : list (Z * Z) := [].
Definition gen_op_row_input : list (Z * op_val) := [(0, OVAsset); (1, OVStr [69; 110; 116; 101; 114; 32; 97; 115; 115; 101; 116; 32; 118; 97; 108; 117; 101])].
Definition gen_op_row_asset : list (Z * op_val) := [(0, OVAsset); (1, OVHolder); (2, OVBalance); (3, OVUnit); (4, OVCost); (5, OVWeight); (6, OVFormula [OPLit [61; 73; 70; 40; 86; 76; 79; 79; 75; 85; 80; 40; 65]; OPRow1; OPLit [59; 36]; OPInputName; OPLit [46; 65; 58; 66; 59; 50; 59; 48; 41; 61; 34; 69; 110; 116; 101; 114; 32; 97; 115; 115; 101; 116; 32; 118; 97; 108; 117; 101; 34; 59; 34; 83; 101; 101; 32; 73; 110; 112; 117; 116; 32; 116; 97; 98; 34; 59; 86; 76; 79; 79; 75; 85; 80; 40; 65]; OPRow1; OPLit [59; 36]; OPInputName; OPLit [46; 65; 58; 66; 59; 50; 59; 48; 41]]); (7, OVFormula [OPLit [61; 67]; OPRow1; OPLit [42; 71]; OPRow1]); (8, OVFormula [OPLit [61; 72]; OPRow1; OPLit [45; 69]; OPRow1]); (9, OVFormula [OPLit [61; 40; 72]; OPRow1; OPLit [45; 69]; OPRow1; OPLit [41; 47; 69]; OPRow1])].
Definition gen_op_row_asset_exchange : list (Z * op_val) := [(0, OVAsset); (1, OVHolder); (2, OVExchange); (3, OVBalance); (4, OVUnit); (5, OVCost); (6, OVWeight); (7, OVFormula [OPLit [61; 73; 70; 40; 86; 76; 79; 79; 75; 85; 80; 40; 65]; OPRow1; OPLit [59; 36]; OPInputName; OPLit [46; 65; 58; 66; 59; 50; 59; 48; 41; 61; 34; 69; 110; 116; 101; 114; 32; 97; 115; 115; 101; 116; 32; 118; 97; 108; 117; 101; 34; 59; 34; 83; 101; 101; 32; 73; 110; 112; 117; 116; 32; 116; 97; 98; 34; 59; 86; 76; 79; 79; 75; 85; 80; 40; 65]; OPRow1; OPLit [59; 36]; OPInputName; OPLit [46; 65; 58; 66; 59; 50; 59; 48; 41]]); (8, OVFormula [OPLit [61; 68]; OPRow1; OPLit [42; 72]; OPRow1]); (9, OVFormula [OPLit [61; 73]; OPRow1; OPLit [45; 70]; OPRow1]); (10, OVFormula [OPLit [61; 40; 73]; OPRow1; OPLit [45; 70]; OPRow1; OPLit [41; 47; 70]; OPRow1])].
Definition gen_op_pct_asset : list (Z * op_val) := [(10, OVFormula [OPLit [61; 73]; OPRow1; OPLit [47; 83; 85; 77; 40; 69; 36]; OPHdr1; OPLit [58; 69; 36]; OPEnd; OPLit [41]]); (11, OVFormula [OPLit [61; 72]; OPRow1; OPLit [47; 83; 85; 77; 40; 72; 36]; OPHdr1; OPLit [58; 72; 36]; OPEnd; OPLit [41]])].
Definition gen_op_total_asset : list (Z * op_val) := [(0, OVLabel); (1, OVHolder); (2, OVEmpty); (3, OVEmpty); (4, OVFormula [OPLit [61; 83; 85; 77; 73; 70; 40; 66; 36]; OPHdr1; OPLit [58; 66; 36]; OPEnd; OPLit [59; 34]; OPHolder; OPLit [34; 59; 69; 36]; OPHdr1; OPLit [58; 69; 36]; OPEnd; OPLit [41]]); (5, OVEmpty); (6, OVEmpty); (7, OVFormula [OPLit [61; 83; 85; 77; 73; 70; 40; 66; 36]; OPHdr1; OPLit [58; 66; 36]; OPEnd; OPLit [59; 34]; OPHolder; OPLit [34; 59; 72; 36]; OPHdr1; OPLit [58; 72; 36]; OPEnd; OPLit [41]]); (8, OVFormula [OPLit [61; 83; 85; 77; 73; 70; 40; 66; 36]; OPHdr1; OPLit [58; 66; 36]; OPEnd; OPLit [59; 34]; OPHolder; OPLit [34; 59; 73; 36]; OPHdr1; OPLit [58; 73; 36]; OPEnd; OPLit [41]]); (9, OVFormula [OPLit [61; 40; 72]; OPRow1; OPLit [45; 69]; OPRow1; OPLit [41; 47; 69]; OPRow1]); (10, OVEmpty); (11, OVEmpty)].
Definition gen_op_grand_asset : list (Z * op_val) := [(0, OVLabel); (1, OVEmpty); (2, OVEmpty); (3, OVEmpty); (4, OVFormula [OPLit [61; 83; 85; 77; 40; 69; 36]; OPHdr1; OPLit [58; 69; 36]; OPEnd; OPLit [41]]); (5, OVEmpty); (6, OVEmpty); (7, OVFormula [OPLit [61; 83; 85; 77; 40; 72; 36]; OPHdr1; OPLit [58; 72; 36]; OPEnd; OPLit [41]]); (8, OVFormula [OPLit [61; 83; 85; 77; 40; 73; 36]; OPHdr1; OPLit [58; 73; 36]; OPEnd; OPLit [41]]); (9, OVFormula [OPLit [61; 40; 72]; OPRow1; OPLit [45; 69]; OPRow1; OPLit [41; 47; 69]; OPRow1]); (10, OVEmpty); (11, OVEmpty)].
Definition gen_op_pct_asset_exchange : list (Z * op_val) := [(11, OVFormula [OPLit [61; 74]; OPRow1; OPLit [47; 83; 85; 77; 40; 70; 36]; OPHdr1; OPLit [58; 70; 36]; OPEnd; OPLit [41]]); (12, OVFormula [OPLit [61; 73]; OPRow1; OPLit [47; 83; 85; 77; 40; 73; 36]; OPHdr1; OPLit [58; 73; 36]; OPEnd; OPLit [41]])].
Definition gen_op_total_asset_exchange : list (Z * op_val) := [(0, OVLabel); (1, OVHolder); (2, OVEmpty); (3, OVEmpty); (4, OVEmpty); (5, OVFormula [OPLit [61; 83; 85; 77; 73; 70; 40; 66; 36]; OPHdr1; OPLit [58; 66; 36]; OPEnd; OPLit [59; 34]; OPHolder; OPLit [34; 59; 70; 36]; OPHdr1; OPLit [58; 70; 36]; OPEnd; OPLit [41]]); (6, OVEmpty); (7, OVEmpty); (8, OVFormula [OPLit [61; 83; 85; 77; 73; 70; 40; 66; 36]; OPHdr1; OPLit [58; 66; 36]; OPEnd; OPLit [59; 34]; OPHolder; OPLit [34; 59; 73; 36]; OPHdr1; OPLit [58; 73; 36]; OPEnd; OPLit [41]]); (9, OVFormula [OPLit [61; 83; 85; 77; 73; 70; 40; 66; 36]; OPHdr1; OPLit [58; 66; 36]; OPEnd; OPLit [59; 34]; OPHolder; OPLit [34; 59; 74; 36]; OPHdr1; OPLit [58; 74; 36]; OPEnd; OPLit [41]]); (10, OVFormula [OPLit [61; 40; 73]; OPRow1; OPLit [45; 70]; OPRow1; OPLit [41; 47; 70]; OPRow1]); (11, OVEmpty); (12, OVEmpty)].
Definition gen_op_grand_asset_exchange : list (Z * op_val) := [(0, OVLabel); (1, OVEmpty); (2, OVEmpty); (3, OVEmpty); (4, OVEmpty); (5, OVFormula [OPLit [61; 83; 85; 77; 40; 70; 36]; OPHdr1; OPLit [58; 70; 36]; OPEnd; OPLit [41]]); (6, OVEmpty); (7, OVEmpty); (8, OVFormula [OPLit [61; 83; 85; 77; 40; 73; 36]; OPHdr1; OPLit [58; 73; 36]; OPEnd; OPLit [41]]); (9, OVFormula [OPLit [61; 83; 85; 77; 40; 74; 36]; OPHdr1; OPLit [58; 74; 36]; OPEnd; OPLit [41]]); (10, OVFormula [OPLit [61; 40; 73]; OPRow1; OPLit [45; 70]; OPRow1; OPLit [41; 47; 70]; OPRow1]); (11, OVEmpty); (12, OVEmpty)].
(* sheet names as gettext returns them, per language code (en es kl en_IE ja) *)
Definition gen_op_names (lang : Z) : option (str * str * str) :=
  if lang =? 0 then Some ([65; 115; 115; 101; 116], [65; 115; 115; 101; 116; 32; 45; 32; 69; 120; 99; 104; 97; 110; 103; 101], [73; 110; 112; 117; 116]) else
  if lang =? 1 then Some ([65; 99; 116; 105; 118; 111], [65; 99; 116; 105; 118; 111; 32; 45; 32; 73; 110; 116; 101; 114; 99; 97; 109; 98; 105; 111], [69; 110; 116; 114; 97; 100; 97]) else
  if lang =? 2 then Some ([95; 95; 116; 101; 115; 116; 95; 65; 115; 115; 101; 116], [95; 95; 116; 101; 115; 116; 95; 65; 115; 115; 101; 116; 32; 45; 32; 69; 120; 99; 104; 97; 110; 103; 101], [95; 95; 116; 101; 115; 116; 95; 73; 110; 112; 117; 116]) else
  if lang =? 3 then Some ([65; 115; 115; 101; 116], [65; 115; 115; 101; 116; 32; 45; 32; 69; 120; 99; 104; 97; 110; 103; 101], [73; 110; 112; 117; 116]) else
  if lang =? 4 then Some ([65; 115; 115; 101; 116], [65; 115; 115; 101; 116; 32; 45; 32; 69; 120; 99; 104; 97; 110; 103; 101], [73; 110; 112; 117; 116]) else
  None.
(* (rows, columns) of the template sheets __Asset, __Asset - Exchange, __Input per (country code, language code) *)
Definition gen_op_template (c lang : Z) : option ((Z * Z) * (Z * Z) * (Z * Z)) :=
  if (c =? 0) && (lang =? 0) then Some ((3, 13), (3, 14), (3, 3)) else
  if (c =? 1) && (lang =? 1) then Some ((3, 13), (3, 14), (3, 3)) else
  if (c =? 2) && (lang =? 0) then Some ((3, 13), (3, 14), (3, 3)) else
  if (c =? 2) && (lang =? 2) then Some ((3, 13), (3, 14), (3, 3)) else
  if (c =? 3) && (lang =? 3) then Some ((3, 13), (3, 14), (3, 3)) else
  if (c =? 4) && (lang =? 0) then Some ((3, 13), (3, 14), (3, 3)) else
  None.
