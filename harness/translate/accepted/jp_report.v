Inductive jpiece := JLit (s : str) | JRow (k : Z) | JOff (k : Z) | JName | JPrevName | JPrev (k : Z).
Inductive jval := JF (ps : list jpiece) | JOpen (ps : list jpiece) | JAsset | JDonations | JGifts.
Definition gen_jp_years_sorted : bool := true.
Definition gen_jp_prev_existing_year : bool := true.
Definition gen_jp_intra_yen_guard_on_crypto : bool := true.
Definition gen_jp_first_row : Z := 21.
Definition gen_jp_transaction_row_start : Z := 22.
Definition gen_jp_return_delta : Z := 9.
Definition gen_jp_summary_start : Z := 7.
Definition gen_jp_label_cell : Z * Z := (1, 7).
Definition gen_jp_col_transaction_month : Z := 0.
Definition gen_jp_col_transaction_day : Z := 1.
Definition gen_jp_col_transaction_client : Z := 2.
Definition gen_jp_col_transaction_type : Z := 3.
Definition gen_jp_col_purchase_crypto_amount : Z := 4.
Definition gen_jp_col_purchase_amount_in_yen : Z := 5.
Definition gen_jp_col_sales_crypto_amount : Z := 6.
Definition gen_jp_col_sales_amount_in_yen : Z := 7.
Definition gen_jp_col_fee_in_yen : Z := 8.
Definition gen_jp_income_types : list ttype := [AIRDROP; HARDFORK; INCOME; INTEREST; MINING; STAKING; WAGES].
Definition gen_jp_asset_tail : list (Z * Z * jval) :=
  [(2, 4, JF [JLit [61; 73; 70; 40; 83; 85; 77; 40; 69; 50; 50; 58; 69]; JRow (2); JLit [41; 61; 48; 59; 48; 59; 83; 85; 77; 40; 69; 50; 50; 58; 69]; JRow (2); JLit [41; 41]]);
   (2, 5, JF [JLit [61; 73; 70; 40; 83; 85; 77; 40; 70; 50; 50; 58; 70]; JRow (2); JLit [41; 61; 48; 59; 48; 59; 83; 85; 77; 40; 70; 50; 50; 58; 70]; JRow (2); JLit [41; 41]]);
   (2, 6, JF [JLit [61; 73; 70; 40; 83; 85; 77; 40; 71; 50; 50; 58; 71]; JRow (2); JLit [41; 61; 48; 59; 48; 59; 83; 85; 77; 40; 71; 50; 50; 58; 71]; JRow (2); JLit [41; 41]]);
   (2, 7, JF [JLit [61; 73; 70; 40; 83; 85; 77; 40; 72; 50; 50; 58; 72]; JRow (2); JLit [41; 61; 48; 59; 48; 59; 83; 85; 77; 40; 72; 50; 50; 58; 72]; JRow (2); JLit [41; 41]]);
   (2, 8, JF [JLit [61; 73; 70; 40; 83; 85; 77; 40; 73; 50; 50; 58; 73]; JRow (2); JLit [41; 61; 48; 59; 48; 59; 83; 85; 77; 40; 73; 50; 50; 58; 73]; JRow (2); JLit [41; 41]]);
   (8, 4, JOpen [JLit [61; 39]; JPrevName; JLit [39; 46; 73]; JPrev (0)]);
   (9, 4, JOpen [JLit [61; 39]; JPrevName; JLit [39; 46; 73]; JPrev (1)]);
   (8, 5, JF [JLit [61; 69; 49; 51; 43; 69]; JRow (3)]);
   (9, 5, JF [JLit [61; 70; 49; 51; 43; 70]; JRow (3)]);
   (9, 6, JF [JLit [61; 73; 70; 40; 40; 69]; JRow (9); JLit [43; 70]; JRow (9); JLit [41; 59; 40; 69]; JRow (10); JLit [43; 70]; JRow (10); JLit [41; 47; 40; 69]; JRow (9); JLit [43; 70]; JRow (9); JLit [41; 59; 48; 41]]);
   (8, 7, JF [JLit [61; 71; 49; 51; 43; 71]; JRow (3)]);
   (9, 7, JF [JLit [61; 72]; JRow (9); JLit [42; 71]; JRow (10)]);
   (8, 8, JF [JLit [61; 69]; JRow (9); JLit [43; 70]; JRow (9); JLit [45; 72]; JRow (9)]);
   (9, 8, JF [JLit [61; 73]; JRow (9); JLit [42; 71]; JRow (10)]);
   (17, 0, JF [JLit [61; 72; 49; 51; 43; 72]; JRow (3)]);
   (17, 5, JF [JLit [61; 72]; JRow (10)]);
   (17, 6, JF [JLit [61; 73]; JRow (3)]);
   (17, 8, JF [JLit [61; 73]; JRow (20); JLit [45; 73]; JRow (21)]);
   (19, 8, JF [JLit [61; 82; 79; 85; 78; 68; 68; 79; 87; 78; 40; 83; 85; 77; 40; 65]; JRow (18); JLit [58; 69]; JRow (18); JLit [41; 59; 48; 41]]);
   (20, 8, JF [JLit [61; 82; 79; 85; 78; 68; 85; 80; 40; 83; 85; 77; 40; 70]; JRow (18); JLit [58; 72]; JRow (18); JLit [41; 59; 48; 41]])].
Definition gen_jp_summary_line : list (Z * jval) :=
  [(0, JAsset);
   (1, JDonations);
   (2, JGifts);
   (3, JF [JLit [61; 39]; JName; JLit [39; 46; 71]; JRow (10)]);
   (4, JF [JLit [61; 39]; JName; JLit [39; 46; 73]; JRow (9)]);
   (5, JF [JLit [61; 39]; JName; JLit [39; 46; 73]; JRow (10)]);
   (6, JF [JLit [61; 39]; JName; JLit [39; 46; 73]; JRow (18)])].
Definition gen_jp_summary_totals : list (Z * Z * jval) :=
  [(2, 1, JF [JLit [61; 83; 85; 77; 40; 66; 56; 58; 66]; JOff (2); JLit [41]]);
   (2, 2, JF [JLit [61; 83; 85; 77; 40; 67; 56; 58; 67]; JOff (2); JLit [41]]);
   (2, 5, JF [JLit [61; 83; 85; 77; 40; 70; 56; 58; 70]; JOff (2); JLit [41]]);
   (2, 6, JF [JLit [61; 83; 85; 77; 40; 71; 56; 58; 71]; JOff (2); JLit [41]])].
Definition gen_jp_tmpl_asset_rows : Z := 118.
Definition gen_jp_tmpl_asset_cols : Z := 35.
Definition gen_jp_tmpl_asset_cells : list (Z * Z) := [(1, 0); (3, 0); (5, 4); (5, 6); (6, 4); (6, 6); (7, 0); (7, 4); (7, 5); (7, 6); (7, 7); (8, 0); (8, 4); (8, 5); (8, 6); (8, 7); (9, 0); (12, 0); (14, 0); (16, 4); (16, 6); (17, 4); (17, 6); (18, 0); (18, 1); (18, 2); (18, 3); (18, 4); (18, 5); (18, 6); (18, 7); (18, 8); (19, 0); (19, 1); (19, 2); (19, 3); (19, 4); (19, 5); (19, 6); (19, 7); (19, 8); (23, 0); (25, 0); (27, 4); (27, 5); (27, 6); (27, 7); (27, 8); (28, 4); (28, 5); (28, 6); (28, 7); (28, 8); (29, 0); (29, 6); (30, 0); (32, 0); (34, 0); (34, 5); (34, 6); (34, 7); (35, 0); (35, 5); (36, 0); (36, 4); (36, 5); (36, 6); (36, 7); (36, 8); (37, 0); (37, 4); (37, 5); (37, 6); (37, 7); (37, 8); (40, 6); (41, 6)].
Definition gen_jp_tmpl_summary_rows : Z := 100.
Definition gen_jp_tmpl_summary_cols : Z := 15.
Definition gen_jp_tmpl_summary_cells : list (Z * Z) := [(0, 0); (2, 4); (3, 4); (4, 0); (4, 1); (4, 2); (4, 3); (4, 4); (4, 5); (4, 6); (5, 0); (5, 1); (5, 2); (5, 3); (5, 4); (5, 5); (5, 6); (9, 0); (9, 3); (9, 4)].
(* translations used for sheet names / the client of a transfer row; language code 0 = en, 1 = kl *)
Definition gen_jp_name_fmt (lang : Z) : str * str * str :=
  if lang =? 0 then ([], [95], []) else
   ([95; 95; 116; 101; 115; 116; 95], [95], []).
Definition gen_jp_summary_fmt (lang : Z) : str * str :=
  if lang =? 0 then ([], [95; 83; 117; 109; 109; 97; 114; 121]) else
   ([95; 95; 116; 101; 115; 116; 95], [95; 83; 117; 109; 109; 97; 114; 121]).
Definition gen_jp_transfer (lang : Z) : str :=
  if lang =? 0 then [84; 114; 97; 110; 115; 102; 101; 114] else
   [84; 114; 97; 110; 115; 102; 101; 114].
(* the template's legend sheet per language: size, non-empty cells, the row of the translated "Accounting Method", translated name *)
Definition gen_jp_legend_rows (lang : Z) : Z :=
  if lang =? 0 then 103 else
   113.
Definition gen_jp_legend_cols (lang : Z) : Z :=
  if lang =? 0 then 3 else
   3.
Definition gen_jp_legend_cells (lang : Z) : list (Z * Z) :=
  if lang =? 0 then [(0, 0); (1, 0); (2, 0); (3, 0); (5, 0); (7, 0); (7, 1); (8, 0); (8, 1); (9, 0); (9, 1); (11, 0); (11, 1); (12, 1)] else
   [(0, 0); (1, 0); (2, 0); (3, 0); (5, 0); (7, 0); (7, 1); (8, 0); (8, 1); (9, 0); (9, 1); (11, 0); (11, 1); (12, 1); (13, 1); (14, 1); (15, 1); (16, 1); (17, 1); (18, 1); (19, 1); (20, 1); (22, 0); (22, 1); (23, 1)].
Definition gen_jp_legend_method_row (lang : Z) : option Z :=
  if lang =? 0 then (Some 7) else
   (Some 7).
Definition gen_jp_legend_name (lang : Z) : str :=
  if lang =? 0 then [76; 101; 103; 101; 110; 100] else
   [95; 95; 116; 101; 115; 116; 95; 76; 101; 103; 101; 110; 100].
