Definition gen_crypto_decimals : Z := 13.
Definition gen_prec : Z := 31.
Definition gen_float_trap : bool := true.
Definition gen_balance_mask_digits : Z := 10.
Definition gen_parse_decimals : Z := 11.
