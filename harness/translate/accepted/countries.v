Inductive gen_id := GOpenPositions | GFullReport | GTaxUS | GTaxJP | GTaxIE.
Definition country_period (c : country) (env_period : Z) : Z :=
  match c with
  | US => 365
  | ES => 365
  | JP => 9223372036854775807
  | IE => 9223372036854775807
  | GENERIC => env_period
  end.
Definition country_default_method (c : country) : meth :=
  match c with
  | US => Fifo
  | ES => Fifo
  | JP => Fifo
  | IE => Fifo
  | GENERIC => Fifo
  end.
Definition country_methods (c : country) : list meth :=
  match c with
  | US => [Fifo; Lifo; Hifo; Lofo]
  | ES => [Fifo]
  | JP => [Fifo]
  | IE => [Fifo]
  | GENERIC => [Fifo; Lifo; Hifo; Lofo]
  end.
Definition country_generators (c : country) : list gen_id :=
  match c with
  | US => [GOpenPositions; GFullReport; GTaxUS]
  | ES => [GOpenPositions; GFullReport]
  | JP => [GTaxJP; GOpenPositions; GFullReport]
  | IE => [GTaxIE; GOpenPositions; GFullReport]
  | GENERIC => [GOpenPositions; GFullReport]
  end.
Definition country_default_language (c : country) : str :=
  match c with
  | US => [101; 110]%Z
  | ES => [101; 115]%Z
  | JP => [106; 97]%Z
  | IE => [101; 110; 95; 73; 69]%Z
  | GENERIC => [101; 110]%Z
  end.
