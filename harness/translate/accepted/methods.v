Inductive mkind := Chrono (older_first : bool) | Feature.
Definition meth_kind (m : meth) : mkind :=
  match m with
  | Fifo => Chrono true
  | Lifo => Feature
  | Hifo => Feature
  | Lofo => Feature
  end.
Definition meth_sort_key (m : meth) (l : intx) : Z * Z * Z :=
  match m with
  | Fifo => (0, 0, 0)
  | Lifo => (0, (- (utc_us (i_ts l))), (- (i_row l)))
  | Hifo => ((- (i_spot l)), (utc_us (i_ts l)), (i_row l))
  | Lofo => ((i_spot l), (utc_us (i_ts l)), (i_row l))
  end.
