Definition gen_single_schedule_any_year : bool := true.
Definition gen_summary_link_guarded : bool := true.
Definition gen_jp_rejects_from_and_to : bool := true.
Definition tax_us_types : list ttype := [AIRDROP; DONATE; FEE; GIFT; HARDFORK; INCOME; INTEREST; LOST; MINING; MOVE; SELL; STAKING; WAGES].
Definition tax_ie_types : list ttype := [AIRDROP; DONATE; FEE; GIFT; HARDFORK; INCOME; INTEREST; LOST; MINING; MOVE; SELL; STAKING; WAGES].
