(* tax_engine.py wiring as data; interpreted by Model/TaxEngineGen.v *)
Inductive te_set := TeIn | TeOut | TeIntra.
Inductive te_pred := TePredTaxable | TePredEarning | TePredAll.
Inductive te_src := TeTaxableSet | TeInput (k : te_set) | TeFiltered (s : te_src).
Inductive te_amt := TeEvAmt | TeLotAmt | TeZero.
Inductive te_lot := TeLotNone | TeLotCur.
Inductive te_adv := AdvNextEvent | AdvNextEventAndLot | AdvLotForEvent.
Record te_branch := { tb_amt : te_amt; tb_lot : te_lot; tb_adv : te_adv; tb_adv_ev : te_amt; tb_adv_lot : te_amt }.
Definition gen_te_scan : list te_set := [TeIn; TeOut; TeIntra].
Definition gen_te_filter : te_pred := TePredTaxable.
Definition gen_te_event_iter : te_src := TeTaxableSet.
Definition gen_te_lot_iter : te_src := (TeInput TeIn).
Definition gen_te_earn : te_branch := {| tb_amt := TeEvAmt; tb_lot := TeLotNone; tb_adv := AdvNextEvent; tb_adv_ev := TeZero; tb_adv_lot := TeLotAmt |}.
Definition gen_te_eq : te_branch := {| tb_amt := TeEvAmt; tb_lot := TeLotCur; tb_adv := AdvNextEventAndLot; tb_adv_ev := TeEvAmt; tb_adv_lot := TeLotAmt |}.
Definition gen_te_lt : te_branch := {| tb_amt := TeEvAmt; tb_lot := TeLotCur; tb_adv := AdvNextEvent; tb_adv_ev := TeEvAmt; tb_adv_lot := TeLotAmt |}.
Definition gen_te_gt : te_branch := {| tb_amt := TeLotAmt; tb_lot := TeLotCur; tb_adv := AdvLotForEvent; tb_adv_ev := TeEvAmt; tb_adv_lot := TeLotAmt |}.
