(* ods_parser._create_and_process_transaction as data: where every constructor argument of the two derived
   transactions comes from, the guard of the split, the containers.  Interpreted by Model/SplitGen.v. *)
Inductive sattr := A_asset | A_exchange | A_holder | A_spot_price | A_crypto_in | A_crypto_fee | A_fiat_in_no_fee | A_fiat_in_with_fee | A_fiat_fee | A_unique_id | A_notes.
Inductive ssrc := SConfiguration | STsStr | STsNoSubsec | SAttr (a : sattr) | STypeValue | SConstType (t : ttype)
  | SNone | SZero | SInternalId | SNewArtificialId | SNotes | SOtherParam.
Inductive skey := K_configuration | K_timestamp | K_asset | K_exchange | K_holder | K_transaction_type | K_spot_price | K_crypto_in | K_crypto_fee | K_fiat_in_no_fee | K_fiat_in_with_fee | K_fiat_fee | K_row | K_unique_id | K_notes | K_from_lot | K_crypto_out_no_fee | K_crypto_out_with_fee | K_fiat_out_no_fee.
Inductive sclass := CIn | COut | CIntra.
Inductive spred := PFeeDefined | PIsTaxable | PIsEarning.
Inductive sguard := GIs (c : sclass) | GPred (p : spred) | GAnd (a b : sguard) | GOr (a b : sguard) | GNot (a : sguard).
Inductive sset := DIn | DOut | DIntra | DCurrent.
Inductive sdest := DSet (s : sset) | DArtificial.
Definition gen_in_is_crypto_fee_defined (t : intx) : bool := (Z.gtb (i_crypto_fee t) 0).
Definition gen_split_guard : sguard := (GAnd (GIs CIn) (GPred PFeeDefined)).
Definition gen_split_in_args : list (skey * ssrc) :=
  [(K_asset, (SAttr A_asset)); (K_configuration, SConfiguration); (K_crypto_fee, SNone); (K_crypto_in, (SAttr A_crypto_in)); (K_exchange, (SAttr A_exchange)); (K_fiat_fee, (SAttr A_fiat_fee)); (K_fiat_in_no_fee, (SAttr A_fiat_in_no_fee)); (K_fiat_in_with_fee, (SAttr A_fiat_in_with_fee)); (K_holder, (SAttr A_holder)); (K_notes, SNotes); (K_row, SInternalId); (K_spot_price, (SAttr A_spot_price)); (K_timestamp, STsStr); (K_transaction_type, STypeValue); (K_unique_id, (SAttr A_unique_id))].
Definition gen_split_in_dest : sdest := (DSet DIn).
Definition gen_split_fee_args : list (skey * ssrc) :=
  [(K_asset, (SAttr A_asset)); (K_configuration, SConfiguration); (K_crypto_fee, (SAttr A_crypto_fee)); (K_crypto_out_no_fee, SZero); (K_exchange, (SAttr A_exchange)); (K_holder, (SAttr A_holder)); (K_notes, SNotes); (K_row, SNewArtificialId); (K_spot_price, (SAttr A_spot_price)); (K_timestamp, STsStr); (K_transaction_type, (SConstType FEE)); (K_unique_id, (SAttr A_unique_id))].
Definition gen_split_fee_dest : sdest := DArtificial.
Definition gen_split_else_dest : sdest := (DSet DCurrent).
