Inductive ffield :=
| F_blank | F_ts | F_asset | F_exch | F_holder | F_type | F_spot | F_taxable | F_uid | F_notes | F_fiat_fee
| F_in_sold | F_in_crypto | F_in_running | F_in_fiat_no_fee | F_in_fiat_with_fee
| F_out_crypto | F_crypto_fee | F_out_running | F_out_fee_running | F_out_fiat
| F_x_from_exch | F_x_from_holder | F_x_to_exch | F_x_to_holder | F_x_sent | F_x_received | F_x_fee_running
| F_y_year | F_y_gain | F_cap_type | F_y_type | F_y_crypto | F_y_fiat | F_y_cost
| F_b_acquired | F_b_sent | F_b_received | F_b_final | F_total_label | F_total_value
| F_g_amount | F_g_running | F_g_gain | F_ev_ts | F_ev_type | F_ev_pct | F_ev_fiat | F_ev_spot | F_ev_uid | F_ev_note
| F_lot_ts | F_lot_pct | F_lot_fiat | F_lot_fee | F_lot_cost | F_lot_spot | F_lot_uid | F_lot_note
| F_label.
Inductive flink := L_none | L_event | L_lot | L_summary.
Definition fcol := (Z * flink * ffield)%type.
Definition gen_full_min_rows : Z := 40.
Definition gen_full_max_columns : Z := 40.
Definition gen_full_inout_rows (n_in n_out n_intra : Z) : Z := (((gen_full_min_rows + n_in) + n_out) + n_intra).
Definition gen_full_tax_rows (n_yearly n_bal n_gl : Z) : Z := (((gen_full_min_rows + n_yearly) + n_bal) + n_gl).
Definition gen_header_height : Z := 3.
Definition gen_full_gaps : list Z := [0; 2; 2; 0; 2; 2; 2].
Definition gen_full_avg_cells : list (Z * bool) := [(0, false); (1, false); (2, false); (3, true)].
Definition gen_full_avg_rows : Z := 4.
Definition gen_full_hdr_in : list bool * list bool * Z := ([false; false; false; false; false; true; false; true; true; false; true; true; true; false; false; false], [true; true; true; true; true; true; true; true; true; true; true; true; true; true; true; true], 0).
Definition gen_full_hdr_out : list bool * list bool * Z := ([false; false; false; false; true; false; false; false; true; true; false; false; true; false; false], [true; true; true; true; true; true; true; true; true; true; true; true; true; true; true], 1).
Definition gen_full_hdr_intra : list bool * list bool * Z := ([false; false; true; true; false; false; false; false; true; false; true; false; true; false; false], [true; true; true; true; true; true; true; true; true; true; true; true; true; true; true], 1).
Definition gen_full_hdr_gls : list bool * list bool * Z := ([false; false; true; true; true; true; true; true], [true; true; true; true; true; true; true; true], 0).
Definition gen_full_hdr_bal : list bool * list bool * Z := ([false; false; false; true; true; true; true], [true; true; true; true; true; true; true], 0).
Definition gen_full_hdr_det : list bool * list bool * Z := ([true; false; true; true; true; true; true; true; true; true; false; true; true; true; true; true; true; true; false; true], [true; true; true; true; true; true; true; true; true; true; true; true; true; true; true; true; true; true; true; true], 0).
Definition gen_full_hdr_sum : list bool * list bool * Z := ([false; false; true; true; true; true; true; true], [true; true; true; true; true; true; true; true], 0).
Definition gen_full_legend : list (list bool) := [[true]; [true]; [true]; [true]; [false]; [true]; [true; true]; [true; true]; [false]; [true]; [true; true]; [true; true]; [true; true]; [true; true]; [true; true]; [true; true]; [true; true]; [false]; [true]; [true; true]; [true; true]; [true; true]; [true; true]; [true; true]; [true; true]; [true; true]; [true; true]; [true; true]; [true; true]; [true; true]; [true; true]; [true; true]; [true; true]; [true; true]; [false]; [true]; [true; true]; [true; true]; [true; true]; [true; true]; [true; true]; [true; true]; [true; true]; [true; true]; [true; true]; [true; true]; [true; true]; [true; true]; [true; true]; [true; true]; [true; true]; [false]; [true]; [true; true]; [true; true]; [true; true]; [true; true]; [true; true]; [true; true]; [true; true]; [true; true]; [true; true]; [true; true]; [true; true]; [true; true]; [true; true]; [true; true]; [true; true]; [false]; [true]; [true; true]; [true; true]; [true; true]; [true; true]; [true; true]; [true; true]; [true; true]; [true; true]; [false]; [true]; [true; true]; [true; true]; [true; true]; [true; true]; [true; true]; [true; true]; [true; true]; [false]; [true]; [true; true]; [false]; [true]; [true; true]; [true; true]; [true; true]; [true; true]; [true; true]; [true; true]; [true; true]; [true; true]; [true; true]; [true; true]; [true; true]; [true; true]; [true; true]; [true; true]; [true; true]; [true; true]; [true; true]; [true; true]].
Definition gen_full_legend_method_row : Z := 1.
Definition gen_full_cols_in : list fcol := [(0, L_none, F_in_sold); (1, L_none, F_ts); (2, L_none, F_asset); (3, L_none, F_exch); (4, L_none, F_holder); (5, L_none, F_type); (6, L_none, F_spot); (7, L_none, F_in_crypto); (8, L_none, F_in_running); (9, L_none, F_fiat_fee); (10, L_none, F_in_fiat_no_fee); (11, L_none, F_in_fiat_with_fee); (12, L_none, F_taxable); (13, L_none, F_blank); (14, L_none, F_uid); (15, L_none, F_notes)].
Definition gen_full_cols_out : list fcol := [(0, L_none, F_blank); (1, L_none, F_ts); (2, L_none, F_asset); (3, L_none, F_exch); (4, L_none, F_holder); (5, L_none, F_type); (6, L_none, F_spot); (7, L_none, F_out_crypto); (8, L_none, F_crypto_fee); (9, L_none, F_out_running); (10, L_none, F_out_fee_running); (11, L_none, F_out_fiat); (12, L_none, F_fiat_fee); (13, L_none, F_taxable); (14, L_none, F_uid); (15, L_none, F_notes)].
Definition gen_full_cols_intra : list fcol := [(0, L_none, F_blank); (1, L_none, F_ts); (2, L_none, F_asset); (3, L_none, F_x_from_exch); (4, L_none, F_x_from_holder); (5, L_none, F_x_to_exch); (6, L_none, F_x_to_holder); (7, L_none, F_spot); (8, L_none, F_x_sent); (9, L_none, F_x_received); (10, L_none, F_crypto_fee); (11, L_none, F_x_fee_running); (12, L_none, F_fiat_fee); (13, L_none, F_taxable); (14, L_none, F_uid); (15, L_none, F_notes)].
Definition gen_full_cols_gls : list fcol := [(0, L_none, F_y_year); (1, L_none, F_asset); (2, L_none, F_y_gain); (3, L_none, F_cap_type); (4, L_none, F_y_type); (5, L_none, F_y_crypto); (6, L_none, F_y_fiat); (7, L_none, F_y_cost)].
Definition gen_full_cols_bal : list fcol := [(0, L_none, F_exch); (1, L_none, F_holder); (2, L_none, F_asset); (3, L_none, F_b_acquired); (4, L_none, F_b_sent); (5, L_none, F_b_received); (6, L_none, F_b_final)].
Definition gen_full_cols_tot : list fcol := [(0, L_none, F_total_label); (1, L_none, F_holder); (2, L_none, F_blank); (3, L_none, F_blank); (4, L_none, F_blank); (5, L_none, F_blank); (6, L_none, F_total_value)].
Definition gen_full_cols_det : list fcol := [(0, L_none, F_g_amount); (1, L_none, F_asset); (2, L_none, F_g_running); (3, L_none, F_g_gain); (4, L_none, F_cap_type); (5, L_event, F_ev_ts); (6, L_event, F_ev_type); (7, L_event, F_ev_pct); (8, L_event, F_ev_fiat); (9, L_event, F_ev_spot); (10, L_event, F_ev_uid); (11, L_event, F_ev_note)].
Definition gen_full_cols_det_lot : list fcol := [(12, L_lot, F_lot_ts); (13, L_lot, F_lot_pct); (14, L_lot, F_lot_fiat); (15, L_lot, F_lot_fee); (16, L_lot, F_lot_cost); (17, L_lot, F_lot_spot); (18, L_lot, F_lot_uid); (19, L_lot, F_lot_note)].
Definition gen_full_cols_sum : list fcol := [(0, L_summary, F_y_year); (1, L_summary, F_asset); (2, L_summary, F_y_gain); (3, L_summary, F_cap_type); (4, L_summary, F_y_type); (5, L_summary, F_y_crypto); (6, L_summary, F_y_fiat); (7, L_summary, F_y_cost)].
Definition gen_full_nolot_range : Z * Z := (12, 19).
Definition gen_full_msg_inout : str := [123; 125; 32; 73; 110; 45; 79; 117; 116].
Definition gen_full_msg_tax : str := [123; 125; 32; 84; 97; 120].
Definition gen_full_msg_summary : str := [83; 117; 109; 109; 97; 114; 121].
Definition gen_full_msg_legend : str := [76; 101; 103; 101; 110; 100].
Definition gen_full_msg_long : str := [76; 79; 78; 71].
Definition gen_full_msg_short : str := [83; 72; 79; 82; 84].
Definition gen_full_msg_yes : str := [89; 69; 83].
Definition gen_full_msg_no : str := [78; 79].
Definition gen_full_type_msgid (t : ttype) : str :=
  match t with
  | AIRDROP => [97; 105; 114; 100; 114; 111; 112]
  | BUY => [98; 117; 121]
  | DONATE => [100; 111; 110; 97; 116; 101]
  | FEE => [102; 101; 101]
  | GIFT => [103; 105; 102; 116]
  | HARDFORK => [104; 97; 114; 100; 102; 111; 114; 107]
  | INCOME => [105; 110; 99; 111; 109; 101]
  | INTEREST => [105; 110; 116; 101; 114; 101; 115; 116]
  | LOST => [108; 111; 115; 116]
  | MINING => [109; 105; 110; 105; 110; 103]
  | MOVE => [109; 111; 118; 101]
  | SELL => [115; 101; 108; 108]
  | STAKING => [115; 116; 97; 107; 105; 110; 103]
  | WAGES => [119; 97; 103; 101; 115]
  end.
Definition gen_full_msgids : list (str * bool) :=
  map (fun t => (gen_full_type_msgid t, true)) all_ttypes ++
  map (fun m => (m, false)) [gen_full_msg_long; gen_full_msg_short; gen_full_msg_yes; gen_full_msg_no; gen_full_msg_inout; gen_full_msg_tax; gen_full_msg_summary; gen_full_msg_legend].
Definition gen_full_clears_row_map : bool := true.
Definition gen_full_summary_link_guarded : bool := true.
Definition gen_ods_single_method_by_value : bool := true.
