Definition in_allowed_base : list ttype := [BUY; DONATE; GIFT].
Definition in_allows_earn : bool := true.
Definition in_type_allowed (t : ttype) : bool := ttype_in t in_allowed_base || (in_allows_earn && is_earn_type t).
Definition out_allowed_base : list ttype := [DONATE; FEE; GIFT; LOST; SELL; STAKING].
Definition out_allows_earn : bool := false.
Definition out_type_allowed (t : ttype) : bool := ttype_in t out_allowed_base || (out_allows_earn && is_earn_type t).
