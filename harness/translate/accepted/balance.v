Inductive bal_kind := BK_in | BK_intra | BK_out.
Inductive bal_dict := BD_final | BD_acquired | BD_sent | BD_received.
Inductive bal_side := BA_own | BA_from | BA_to.
Inductive bal_field := BF_crypto_in | BF_crypto_fee | BF_crypto_sent | BF_crypto_received | BF_crypto_out_no_fee
| BF_crypto_out_with_fee | BF_crypto_balance_change | BF_crypto_taxable_amount.
Inductive bal_expr := BE_zero | BE_get (d : bal_dict) (a : bal_side) | BE_field (f : bal_field) | BE_local (n : nat)
| BE_add (x y : bal_expr) | BE_sub (x y : bal_expr).
Inductive bal_stmt := BS_store (d : bal_dict) (a : bal_side) (e : bal_expr) | BS_let (n : nat) (e : bal_expr) | BS_check (e : bal_expr).
Inductive bal_cut_day := BC_local_day | BC_utc_day.
(* in_transactions + intra_transactions + out_transactions, then sorted(key=_transaction_time_sort_key): stable, by instant *)
Definition gen_bal_concat : list bal_kind := [BK_in; BK_intra; BK_out].
(* the test at the head of the replay loop: (which date is compared with to_date, true = break / false = continue) *)
Definition gen_bal_cut : option (bal_cut_day * bool) := Some (BC_local_day, true).
(* the isinstance blocks of the loop body in source order; dictionaries are named by the Balance field they feed *)
Definition gen_bal_program : list (bal_kind * list bal_stmt) := [
  (BK_in, [BS_store BD_acquired BA_own (BE_add (BE_get BD_acquired BA_own) (BE_field BF_crypto_in));
     BS_store BD_final BA_own (BE_add (BE_get BD_final BA_own) (BE_field BF_crypto_in))]);
  (BK_intra, [BS_store BD_sent BA_from (BE_add (BE_get BD_sent BA_from) (BE_field BF_crypto_sent));
     BS_store BD_received BA_to (BE_add (BE_get BD_received BA_to) (BE_field BF_crypto_received));
     BS_store BD_final BA_from (BE_sub (BE_get BD_final BA_from) (BE_field BF_crypto_sent));
     BS_store BD_final BA_to (BE_add (BE_get BD_final BA_to) (BE_field BF_crypto_received));
     BS_check (BE_get BD_final BA_from)]);
  (BK_out, [BS_store BD_sent BA_own (BE_add (BE_add (BE_get BD_sent BA_own) (BE_field BF_crypto_out_no_fee)) (BE_field BF_crypto_fee));
     BS_store BD_final BA_own (BE_sub (BE_sub (BE_get BD_final BA_own) (BE_field BF_crypto_out_no_fee)) (BE_field BF_crypto_fee));
     BS_check (BE_get BD_final BA_own)])].
