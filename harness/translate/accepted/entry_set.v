Inductive it_key := IK_local_day | IK_utc_day | IK_instant | IK_wall_clock.
Inductive it_which := IW_from | IW_to.
Inductive it_zone := IZ_utc | IZ_naive.
Inductive it_bound := IB_date (w : it_which) | IB_datetime (w : it_which) (tod_us : Z) (z : it_zone).
Inductive it_cmp := IC_gt | IC_ge | IC_lt | IC_le.
Inductive it_action := IA_stop | IA_return | IA_skip.
Inductive it_cond := IT_always | IT_cmp (k : it_key) (c : it_cmp) (b : it_bound).
Inductive es_field := EF_from | EF_to.
Inductive es_src := EP_from_arg | EP_to_arg | EP_min_date | EP_max_date.
Inductive es_stmt := ES_set (f : es_field) (v : es_src) | ES_flag (b : bool) | ES_sort | ES_sort_if_unsorted.
(* _sort_entries: self._entry_list.sort(key=_entry_sort_key): stable, by this quantity of the entry *)
Definition gen_es_sort_key : it_key := IK_instant.
(* duplicate: result = copy(self) (shallow: the entry list and the derived dictionaries are shared), then *)
Definition gen_es_duplicate : list es_stmt := [ES_set EF_from EP_from_arg; ES_set EF_to EP_to_arg; ES_flag false; ES_sort_if_unsorted].
(* __iter__: before `return EntrySetIterator(self)` *)
Definition gen_es_iter : list es_stmt := [ES_sort_if_unsorted].
(* EntrySetIterator.__init__: leading entries skipped while this holds (None: no such loop) *)
Definition gen_it_prelude : option it_cond := None.
(* EntrySetIterator.__next__: per entry, in source order (condition, action); then what happens when no test fires *)
Definition gen_it_tests : list (it_cond * it_action) := [(IT_cmp IK_local_day IC_gt (IB_date IW_to), IA_stop); (IT_cmp IK_local_day IC_ge (IB_date IW_from), IA_return)].
Definition gen_it_fallthrough : it_action := IA_skip.
