Definition in_is_taxable (t : intx) : bool := (is_earn_type (i_type t)).
Definition in_is_earning (t : intx) : bool := (in_is_taxable t).
Definition in_crypto_balance_change (t : intx) : Z := (i_crypto_in t).
Definition in_fiat_taxable_amount (t : intx) : dec := (if (in_is_taxable t) then (i_fiat_in_with_fee t) else dzero).
Definition in_crypto_taxable_amount (t : intx) : Z := (if (in_is_taxable t) then (i_crypto_in t) else 0).
Definition in_fiat_balance_change (t : intx) : dec := (i_fiat_in_with_fee t).
