Definition earn_types : list ttype := [AIRDROP; HARDFORK; INCOME; INTEREST; MINING; STAKING; WAGES].
Definition is_earn_type (t : ttype) : bool := ttype_in t earn_types.
Definition ttype_value (t : ttype) : str :=
  match t with
  | AIRDROP => [97; 105; 114; 100; 114; 111; 112]
  | BUY => [98; 117; 121]
  | DONATE => [100; 111; 110; 97; 116; 101]
  | FEE => [102; 101; 101]
  | GIFT => [103; 105; 102; 116]
  | HARDFORK => [104; 97; 114; 100; 102; 111; 114; 107]
  | INCOME => [105; 110; 99; 111; 109; 101]
  | INTEREST => [105; 110; 116; 101; 114; 101; 115; 116]
  | LOST => [108; 111; 115; 116]
  | MINING => [109; 105; 110; 105; 110; 103]
  | MOVE => [109; 111; 118; 101]
  | SELL => [115; 101; 108; 108]
  | STAKING => [115; 116; 97; 107; 105; 110; 103]
  | WAGES => [119; 97; 103; 101; 115]
  end.
