Definition earn_types : list ttype := [AIRDROP; HARDFORK; INCOME; INTEREST; MINING; STAKING; WAGES].
Definition is_earn_type (t : ttype) : bool := ttype_in t earn_types.
