(* placeholder *)
