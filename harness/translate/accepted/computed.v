Inductive cd_loop_set := LS_unfiltered | LS_filtered.
Inductive cd_field := CF_crypto_in | CF_crypto_fee | CF_crypto_out_no_fee | CF_crypto_out_with_fee | CF_crypto_sent
| CF_crypto_received | CF_crypto_balance_change | CF_crypto_taxable_amount | CF_crypto_deduction | CF_crypto_amount.
Inductive cd_fiat_field := CFF_fiat_in_with_fee | CFF_fiat_in_no_fee | CFF_fiat_fee.
Inductive gl_field := GF_crypto_amount | GF_proceeds | GF_cost_basis | GF_gain | GF_lot_pct | GF_event_pct.
Inductive yk_comp := YK_event_local_year | YK_asset | YK_event_type | YK_is_long.
Inductive y_field := YF_crypto | YF_fiat | YF_cost | YF_gain.
Inductive y_filter := YFL_ge_from_year | YFL_le_to_year.
Inductive sold_skip := SS_no_lot | SS_lot_before_from | SS_lot_after_to.
(* a loop: (set iterated, to-date cut: None / Some true = break / Some false = continue, attribute) *)
Definition cd_run := (cd_loop_set * option bool * cd_field)%type.
(* running sums behind get_crypto_*_running_sum *)
Definition gen_run_in : cd_run := (LS_unfiltered, None, CF_crypto_in).
Definition gen_run_in_fee : cd_run := (LS_unfiltered, None, CF_crypto_fee).
Definition gen_run_out : cd_run := (LS_unfiltered, None, CF_crypto_out_no_fee).
Definition gen_run_out_fee : cd_run := (LS_unfiltered, None, CF_crypto_fee).
Definition gen_run_intra_fee : cd_run := (LS_unfiltered, None, CF_crypto_fee).
Definition gen_run_gl : cd_run := (LS_unfiltered, None, CF_crypto_amount).
(* _create_yearly_gain_loss_list as called by __init__, _filter_yearly_gain_loss_by_year *)
Definition gen_yearly_source : cd_loop_set := LS_unfiltered.
Definition gen_yearly_cut : option bool := Some true.
Definition gen_yearly_key : list yk_comp := [YK_event_local_year; YK_asset; YK_event_type; YK_is_long].
Definition gen_yearly_acc : list (y_field * gl_field) := [(YF_crypto, GF_crypto_amount); (YF_fiat, GF_proceeds); (YF_cost, GF_cost_basis); (YF_gain, GF_gain)].
Definition gen_yearly_filter : list y_filter := [YFL_ge_from_year].
(* sold percentage per lot (get_in_lot_sold_percentage) *)
Definition gen_sold_source : cd_loop_set := LS_filtered.
Definition gen_sold_cut : option bool := None.
Definition gen_sold_skip : list sold_skip := [SS_no_lot; SS_lot_before_from; SS_lot_after_to].
Definition gen_sold_field : gl_field := GF_lot_pct.
(* _compute_price_per_unit as called by __init__ *)
Definition gen_ppu_source : cd_loop_set := LS_unfiltered.
Definition gen_ppu_cut : option bool := Some true.
Definition gen_ppu_num : cd_fiat_field := CFF_fiat_in_with_fee.
Definition gen_ppu_den : cd_field := CF_crypto_in.
(* order / re-sort: see Proofs/ComputedGenProofs.v code_duplicate_* *)
Definition gen_cd_duplicate_before_yearly : bool := true.
Definition gen_duplicate_force_sorts : bool := true.
Definition gen_in_crypto_deduction (t : intx) : Z := 0.
Definition gen_out_crypto_deduction (t : outtx) : Z := (o_crypto_fee t).
Definition gen_intra_crypto_deduction (t : intratx) : Z := 0.
