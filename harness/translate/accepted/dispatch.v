
Definition t_is_taxable (t : txn) : bool :=
  match t with TIn a => in_is_taxable a | TOut a => out_is_taxable a | TIntra a => intra_is_taxable a end.
Definition t_is_earning (t : txn) : bool :=
  match t with TIn a => in_is_earning a | TOut a => out_is_earning a | TIntra a => intra_is_earning a end.
Definition t_balance_change (t : txn) : Z :=
  match t with TIn a => in_crypto_balance_change a | TOut a => out_crypto_balance_change a | TIntra a => intra_crypto_balance_change a end.
Definition t_fiat_taxable (t : txn) : dec :=
  match t with TIn a => in_fiat_taxable_amount a | TOut a => out_fiat_taxable_amount a | TIntra a => intra_fiat_taxable_amount a end.
Definition t_crypto_taxable (t : txn) : Z :=
  match t with TIn a => in_crypto_taxable_amount a | TOut a => out_crypto_taxable_amount a | TIntra a => intra_crypto_taxable_amount a end.
Definition t_fiat_balance_change (t : txn) : dec :=
  match t with TIn a => in_fiat_balance_change a | TOut a => out_fiat_balance_change a | TIntra a => intra_fiat_balance_change a end.
