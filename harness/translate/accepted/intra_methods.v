Definition intra_is_taxable (t : intratx) : bool := (Z.gtb (x_crypto_fee t) 0).
Definition intra_is_earning (t : intratx) : bool := false.
Definition intra_crypto_balance_change (t : intratx) : Z := (x_crypto_fee t).
Definition intra_fiat_taxable_amount (t : intratx) : dec := (x_fiat_fee t).
Definition intra_crypto_taxable_amount (t : intratx) : Z := (x_crypto_fee t).
Definition intra_fiat_balance_change (t : intratx) : dec := (x_fiat_fee t).
