Definition out_is_taxable (t : outtx) : bool := true.
Definition out_is_earning (t : outtx) : bool := false.
Definition out_crypto_balance_change (t : outtx) : Z := (o_crypto_out_with_fee t).
Definition out_fiat_taxable_amount (t : outtx) : dec := (if (ttype_eqb (o_type t) FEE) then (o_fiat_fee t) else (o_fiat_out_no_fee t)).
Definition out_crypto_taxable_amount (t : outtx) : Z := (if (ttype_eqb (o_type t) FEE) then (o_crypto_fee t) else (o_crypto_out_no_fee t)).
Definition out_fiat_balance_change (t : outtx) : dec := (o_fiat_out_with_fee t).
