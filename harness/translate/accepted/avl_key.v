Inductive ak_zone := AZ_utc | AZ_wall_clock.
Inductive ak_part := AP_year4 | AP_month | AP_day | AP_hour | AP_minute | AP_second | AP_micro | AP_lit (c : Z).
Inductive ak_side := AS_pad_left | AS_pad_right.
Inductive ak_ts_src := AKS_lot_timestamp | AKS_event_timestamp.
Inductive ak_id_src := AKI_lot_internal_id | AKI_max_disambiguator.
Inductive ak_lookup := AKL_max_le (t : ak_ts_src) (i : ak_id_src).
Inductive sk_field := SK_spot_price | SK_timestamp | SK_internal_id_int.
(* _get_avl_node_key: f"{<zone>(timestamp).strftime(<format>)}<sep>{internal_id:<pad char><side><width>}" *)
Definition gen_ak_zone : ak_zone := AZ_utc.
Definition gen_ak_format : list ak_part := [AP_year4; AP_month; AP_day; AP_hour; AP_minute; AP_second; AP_lit 46; AP_micro].
Definition gen_ak_sep : list Z := [95].
Definition gen_ak_pad_char : Z := 48.
Definition gen_ak_pad_side : ak_side := AS_pad_left.
Definition gen_ak_width : Z := 12.
(* _get_avl_node_key_with_max_disambiguator: the id it passes *)
Definition gen_ak_max_disambiguator : list Z := [57; 57; 57; 57; 57; 57; 57; 57; 57; 57; 57; 57].
(* initialize: insert_node(key(lot.timestamp, lot.internal_id), (lot, index)); get_acquired_lot_for_taxable_event: the lookup *)
Definition gen_ak_insert : ak_ts_src * ak_id_src := (AKS_lot_timestamp, AKI_lot_internal_id).
Definition gen_ak_lookup : ak_lookup := AKL_max_le AKS_event_timestamp AKI_max_disambiguator.
(* AcquiredLotSortKey: field (= comparison) order; per plugin the compared values in that order *)
Definition gen_sk_fields : list sk_field := [SK_spot_price; SK_timestamp; SK_internal_id_int].
Definition gen_sk_key (m : meth) (l : intx) : list Z :=
  match m with
  | Fifo => []
  | Lifo => [0; (- (utc_us (i_ts l))); (- (i_row l))]
  | Hifo => [(- (i_spot l)); (utc_us (i_ts l)); (i_row l)]
  | Lofo => [(i_spot l); (utc_us (i_ts l)); (i_row l)]
  end.
