"""Translator fragment for balance.py: the replay loop of BalanceSet.__init__ as a straight-line "update program".

What is read from the source on every run (fail-closed: anything outside the recognised shapes raises Unrecognised
and tie.generate falls back to accepted/balance.v, status `fallback(...)`):

  * which of the three unfiltered transaction sets are concatenated, in which order, and that the concatenation is
    sorted (stable `sorted`) by `_transaction_time_sort_key` = the timestamp (an instant);
  * the cut at the head of the loop body: which calendar date is compared with `to_date` (local date of the
    timestamp / UTC date) and whether the loop `break`s or `continue`s (finding F9 is about the `break`);
  * per `isinstance(transaction, <class>)` block, IN SOURCE ORDER, the statements
        D[acct] = <expr>            -> BS_store D side expr
        local   = <expr>            -> BS_let n expr           (locals are kept as locals: a rewrite that first reads
                                                                 two balances into locals and stores them afterwards is
                                                                 a different program, wrong for self-transfers)
        if not is_equal_within_precision(E, ZERO, CRYPTO_BALANCE_DECIMAL_MASK) and E < ZERO
              and not configuration.allow_negative_balances: raise RP2ValueError(...)     -> BS_check E
    with <expr> built from ZERO, D.get(acct, ZERO), D[acct] (only after a store to the same entry in the same block),
    <transaction>.<crypto field>, locals, + and -.  `acct` is a variable bound in the block to
    Account(t.exchange, t.holder) / Account(t.from_exchange, t.from_holder) / Account(t.to_exchange, t.to_holder);
    aliases of the loop variable (`in_transaction: InTransaction = transaction`) are followed, their names are free;
  * the final construction: the dictionaries are given their ROLE by the field of `Balance` they end up in
    (final_balance, acquired_balance, sent_balance, received_balance), so renaming a dictionary changes nothing and
    swapping two of them in the constructor changes the program; the loop must iterate the items() of the dictionary
    that feeds final_balance, pass account.exchange / account.holder, and the list must be sorted by
    `_balance_sort_key` = f"{exchange}_{holder}".

The Coq side (Model/BalanceGen.v) interprets this program on the balance state of Model/Computed.v and
Proofs/BalanceGenProofs.v proves that it agrees with the hand-written `bal_step` / `balances` all theorems are about.
"""
import ast

from . import gen
from .expr import Unrecognised, find_class, find_method, dotted, Translator

TYPES = """Inductive bal_kind := BK_in | BK_intra | BK_out.
Inductive bal_dict := BD_final | BD_acquired | BD_sent | BD_received.
Inductive bal_side := BA_own | BA_from | BA_to.
Inductive bal_field := BF_crypto_in | BF_crypto_fee | BF_crypto_sent | BF_crypto_received | BF_crypto_out_no_fee
| BF_crypto_out_with_fee | BF_crypto_balance_change | BF_crypto_taxable_amount.
Inductive bal_expr := BE_zero | BE_get (d : bal_dict) (a : bal_side) | BE_field (f : bal_field) | BE_local (n : nat)
| BE_add (x y : bal_expr) | BE_sub (x y : bal_expr).
Inductive bal_stmt := BS_store (d : bal_dict) (a : bal_side) (e : bal_expr) | BS_let (n : nat) (e : bal_expr) | BS_check (e : bal_expr).
Inductive bal_cut_day := BC_local_day | BC_utc_day.
"""

KIND_OF_CLASS = {"InTransaction": "BK_in", "IntraTransaction": "BK_intra", "OutTransaction": "BK_out"}
KIND_OF_SET = {"unfiltered_in_transaction_set": "BK_in", "unfiltered_intra_transaction_set": "BK_intra",
               "unfiltered_out_transaction_set": "BK_out"}
# crypto-valued attributes of the three classes (exact grid values in the model)
FIELDS = {
    "BK_in": {"crypto_in", "crypto_fee", "crypto_balance_change", "crypto_taxable_amount"},
    "BK_intra": {"crypto_sent", "crypto_received", "crypto_fee", "crypto_balance_change", "crypto_taxable_amount"},
    "BK_out": {"crypto_out_no_fee", "crypto_fee", "crypto_out_with_fee", "crypto_balance_change", "crypto_taxable_amount"},
}
SIDES = {("exchange", "holder"): "BA_own", ("from_exchange", "from_holder"): "BA_from", ("to_exchange", "to_holder"): "BA_to"}
SIDES_OF_KIND = {"BK_in": {"BA_own"}, "BK_out": {"BA_own"}, "BK_intra": {"BA_from", "BA_to"}}
ROLE_OF_FIELD = {"final_balance": "BD_final", "acquired_balance": "BD_acquired", "sent_balance": "BD_sent",
                 "received_balance": "BD_received"}
BALANCE_FIELDS = ["configuration", "asset", "exchange", "holder", "final_balance", "acquired_balance", "sent_balance",
                  "received_balance"]


def U(node):
    return ast.unparse(node)


def _name(node):
    return node.id if isinstance(node, ast.Name) else None


def _assign(stmt):
    """x = v / x: T = v  ->  (target node, value node); None otherwise"""
    if isinstance(stmt, ast.Assign) and len(stmt.targets) == 1:
        return stmt.targets[0], stmt.value
    if isinstance(stmt, ast.AnnAssign) and stmt.value is not None:
        return stmt.target, stmt.value
    return None


def _module_fn(tree, name):
    for n in tree.body:
        if isinstance(n, ast.FunctionDef) and n.name == name:
            return n
    raise Unrecognised(f"function {name} not found")


def _single_return(fn):
    body = [s for s in fn.body if not Translator.is_noise(s)]
    if len(body) != 1 or not isinstance(body[0], ast.Return) or body[0].value is None:
        raise Unrecognised(f"{fn.name}: not a single return")
    return body[0].value


def _time_key(tree, fname):
    """the sort key function -> 'local' (returns <arg>.timestamp: an aware datetime, ordered by instant, .date() is the
    local date) or 'utc' (returns <arg>.timestamp.astimezone(timezone.utc): same order, .date() is the UTC date)"""
    fn = _module_fn(tree, fname)
    args = [a.arg for a in fn.args.args]
    if len(args) != 1 or fn.args.vararg or fn.args.kwarg or fn.args.kwonlyargs or fn.args.defaults:
        raise Unrecognised(f"{fname}: signature")
    v = U(_single_return(fn))
    if v == f"{args[0]}.timestamp":
        return "local"
    if v == f"{args[0]}.timestamp.astimezone(timezone.utc)":
        return "utc"
    raise Unrecognised(f"{fname}: returns `{v}`")


def _cut(test, var, to_name, tree):
    """<date of var> > to_date  ->  BC_local_day | BC_utc_day"""
    if not (isinstance(test, ast.Compare) and len(test.ops) == 1 and isinstance(test.ops[0], ast.Gt)
            and _name(test.comparators[0]) == to_name):
        raise Unrecognised(f"cut test `{U(test)}`")
    left = test.left
    s = U(left)
    if s == f"{var}.timestamp.date()":
        return "BC_local_day"
    if s == f"{var}.timestamp.astimezone(timezone.utc).date()":
        return "BC_utc_day"
    # <key function>(var).date()
    if (isinstance(left, ast.Call) and not left.args and not left.keywords and isinstance(left.func, ast.Attribute)
            and left.func.attr == "date" and isinstance(left.func.value, ast.Call) and isinstance(left.func.value.func, ast.Name)
            and len(left.func.value.args) == 1 and not left.func.value.keywords and _name(left.func.value.args[0]) == var):
        return {"local": "BC_local_day", "utc": "BC_utc_day"}[_time_key(tree, left.func.value.func.id)]
    raise Unrecognised(f"cut test `{U(test)}`")


class Block:
    """sequential translation of one `if isinstance(transaction, K):` body"""

    def __init__(self, kind, loop_var, dicts, reserved):
        self.kind = kind
        self.aliases = {loop_var}
        self.dicts = dicts          # variable name -> role
        self.accounts = {}          # variable name -> side
        self.locals = {}            # variable name -> index
        self.stored = set()         # (role, side) already assigned in this block
        self.reserved = reserved    # names that may not be used as locals
        self.out = []

    def side_of(self, node):
        n = _name(node)
        if n is None or n not in self.accounts:
            raise Unrecognised(f"`{U(node)}` is not an account variable bound in this block")
        return self.accounts[n]

    def expr(self, node):
        if isinstance(node, ast.Name):
            if node.id == "ZERO":
                return "BE_zero"
            if node.id in self.locals:
                return f"(BE_local {self.locals[node.id]})"
            raise Unrecognised(f"name `{node.id}` in a balance expression")
        if isinstance(node, ast.BinOp) and isinstance(node.op, (ast.Add, ast.Sub)):
            c = "BE_add" if isinstance(node.op, ast.Add) else "BE_sub"
            return f"({c} {self.expr(node.left)} {self.expr(node.right)})"
        if isinstance(node, ast.Attribute) and _name(node.value) in self.aliases:
            if node.attr not in FIELDS[self.kind]:
                raise Unrecognised(f"`{U(node)}`: not a crypto amount of this transaction class")
            return f"(BE_field BF_{node.attr})"
        if (isinstance(node, ast.Call) and isinstance(node.func, ast.Attribute) and node.func.attr == "get"
                and _name(node.func.value) in self.dicts and len(node.args) == 2 and not node.keywords
                and _name(node.args[1]) == "ZERO"):
            return f"(BE_get {self.dicts[node.func.value.id]} {self.side_of(node.args[0])})"
        if isinstance(node, ast.Subscript) and _name(node.value) in self.dicts:
            role, side = self.dicts[node.value.id], self.side_of(node.slice)
            if (role, side) not in self.stored:
                raise Unrecognised(f"`{U(node)}` read before it is assigned in this block (KeyError for a new account)")
            return f"(BE_get {role} {side})"
        raise Unrecognised(f"balance expression `{U(node)}`")

    def check(self, stmt):
        t = stmt.test
        if stmt.orelse or not (isinstance(t, ast.BoolOp) and isinstance(t.op, ast.And) and len(t.values) == 3):
            raise Unrecognised(f"negative-balance test `{U(t)}`")
        if not (len(stmt.body) == 1 and isinstance(stmt.body[0], ast.Raise) and isinstance(stmt.body[0].exc, ast.Call)
                and _name(stmt.body[0].exc.func) == "RP2ValueError"):
            raise Unrecognised("negative-balance test does not raise RP2ValueError")
        near, neg, allow = None, None, False
        for v in t.values:
            if isinstance(v, ast.UnaryOp) and isinstance(v.op, ast.Not):
                o = v.operand
                if U(o) == "configuration.allow_negative_balances":
                    allow = True
                    continue
                if (isinstance(o, ast.Call) and U(o.func) == "RP2Decimal.is_equal_within_precision" and len(o.args) == 3
                        and not o.keywords and _name(o.args[1]) == "ZERO" and _name(o.args[2]) == "CRYPTO_BALANCE_DECIMAL_MASK"):
                    near = self.expr(o.args[0])
                    continue
            if (isinstance(v, ast.Compare) and len(v.ops) == 1 and isinstance(v.ops[0], ast.Lt)
                    and _name(v.comparators[0]) == "ZERO"):
                neg = self.expr(v.left)
                continue
            raise Unrecognised(f"negative-balance test: conjunct `{U(v)}`")
        if not allow or near is None or neg is None or near != neg:
            raise Unrecognised(f"negative-balance test `{U(t)}`")
        self.out.append(f"BS_check {near}")

    def stmt(self, s):
        if Translator.is_noise(s):
            return
        if isinstance(s, ast.AnnAssign) and s.value is None and isinstance(s.target, ast.Name):
            return                                   # bare annotation
        if isinstance(s, ast.If):
            return self.check(s)
        a = _assign(s)
        if a is None:
            raise Unrecognised(f"statement `{U(s)[:80]}`")
        tgt, val = a
        if isinstance(tgt, ast.Subscript):
            if _name(tgt.value) not in self.dicts:
                raise Unrecognised(f"store to `{U(tgt)}`")
            role, side = self.dicts[tgt.value.id], self.side_of(tgt.slice)
            self.out.append(f"BS_store {role} {side} {self.expr(val)}")
            self.stored.add((role, side))
            return
        n = _name(tgt)
        if n is None or n in self.dicts or n in self.reserved:
            raise Unrecognised(f"assignment to `{U(tgt)}`")
        if _name(val) in self.aliases:                # alias of the loop variable
            if n in self.accounts or n in self.locals:
                raise Unrecognised(f"`{n}` rebound")
            self.aliases.add(n)
            return
        if isinstance(val, ast.Call) and _name(val.func) == "Account":
            parts = list(val.args)
            if val.keywords:
                kw = {k.arg: k.value for k in val.keywords}
                if parts or set(kw) != {"exchange", "holder"}:
                    raise Unrecognised(f"`{U(val)}`")
                parts = [kw["exchange"], kw["holder"]]
            if len(parts) != 2 or not all(isinstance(p, ast.Attribute) and _name(p.value) in self.aliases for p in parts):
                raise Unrecognised(f"`{U(val)}`")
            side = SIDES.get((parts[0].attr, parts[1].attr))
            if side is None or side not in SIDES_OF_KIND[self.kind]:
                raise Unrecognised(f"`{U(val)}`: not an account of this transaction class")
            if n in self.aliases or n in self.locals:
                raise Unrecognised(f"`{n}` rebound")
            self.accounts[n] = side
            # a re-binding of an account variable invalidates nothing: sides are resolved at translation time
            return
        if n in self.aliases or n in self.accounts:
            raise Unrecognised(f"`{n}` rebound")
        e = self.expr(val)
        idx = self.locals.setdefault(n, len(self.locals))
        self.out.append(f"BS_let {idx} {e}")


def _isinstance_blocks(stmts, var):
    """sequence of `if isinstance(var, K): ...` (also as an if/elif chain: the classes are disjoint) -> [(K, body)]"""
    out = []
    for s in stmts:
        if Translator.is_noise(s):
            continue
        while True:
            if not isinstance(s, ast.If):
                raise Unrecognised(f"loop body statement `{U(s)[:80]}`")
            t = s.test
            if not (isinstance(t, ast.Call) and _name(t.func) == "isinstance" and len(t.args) == 2 and not t.keywords
                    and _name(t.args[0]) == var and _name(t.args[1]) in KIND_OF_CLASS):
                raise Unrecognised(f"loop body test `{U(t)}`")
            out.append((KIND_OF_CLASS[t.args[1].id], s.body))
            if not s.orelse:
                break
            if len(s.orelse) == 1 and isinstance(s.orelse[0], ast.If):
                s = s.orelse[0]
                continue
            raise Unrecognised("else branch in the isinstance chain")
    kinds = [k for k, _ in out]
    if len(set(kinds)) != len(kinds):
        raise Unrecognised("two blocks for one transaction class")
    return out


def _check_support(repo, tree):
    """the pieces the program's primitives stand for"""
    r = gen.parse(repo, "rp2_decimal.py")
    m = find_method(find_class(r, "RP2Decimal"), "is_equal_within_precision")
    if [a.arg for a in m.args.args] != ["cls", "first", "second", "precision_mask"]:
        raise Unrecognised("is_equal_within_precision signature")
    if U(_single_return(m)) != "(first - second).quantize(precision_mask) == ZERO":
        raise Unrecognised("is_equal_within_precision body")
    acc = find_class(tree, "Account")
    fields = [s.target.id for s in acc.body if isinstance(s, ast.AnnAssign) and isinstance(s.target, ast.Name)]
    if fields != ["exchange", "holder"] or any(isinstance(s, ast.FunctionDef) for s in acc.body):
        raise Unrecognised("Account is not the plain (exchange, holder) dataclass")
    if not any(U(d) == "dataclass(frozen=True, eq=True)" for d in acc.decorator_list):
        raise Unrecognised("Account decorator")
    bal = find_class(tree, "Balance")
    fields = [s.target.id for s in bal.body if isinstance(s, ast.AnnAssign) and isinstance(s.target, ast.Name)]
    if fields != BALANCE_FIELDS:
        raise Unrecognised("Balance fields")
    if U(_single_return(_module_fn(tree, "_balance_sort_key"))) != "f'{balance.exchange}_{balance.holder}'":
        raise Unrecognised("_balance_sort_key")


def _input_set(node, input_names):
    """<input data>.unfiltered_*_transaction_set -> kind"""
    if isinstance(node, ast.Attribute) and U(node.value) in input_names and node.attr in KIND_OF_SET:
        return KIND_OF_SET[node.attr]
    raise Unrecognised(f"`{U(node)}` is not an unfiltered transaction set of the input data")


def _flatten_add(node):
    if isinstance(node, ast.BinOp) and isinstance(node.op, ast.Add):
        return _flatten_add(node.left) + _flatten_add(node.right)
    return [node]


def frag_balance(repo):
    tree = gen.parse(repo, "balance.py")
    _check_support(repo, tree)
    init = find_method(find_class(tree, "BalanceSet"), "__init__")
    params = [a.arg for a in init.args.args]
    if params != ["self", "configuration", "input_data", "to_date"]:
        raise Unrecognised("BalanceSet.__init__ signature")
    stmts = [s for s in init.body if not Translator.is_noise(s)]

    # ---- the result loop first: it fixes the role of every dictionary
    loops = [s for s in stmts if isinstance(s, ast.For)]
    if len(loops) != 2 or stmts.index(loops[0]) > stmts.index(loops[1]):
        raise Unrecognised("expected the replay loop and the result loop")
    replay, result = loops
    if result.orelse or replay.orelse:
        raise Unrecognised("for/else")
    it = result.iter
    if not (isinstance(it, ast.Call) and isinstance(it.func, ast.Attribute) and it.func.attr == "items" and not it.args
            and isinstance(it.func.value, ast.Name) and isinstance(result.target, ast.Tuple) and len(result.target.elts) == 2
            and all(isinstance(e, ast.Name) for e in result.target.elts)):
        raise Unrecognised("result loop header")
    iter_dict = it.func.value.id
    acct_var, val_var = (e.id for e in result.target.elts)
    body = [s for s in result.body if not Translator.is_noise(s)]
    if len(body) != 2:
        raise Unrecognised("result loop body")
    a = _assign(body[0])
    if a is None or _name(a[0]) is None or not (isinstance(a[1], ast.Call) and _name(a[1].func) == "Balance"):
        raise Unrecognised("result loop: Balance(...)")
    bvar, call = a[0].id, a[1]
    if U(body[1]) != f"self._balances.append({bvar})":
        raise Unrecognised("result loop: append")
    args = dict(zip(BALANCE_FIELDS, call.args))
    for k in call.keywords:
        if k.arg is None or k.arg in args or k.arg not in BALANCE_FIELDS:
            raise Unrecognised("Balance(...) arguments")
        args[k.arg] = k.value
    if len(call.args) > len(BALANCE_FIELDS) or set(args) != set(BALANCE_FIELDS):
        raise Unrecognised("Balance(...) arguments")
    if (U(args["configuration"]) != "configuration" or U(args["asset"]) != "self.__asset"
            or U(args["exchange"]) != f"{acct_var}.exchange" or U(args["holder"]) != f"{acct_var}.holder"):
        raise Unrecognised("Balance(...): configuration / asset / exchange / holder")
    dicts = {}
    for field, role in ROLE_OF_FIELD.items():
        v = args[field]
        if _name(v) == val_var:
            d = iter_dict
        elif (isinstance(v, ast.Call) and isinstance(v.func, ast.Attribute) and v.func.attr == "get" and _name(v.func.value)
              and len(v.args) == 2 and not v.keywords and _name(v.args[0]) == acct_var and _name(v.args[1]) == "ZERO"):
            d = v.func.value.id
        else:
            raise Unrecognised(f"Balance(...): {field} = `{U(v)}`")
        if d in dicts:
            raise Unrecognised(f"dictionary `{d}` feeds two fields of Balance")
        dicts[d] = role
    if dicts.get(iter_dict) != "BD_final":
        raise Unrecognised("the result loop does not iterate the dictionary of final balances")
    tail = stmts[stmts.index(result) + 1:]
    if [U(s) for s in tail] != ["self._balances.sort(key=_balance_sort_key)"]:
        raise Unrecognised("statements after the result loop")
    between = stmts[stmts.index(replay) + 1:stmts.index(result)]
    if between:
        raise Unrecognised("statements between the replay loop and the result loop")

    # ---- preamble, in order
    input_names = {"input_data"}
    lists = {}          # list variable -> [kinds]
    empty = set()
    sorted_var, seq = None, None
    asset_ok = False
    for s in stmts[:stmts.index(replay)]:
        if isinstance(s, ast.Expr) and isinstance(s.value, ast.Call) and U(s.value.func).endswith(".type_check"):
            continue
        if isinstance(s, ast.AnnAssign) and s.value is None and isinstance(s.target, ast.Name):
            continue
        a = _assign(s)
        if a is None:
            raise Unrecognised(f"preamble statement `{U(s)[:80]}`")
        tgt, val = a
        ts, vs = U(tgt), U(val)
        if ts == "self.__input_data" and vs == "InputData.type_check('input_data', input_data)":
            input_names.add("self.__input_data")
            continue
        if (ts == "self.__asset" and isinstance(val, ast.Call) and U(val.func) == "configuration.type_check_asset" and len(val.args) == 2
                and not val.keywords and isinstance(val.args[0], ast.Constant) and isinstance(val.args[0].value, str)
                and U(val.args[1]) == "input_data.asset"):          # the first argument is only a name for error messages
            asset_ok = True
            continue
        if ts == "self._balances" and vs == "[]":
            continue
        n = _name(tgt)
        if n is None:
            raise Unrecognised(f"preamble assignment to `{ts}`")
        if isinstance(val, ast.Dict) and not val.keys:
            if n not in dicts:
                raise Unrecognised(f"dictionary `{n}` does not reach a Balance")
            empty.add(n)
            continue
        if isinstance(val, ast.Call) and _name(val.func) == "list" and len(val.args) == 1 and not val.keywords:
            lists[n] = [_input_set(val.args[0], input_names)]
            continue
        if isinstance(val, ast.BinOp) and isinstance(val.op, ast.Add):
            kinds = []
            for p in _flatten_add(val):
                if _name(p) not in lists:
                    raise Unrecognised(f"concatenation operand `{U(p)}`")
                kinds += lists[p.id]
            lists[n] = kinds
            continue
        if (isinstance(val, ast.Call) and _name(val.func) == "sorted" and len(val.args) == 1 and _name(val.args[0]) in lists
                and len(val.keywords) == 1 and val.keywords[0].arg == "key" and _name(val.keywords[0].value)):
            if _time_key(tree, val.keywords[0].value.id) not in ("local", "utc"):
                raise Unrecognised("sort key")
            seq, sorted_var = lists[val.args[0].id], n
            lists[n] = seq
            continue
        raise Unrecognised(f"preamble statement `{U(s)[:80]}`")
    if not asset_ok:
        raise Unrecognised("asset assignment")
    if set(dicts) != empty:
        raise Unrecognised("a dictionary is not initialised empty before the replay loop")
    if sorted_var is None or _name(replay.iter) != sorted_var or not isinstance(replay.target, ast.Name):
        raise Unrecognised("the replay loop does not iterate the sorted concatenation")
    if len(set(seq)) != len(seq):
        raise Unrecognised("a transaction set is concatenated twice")

    # ---- replay loop
    var = replay.target.id
    body = [s for s in replay.body if not Translator.is_noise(s)]
    cut = "None"
    if body and isinstance(body[0], ast.If) and len(body[0].body) == 1 and isinstance(body[0].body[0], (ast.Break, ast.Continue)):
        if body[0].orelse:
            raise Unrecognised("cut with else")
        day = _cut(body[0].test, var, "to_date", tree)
        cut = f"Some ({day}, {'true' if isinstance(body[0].body[0], ast.Break) else 'false'})"
        body = body[1:]
    reserved = set(params) | set(lists) | {var, "ZERO", "self"}
    prog = []
    for kind, blk in _isinstance_blocks(body, var):
        b = Block(kind, var, dicts, reserved)
        for s in blk:
            b.stmt(s)
        prog.append(f"  ({kind}, [" + ";\n     ".join(b.out) + "])")

    s = TYPES
    s += "(* in_transactions + intra_transactions + out_transactions, then sorted(key=_transaction_time_sort_key): stable, by instant *)\n"
    s += f"Definition gen_bal_concat : list bal_kind := {gen.coq_list(seq)}.\n"
    s += "(* the test at the head of the replay loop: (which date is compared with to_date, true = break / false = continue) *)\n"
    s += f"Definition gen_bal_cut : option (bal_cut_day * bool) := {cut}.\n"
    s += "(* the isinstance blocks of the loop body in source order; dictionaries are named by the Balance field they feed *)\n"
    s += "Definition gen_bal_program : list (bal_kind * list bal_stmt) := [\n" + ";\n".join(prog) + "].\n"
    return s

