"""Translator fragments of layer L6 (whole runs): registered into gen.FRAGMENTS on import.

  inventory (T8)  what is shipped on disk: report templates (plugin/report/data/**: .ods files and
                  .txt links, with the sheet names inside each template's content.xml), translation
                  catalogues (locales/**/messages.mo), report-generator and accounting-method plugin
                  modules in iter_modules order, OUTPUT_FILE names, console scripts of setup.cfg;
  l6_flags        the few facts of rp2_main / the report writers that the control-flow model of a run
                  branches on (which repairs are present, JP date restriction, generator call order);
  imports (T7)    import table of every module under src/rp2 (incl. function-level, conditional and
                  relative imports) and every call site of a dynamic-import / code-execution / process /
                  network / file-modifying facility with the constant prefix of its path argument and
                  the open mode.

Everything is *data* (finite tables); the theorems of C16 / C18 are decided over them by vm_compute."""
import ast
import configparser
import os
import re
import zipfile

from . import gen
from .expr import Unrecognised, find_class, find_method, dotted

COUNTRIES = gen.COUNTRIES
CCON = {"us": "US", "es": "ES", "jp": "JP", "ie": "IE", "generic": "GENERIC"}
MCON = {"fifo": "Fifo", "lifo": "Lifo", "hifo": "Hifo", "lofo": "Lofo"}


def cstr(s):
    """Coq literal of a string as list of code points, with the text in a comment when printable"""
    body = "[" + "; ".join(str(ord(ch)) for ch in s) + "]"
    safe = re.sub(r"[^A-Za-z0-9_ ./:+\-=,<>#\[\]{}']", "?", s)
    return f"({body} (* {safe} *))" if s else "([] : list Z)"


def clist(items, sep="; "):
    return "[" + sep.join(items) + "]"


def cbool(b):
    return "true" if b else "false"


# ============================================================================ T8 inventory
def _iter_modules(repo, pkg_rel):
    """what pkgutil.iter_modules yields for a package directory: sorted names, (name, is_package)"""
    d = os.path.join(repo, "src", "rp2", pkg_rel)
    out = []
    if not os.path.isdir(d):
        return None
    for n in sorted(os.listdir(d)):
        p = os.path.join(d, n)
        if os.path.isdir(p) and os.path.exists(os.path.join(p, "__init__.py")):
            out.append((n, True))
        elif n.endswith(".py") and n != "__init__.py" and n[:-3].isidentifier():
            out.append((n[:-3], False))
    # FileFinder yields in sorted(listdir) order; "x.py" and package "x" cannot coexist here
    return out


def _template_sheets(path):
    with zipfile.ZipFile(path) as z:
        xml = z.read("content.xml").decode("utf-8")
    return re.findall(r'<table:table table:name="([^"]*)"', xml)


def _country_iso(repo, c):
    tree = gen.parse(repo, f"plugin/country/{c}.py")
    cls = [n for n in tree.body if isinstance(n, ast.ClassDef)][0]
    init = find_method(cls, "__init__")
    for n in ast.walk(init):
        if isinstance(n, ast.Call) and ast.unparse(n.func) == "super().__init__" and n.args:
            a = n.args[0]
            if isinstance(a, ast.Constant) and isinstance(a.value, str):
                return a.value
    raise Unrecognised(f"{c}: country iso code")


def _output_file(repo, rel):
    tree = gen.parse(repo, rel)
    cls = find_class(tree, "Generator")
    for n in cls.body:
        tgt = n.target if isinstance(n, ast.AnnAssign) else (n.targets[0] if isinstance(n, ast.Assign) else None)
        if isinstance(tgt, ast.Name) and tgt.id == "OUTPUT_FILE" and isinstance(n.value, ast.Constant):
            return n.value.value
    raise Unrecognised(f"{rel}: OUTPUT_FILE")


def _template_name(repo, rel):
    """first argument of self._get_template_path(...) in Generator.generate, and whether the country is passed"""
    tree = gen.parse(repo, rel)
    cls = find_class(tree, "Generator")
    g = find_method(cls, "generate")
    for n in ast.walk(g):
        if isinstance(n, ast.Call) and ast.unparse(n.func) == "self._get_template_path":
            if len(n.args) == 3 and isinstance(n.args[0], ast.Constant) and ast.unparse(n.args[1]) == "country" \
                    and ast.unparse(n.args[2]) == "generation_language":
                return n.args[0].value
    raise Unrecognised(f"{rel}: _get_template_path call")


def inventory(repo):
    """python-side inventory (also used by the harness to build the option matrix)"""
    inv = {}
    src = os.path.join(repo, "src", "rp2")
    inv["iso"] = {c: _country_iso(repo, c) for c in COUNTRIES}
    # templates
    data = os.path.join(src, "plugin", "report", "data")
    templates = []      # (dir, template name, language, sheets)
    for cdir in sorted(os.listdir(data)):
        p = os.path.join(data, cdir)
        if not os.path.isdir(p) or cdir.startswith("__"):
            continue
        for fn in sorted(os.listdir(p)):
            m = re.fullmatch(r"template_(.+)\.(ods|txt)", fn)
            if not m:
                continue
            stem, kind = m.group(1), m.group(2)
            full = os.path.join(p, fn)
            if kind == "txt":
                if os.path.exists(os.path.join(p, f"template_{stem}.ods")):
                    continue        # the .ods wins
                with open(full, encoding="utf-8") as f:
                    contents = f.read().strip()
                target = os.path.join(data, contents)
                if not contents.endswith(".ods") or not os.path.exists(target):
                    continue        # a dangling link = no template
                full = target
            templates.append((cdir, stem, _template_sheets(full)))
    inv["templates"] = templates
    # locales
    loc = os.path.join(src, "locales")
    inv["locales"] = sorted(n for n in os.listdir(loc) if os.path.exists(os.path.join(loc, n, "LC_MESSAGES", "messages.mo")))
    # plugins
    inv["method_plugins"] = [n for n, is_pkg in _iter_modules(repo, "plugin/accounting_method") if not is_pkg]
    common = [n for n, is_pkg in _iter_modules(repo, "plugin/report") if not is_pkg]
    inv["report_common"] = common
    inv["report_country"] = {}
    for c in COUNTRIES:
        mods = _iter_modules(repo, f"plugin/report/{inv['iso'][c]}")
        inv["report_country"][c] = [n for n, is_pkg in (mods or []) if not is_pkg]
    # generators: module path -> output file / template name
    gens = {}
    for gname, gid in gen.GEN_IDS.items():
        rel = "plugin/report/" + gname.replace(".", "/") + ".py"
        gens[gname] = {"id": gid, "output": _output_file(repo, rel), "template": _template_name(repo, rel),
                       "module": gname.rsplit(".", 1)[-1], "package": gname.rsplit(".", 1)[0] if "." in gname else ""}
    inv["generators"] = gens
    # console scripts
    cp = configparser.ConfigParser()
    cp.read(os.path.join(repo, "setup.cfg"))
    scripts = {}
    for line in cp.get("options.entry_points", "console_scripts", fallback="").splitlines():
        line = line.strip()
        if line:
            k, _, v = line.partition("=")
            scripts[k.strip()] = v.strip()
    inv["scripts"] = scripts
    return inv


def shipped_languages(inv, country, country_generators):
    """languages for which every generator of the country has a template (and a catalogue exists)"""
    iso = inv["iso"][country]
    langs = None
    for g in country_generators:
        t = inv["generators"][g]["template"]
        have = {stem[len(t) + 1:] for d, stem, _ in inv["templates"] if d == iso and stem.startswith(t + "_")}
        langs = have if langs is None else langs & have
    return sorted(l for l in (langs or set()) if l in inv["locales"])


def frag_inventory(repo):
    inv = inventory(repo)
    s = ""
    s += "Definition country_iso (c : country) : list Z :=\n  match c with\n"
    for c in COUNTRIES:
        s += f"  | {CCON[c]} => {cstr(inv['iso'][c])}\n"
    s += "  end.\n"
    s += "Definition meth_name (m : meth) : list Z :=\n  match m with\n"
    for m in gen.METHODS:
        s += f"  | {MCON[m]} => {cstr(m)}\n"
    s += "  end.\n"
    byid = {g["id"]: g for g in inv["generators"].values()}
    ids = ["GOpenPositions", "GFullReport", "GTaxUS", "GTaxJP", "GTaxIE"]
    for fname, key in (("gen_module", "module"), ("gen_template", "template"), ("gen_output_file", "output"), ("gen_package", "package")):
        s += f"Definition {fname} (g : gen_id) : list Z :=\n  match g with\n"
        for i in ids:
            s += f"  | {i} => {cstr(byid[i][key])}\n"
        s += "  end.\n"
    s += "(* (directory under plugin/report/data, template_<name>_<language>, sheet names of its content.xml) *)\n"
    s += "Definition template_inventory : list (list Z * list Z * list (list Z)) :=\n  " + clist(
        [f"({cstr(d)}, {cstr(stem)},\n     {clist([cstr(x) for x in sheets])})" for d, stem, sheets in inv["templates"]], ";\n   ") + ".\n"
    s += "Definition locale_inventory : list (list Z) := " + clist([cstr(x) for x in inv["locales"]]) + ".\n"
    s += "Definition method_plugins : list (list Z) := " + clist([cstr(x) for x in inv["method_plugins"]]) + ".\n"
    s += "(* non-package modules of rp2.plugin.report in iter_modules order *)\n"
    s += "Definition report_plugins_common : list (list Z) := " + clist([cstr(x) for x in inv["report_common"]]) + ".\n"
    s += "Definition report_plugins_country (c : country) : list (list Z) :=\n  match c with\n"
    for c in COUNTRIES:
        s += f"  | {CCON[c]} => {clist([cstr(x) for x in inv['report_country'][c]])}\n"
    s += "  end.\n"
    s += "(* console script -> country whose rp2_entry it calls *)\n"
    items = []
    for k, v in sorted(inv["scripts"].items()):
        m = re.fullmatch(r"rp2\.plugin\.country\.([a-z_]+):rp2_entry", v)
        if m and m.group(1) in CCON:
            items.append(f"({cstr(k)}, {CCON[m.group(1)]})")
    s += "Definition console_scripts : list (list Z * country) := " + clist(items) + ".\n"
    return s


# ============================================================================ l6 flags
def frag_l6_flags(repo):
    # F10: how the single-entry schedule is read in _initialize_output_file
    t = gen.parse(repo, "plugin/report/abstract_ods_generator.py")
    fn = find_method(find_class(t, "AbstractODSGenerator"), "_initialize_output_file")
    src = ast.unparse(fn)
    a = "years_2_accounting_method_names[MIN_DATE.year] if len(years_2_accounting_method_names) == 1 else 'mixed'"
    b = "next(iter(years_2_accounting_method_names.values())) if len(years_2_accounting_method_names) == 1 else 'mixed'"
    uses_1970 = src.count("years_2_accounting_method_names[MIN_DATE.year]")
    if a in src and uses_1970 == 2:
        any_year = False
    elif b in src and uses_1970 == 0:
        any_year = True
    else:
        raise Unrecognised("_initialize_output_file: accounting method name expression")
    if "Path(output_dir_path) / Path(f'{output_file_prefix}{accounting_method}_{output_file_name}')" not in src:
        raise Unrecognised("_initialize_output_file: output file path")
    # F2: summary hyperlink lookup guarded?
    t = gen.parse(repo, "plugin/report/rp2_full_report.py")
    cls = find_class(t, "Generator")
    fn = None
    for n in cls.body:
        if isinstance(n, ast.FunctionDef) and n.name == "__get_hyperlinked_summary_value":
            fn = n
    if fn is None:
        raise Unrecognised("rp2_full_report: __get_hyperlinked_summary_value")
    body = [x for x in fn.body if not (isinstance(x, ast.Expr) and isinstance(x.value, ast.Constant))]
    first = ast.unparse(body[0])
    if first == "row: int = self.__tax_sheet_year_2_row[_AssetAndYear(asset, year)]":
        guarded = False
    else:
        guarded = None
        for x in body:
            if isinstance(x, ast.If) and isinstance(x.test, ast.Compare) and isinstance(x.test.ops[0], ast.NotIn) \
                    and ast.unparse(x.test.comparators[0]) == "self.__tax_sheet_year_2_row" \
                    and len(x.body) == 1 and ast.unparse(x.body[0]) == "return value":
                guarded = True
                break
            if "__tax_sheet_year_2_row[" in ast.unparse(x):
                break
        if guarded is None:
            raise Unrecognised("rp2_full_report: summary link lookup shape")
    # F4: transaction types covered by the sheet maps of the tax reports
    def sheet_types(rel):
        tree = gen.parse(repo, rel)
        val = gen._module_const(tree, "_SHEET_TO_TYPES")
        if not isinstance(val, ast.Dict):
            raise Unrecognised(f"{rel}: _SHEET_TO_TYPES")
        out = []
        for v in val.values:
            if not isinstance(v, ast.Tuple):
                raise Unrecognised(f"{rel}: _SHEET_TO_TYPES value")
            for e in v.elts:
                p = dotted(e)
                if p is None or not p.startswith("TransactionType.") or p.split(".")[1] not in gen.TTYPES:
                    raise Unrecognised(f"{rel}: type in _SHEET_TO_TYPES")
                out.append(p.split(".")[1])
        return sorted(set(out), key=gen.TTYPES.index)
    us_types = sheet_types("plugin/report/us/tax_report_us.py")
    ie_types = sheet_types("plugin/report/ie/tax_report_ie.py")
    # JP: from and to both given -> rejected, as the first statement of generate
    t = gen.parse(repo, "plugin/report/jp/tax_report_jp.py")
    g = find_method(find_class(t, "Generator"), "generate")
    body = [x for x in g.body if not (isinstance(x, ast.Expr) and isinstance(x.value, ast.Constant))]
    jp_rejects = (isinstance(body[0], ast.If) and ast.unparse(body[0].test) == "from_date != MIN_DATE and to_date != MAX_DATE"
                  and isinstance(body[0].body[0], ast.Raise))
    if not jp_rejects and "from_date != MIN_DATE" in ast.unparse(g):
        raise Unrecognised("tax_report_jp: date restriction shape")
    # rp2_main: order of the package paths searched for generators, all assets computed before any generator
    t = gen.parse(repo, "rp2_main.py")
    main = None
    for n in t.body:
        if isinstance(n, ast.FunctionDef) and n.name == "_rp2_main_internal":
            main = n
    if main is None:
        raise Unrecognised("rp2_main: _rp2_main_internal")
    msrc = ast.unparse(main)
    if "package_paths=[REPORT_GENERATOR_PACKAGE, f'{REPORT_GENERATOR_PACKAGE}.{country.country_iso_code}']" not in msrc:
        raise Unrecognised("rp2_main: package_paths")
    i_loop = msrc.find("for asset in assets:")
    i_gen = msrc.find("_find_and_run_report_generators(")
    if not (0 < i_loop < i_gen) or "assets.sort()" not in msrc:
        raise Unrecognised("rp2_main: asset loop / generator call order")
    if "if args.method and configuration.years_2_accounting_method_names:" not in msrc:
        raise Unrecognised("rp2_main: method conflict test")
    s = f"Definition gen_single_schedule_any_year : bool := {cbool(any_year)}.\n"
    s += f"Definition gen_summary_link_guarded : bool := {cbool(guarded)}.\n"
    s += f"Definition gen_jp_rejects_from_and_to : bool := {cbool(jp_rejects)}.\n"
    s += f"Definition tax_us_types : list ttype := {clist(us_types)}.\n"
    s += f"Definition tax_ie_types : list ttype := {clist(ie_types)}.\n"
    return s


# ============================================================================ T7 imports and call sites
WATCH_EXACT = {
    "importlib.import_module": "dynimport", "importlib.__import__": "dynimport", "builtins.__import__": "dynimport",
    "__import__": "dynimport", "builtins.exec": "exec", "builtins.eval": "exec", "builtins.compile": "exec",
    "exec": "exec", "eval": "exec", "compile": "exec", "runpy.run_module": "exec", "runpy.run_path": "exec",
    "open": "open", "builtins.open": "open", "io.open": "open", "os.open": "open", "codecs.open": "open",
    "os.system": "process", "os.popen": "process", "os.fork": "process", "os.forkpty": "process", "os.startfile": "process",
    "os.remove": "fsmod", "os.unlink": "fsmod", "os.rename": "fsmod", "os.replace": "fsmod", "os.mkdir": "fsmod",
    "os.makedirs": "fsmod", "os.rmdir": "fsmod", "os.removedirs": "fsmod", "os.renames": "fsmod", "os.truncate": "fsmod",
    "os.symlink": "fsmod", "os.link": "fsmod", "os.chmod": "fsmod", "os.chown": "fsmod", "os.utime": "fsmod",
    "tempfile.mkstemp": "fsmod", "tempfile.mkdtemp": "fsmod", "tempfile.NamedTemporaryFile": "fsmod",
    "tempfile.TemporaryFile": "fsmod", "tempfile.TemporaryDirectory": "fsmod", "tempfile.SpooledTemporaryFile": "fsmod",
    "logging.FileHandler": "libwrite", "logging.handlers.RotatingFileHandler": "libwrite", "ezodf.newdoc": "libwrite",
    "logging.basicConfig": "libwrite",
}
WATCH_PREFIX = {"subprocess.": "process", "socket.": "network", "shutil.": "fsmod", "os.exec": "process", "os.spawn": "process",
                "os.posix_spawn": "process", "multiprocessing.": "process", "urllib.": "network", "http.": "network",
                "ssl.": "network", "ftplib.": "network", "smtplib.": "network", "requests.": "network", "asyncio.": "network",
                "ctypes.": "process", "webbrowser.": "network", "pty.": "process"}
# attribute calls on objects of unknown type that modify the file system when the receiver is a Path / document
WATCH_ATTR = {"write_text": "fsmod", "write_bytes": "fsmod", "mkdir": "fsmod", "unlink": "fsmod", "rmdir": "fsmod", "rename": "fsmod",
              "touch": "fsmod", "symlink_to": "fsmod", "hardlink_to": "fsmod", "link_to": "fsmod", "chmod": "fsmod",
              "save": "libwrite", "saveas": "libwrite", "backup": "libwrite"}
KIND_CODE = {"dynimport": 1, "exec": 2, "open": 3, "process": 4, "network": 5, "fsmod": 6, "libwrite": 7}


def _py_files(repo):
    root = os.path.join(repo, "src", "rp2")
    out = []
    for dp, dirs, files in os.walk(root):
        dirs[:] = sorted(d for d in dirs if d != "__pycache__")
        for f in sorted(files):
            if f.endswith(".py"):
                out.append(os.path.relpath(os.path.join(dp, f), root))
    return sorted(out)


def _modname(rel):
    parts = ["rp2"] + rel[:-3].split(os.sep)
    if parts[-1] == "__init__":
        parts.pop()
    return ".".join(parts)


class _Consts:
    """module-level string constants of every rp2 module (for resolving names inside f-strings)"""

    def __init__(self, repo, files):
        self.c = {}
        self.trees = {}
        for rel in files:
            with open(os.path.join(repo, "src", "rp2", rel), encoding="utf-8") as f:
                tree = ast.parse(f.read())
            self.trees[rel] = tree
            mod = _modname(rel)
            for n in tree.body:
                tgt, val = None, None
                if isinstance(n, ast.AnnAssign) and isinstance(n.target, ast.Name):
                    tgt, val = n.target.id, n.value
                elif isinstance(n, ast.Assign) and len(n.targets) == 1 and isinstance(n.targets[0], ast.Name):
                    tgt, val = n.targets[0].id, n.value
                if tgt and val is not None:
                    self.c[(mod, tgt)] = val


def _scan_module(rel, tree, consts):
    mod = _modname(rel)
    pkg = mod if rel.endswith("__init__.py") else mod.rsplit(".", 1)[0]
    imports = []           # (imported module dotted, imported name or "")
    alias = {}             # local name -> dotted origin
    for n in ast.walk(tree):
        if isinstance(n, ast.Import):
            for a in n.names:
                imports.append((a.name, ""))
                if a.asname:
                    alias[a.asname] = a.name
                else:
                    alias[a.name.split(".")[0]] = a.name.split(".")[0]
        elif isinstance(n, ast.ImportFrom):
            base = n.module or ""
            if n.level:
                up = pkg.split(".")
                up = up[:len(up) - (n.level - 1)]
                base = ".".join(up + ([n.module] if n.module else []))
            for a in n.names:
                imports.append((base, a.name))
                alias[a.asname or a.name] = base + "." + a.name

    def resolve(node):
        """dotted origin of a callee expression, through the module's import aliases"""
        parts = []
        while isinstance(node, ast.Attribute):
            parts.append(node.attr)
            node = node.value
        if not isinstance(node, ast.Name):
            return None
        head = alias.get(node.id, node.id)
        return ".".join([head] + list(reversed(parts)))

    def const_prefix(node, fn=None, depth=0):
        """(known constant prefix, complete?) of a string-valued expression"""
        if depth > 6 or node is None:
            return "", False
        if isinstance(node, ast.Constant) and isinstance(node.value, str):
            return node.value, True
        if isinstance(node, ast.JoinedStr):
            out = ""
            for v in node.values:
                if isinstance(v, ast.Constant):
                    out += str(v.value)
                elif isinstance(v, ast.FormattedValue) and v.format_spec is None and v.conversion == -1:
                    p, full = const_prefix(v.value, fn, depth + 1)
                    out += p
                    if not full:
                        return out, False
                else:
                    return out, False
            return out, True
        if isinstance(node, ast.BinOp) and isinstance(node.op, ast.Add):
            p, full = const_prefix(node.left, fn, depth + 1)
            if not full:
                return p, False
            q, full2 = const_prefix(node.right, fn, depth + 1)
            return p + q, full2
        if isinstance(node, ast.Call) and ast.unparse(node.func) in ("str", "Path", "pathlib.Path") and len(node.args) == 1:
            return const_prefix(node.args[0], fn, depth + 1)
        if isinstance(node, ast.Name):
            # module-level constant here or in the rp2 module it is imported from
            origin = alias.get(node.id)
            if (mod, node.id) in consts.c and not _assigned_locally(fn, node.id):
                return const_prefix(consts.c[(mod, node.id)], None, depth + 1)
            if origin and "." in origin:
                om, on = origin.rsplit(".", 1)
                if (om, on) in consts.c:
                    return const_prefix(consts.c[(om, on)], None, depth + 1)
            # loop variable over a parameter / iter_modules of an imported package: see dyn_prefix
            return "", False
        return "", False

    sites = []             # dict(kind, callee, func, arg, prefix, full, mode, line)

    def walk(body, func, fn_node):
        for n in body:
            if isinstance(n, (ast.FunctionDef, ast.AsyncFunctionDef)):
                walk(n.body, (func + "." if func else "") + n.name, n)
                for d in n.decorator_list + n.args.defaults + [x for x in n.args.kw_defaults if x]:
                    visit(d, func, fn_node)
                continue
            if isinstance(n, ast.ClassDef):
                walk(n.body, (func + "." if func else "") + n.name, fn_node)
                for d in n.decorator_list + n.bases:
                    visit(d, func, fn_node)
                continue
            visit(n, func, fn_node)

    def visit(node, func, fn_node):
        for n in ast.walk(node):
            if not isinstance(n, ast.Call):
                continue
            callee = resolve(n.func)
            kind = None
            if callee is not None:
                kind = WATCH_EXACT.get(callee)
                if kind is None:
                    for pre, k in WATCH_PREFIX.items():
                        if callee.startswith(pre):
                            kind = k
            recv = None
            if kind is None and isinstance(n.func, ast.Attribute) and n.func.attr in WATCH_ATTR:
                kind = WATCH_ATTR[n.func.attr]
                callee = "." + n.func.attr
                recv = n.func.value
            if kind is None:
                continue
            arg = recv if recv is not None else (n.args[0] if n.args else None)
            if kind == "libwrite" and callee == "ezodf.newdoc" and len(n.args) >= 2:
                arg = n.args[1]
            prefix, full = const_prefix(arg, fn_node)
            if kind == "dynimport" and not prefix:
                prefix = dyn_prefix(arg, fn_node, func)
            mode = ""
            if kind == "open":
                m = n.args[1] if len(n.args) > 1 else None
                for kw in n.keywords:
                    if kw.arg == "mode":
                        m = kw.value
                if m is None:
                    mode = "r"
                elif isinstance(m, ast.Constant) and isinstance(m.value, str):
                    mode = m.value
                else:
                    mode = "?"
                if callee == "os.open":
                    mode = "?"
            sites.append({"kind": kind, "callee": callee, "func": func or "<module>", "arg": ast.unparse(arg) if arg is not None else "",
                          "prefix": prefix, "mode": mode, "line": n.lineno})

    def dyn_prefix(arg, fn_node, func):
        """constant prefix of a dynamic-import argument that is a plain name:
        (a) loop variable over a parameter whose value at every call site in this module is a list of
            strings with known prefixes; (b) name yielded by iter_modules(P.__path__, P.__name__ + '.')
            where P = import_module(X): the prefix of X (contract of pkgutil.iter_modules)."""
        if not isinstance(arg, ast.Name) or fn_node is None:
            return ""
        name = arg.id
        for n in ast.walk(fn_node):
            if not isinstance(n, ast.For):
                continue
            tnames = [x.id for x in ast.walk(n.target) if isinstance(x, ast.Name)]
            if name not in tnames:
                continue
            it = n.iter
            # (b)
            if isinstance(it, ast.Call) and resolve(it.func) in ("pkgutil.iter_modules",) and len(it.args) == 2:
                a0, a1 = ast.unparse(it.args[0]), ast.unparse(it.args[1])
                m = re.fullmatch(r"(\w+)\.__path__", a0)
                if m and a1 == f"{m.group(1)}.__name__ + '.'":
                    pvar = m.group(1)
                    for k in ast.walk(fn_node):
                        tgt = k.target if isinstance(k, ast.AnnAssign) else (k.targets[0] if isinstance(k, ast.Assign) and len(k.targets) == 1 else None)
                        if isinstance(tgt, ast.Name) and tgt.id == pvar and isinstance(k.value, ast.Call) \
                                and resolve(k.value.func) == "importlib.import_module" and k.value.args:
                            p, _ = const_prefix(k.value.args[0], fn_node)
                            return p or dyn_prefix(k.value.args[0], fn_node, func)
                return ""
            # (a)
            if isinstance(it, ast.Name) and it.id in [a.arg for a in fn_node.args.args + fn_node.args.kwonlyargs]:
                prefixes = []
                for k in ast.walk(tree):
                    if isinstance(k, ast.Call) and isinstance(k.func, ast.Name) and k.func.id == fn_node.name:
                        val = None
                        for kw in k.keywords:
                            if kw.arg == it.id:
                                val = kw.value
                        if val is None:
                            idx = [a.arg for a in fn_node.args.args].index(it.id) if it.id in [a.arg for a in fn_node.args.args] else None
                            if idx is not None and idx < len(k.args):
                                val = k.args[idx]
                        if not isinstance(val, (ast.List, ast.Tuple)):
                            return ""
                        for e in val.elts:
                            # the enclosing function of the call site may define nothing we need: module constants only
                            p, _ = const_prefix(e, None)
                            prefixes.append(p)
                if not prefixes:
                    return ""
                return os.path.commonprefix(prefixes)
        return ""

    walk(tree.body, "", None)
    return imports, sites


def _assigned_locally(fn, name):
    if fn is None:
        return False
    for n in ast.walk(fn):
        if isinstance(n, ast.Name) and n.id == name and isinstance(n.ctx, ast.Store):
            return True
        if isinstance(n, ast.arg) and n.arg == name:
            return True
    return False


def scan_imports(repo):
    files = _py_files(repo)
    consts = _Consts(repo, files)
    table = {}
    for rel in files:
        table[rel] = _scan_module(rel, consts.trees[rel], consts)
    return table


def frag_imports(repo):
    table = scan_imports(repo)
    s = "(* module (path under src/rp2) -> imported modules (dotted) with the imported name ('' for plain import) *)\n"
    rows = []
    for rel, (imports, _) in table.items():
        seen = []
        for m, nm in imports:
            if (m, nm) not in seen:
                seen.append((m, nm))
        rows.append(f"({cstr(rel)},\n    " + clist([f"({cstr(m)}, {cstr(nm)})" for m, nm in seen], ";\n     ") + ")")
    s += "Definition import_table : list (list Z * list (list Z * list Z)) :=\n  " + clist(rows, ";\n   ") + ".\n"
    s += "(* call sites: (module, kind, callee, constant prefix of the path/module argument, open mode);\n"
    s += "   kind 1 dynamic import, 2 exec/eval/compile, 3 open, 4 process, 5 network, 6 file-system modification, 7 library call that writes *)\n"
    rows = []
    for rel, (_, sites) in table.items():
        for st in sites:
            rows.append(f"({cstr(rel)}, {KIND_CODE[st['kind']]}, {cstr(st['callee'])}, {cstr(st['prefix'])}, {cstr(st['mode'])})"
                        f" (* line {st['line']}, in {st['func']}: {re.sub(r'[^A-Za-z0-9_ ./+=,]', '?', st['arg'])[:60]} *)")
    s += "Definition call_sites : list (list Z * Z * list Z * list Z * list Z) :=\n  " + clist(rows, ";\n   ") + ".\n"
    return s


def frag_policy(repo):
    from . import policy_l6 as P
    s = "(* policy of C18 (harness/translate/policy_l6.py), not derived from the source of rp2 *)\n"
    s += "Definition allowed_toplevel : list (list Z) :=\n  " + clist([cstr(x) for x in P.ALLOWED_TOPLEVEL], ";\n   ") + ".\n"
    s += "Definition denied_toplevel : list (list Z) :=\n  " + clist([cstr(x) for x in P.DENIED_TOPLEVEL], ";\n   ") + ".\n"
    s += "Definition denied_dotted : list (list Z) := " + clist([cstr(x) for x in P.DENIED_DOTTED]) + ".\n"
    s += "Definition denied_names : list (list Z * list Z) :=\n  " + clist([f"({cstr(a)}, {cstr(b)})" for a, b in P.DENIED_NAMES], ";\n   ") + ".\n"
    s += f"Definition s_plugin_prefix : list Z := {cstr(P.PLUGIN_PREFIX)}.\n"
    s += "Definition modelled_write_sites : list (list Z * list Z * list Z) :=\n  " + clist(
        [f"({cstr(m)}, {cstr(c)}, {cstr(p)})" for m, c, p, _ in P.MODELLED_WRITE_SITES], ";\n   ") + ".\n"
    return s


gen.FRAGMENTS.append(("inventory", frag_inventory, None))
gen.FRAGMENTS.append(("l6_flags", frag_l6_flags, None))
gen.FRAGMENTS.append(("imports", frag_imports, None))
gen.FRAGMENTS.append(("policy", frag_policy, None))
