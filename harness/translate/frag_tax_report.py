"""Translator fragment T5/T8 for the US and IE tax-report plugins (property C14).

From `plugin/report/<cc>/tax_report_<cc>.py` (Python ast, fail-closed):
  * `SheetNames` (enum values), `_TEMPLATE_SHEETS_TO_KEEP`, `_SHEET_TO_TYPES` (sheet -> transaction types),
    the comprehension that derives `_TYPE_TO_SHEET` (shape checked; the derivation itself is done in Coq),
  * `HEADER_ROWS`, `MIN_ROWS`, `OUTPUT_FILE`, the template name, the initial value of `row_indexes`
    (first data row), the "sheet is empty" test of the removal loop, the row increment,
  * the `append_rows(...)` sizing expression as a function of (MIN_ROWS, get_transaction_type_count),
  * the per-row column layout: every `_fill_cell(sheet, row_index, COL, EXPR, ...)` of the fraction loop,
    classified as written always / only with an acquired lot / only without, EXPR mapped to a field
    identifier through a closed table of recognised source expressions (incl. the two note f-strings
    and the strftime format);
from the shipped template `plugin/report/data/<cc>/template_tax_report_<cc>_<lang>.ods`:
  * the sheet names inside content.xml (zipfile + regex, no ODS library),
  * per sheet the capacity (rows x columns) and the positions of non-empty cells as ezodf loads them
    (what the generator starts from), the legend row holding "Accounting Method".

Anything that does not have exactly the recognised shape raises Unrecognised -> the accepted text under
accepted/tax_report.v is used and the evidence says fallback (the correspondence stream of C14 still compares
every cell with the implementation).
"""
import ast
import glob
import os
import re
import zipfile

from .expr import Translator, Unrecognised, dotted, find_class, find_method

COUNTRIES = [("us", "US"), ("ie", "IE")]
TTYPES = ["AIRDROP", "BUY", "DONATE", "FEE", "GIFT", "HARDFORK", "INCOME", "INTEREST",
          "LOST", "MINING", "MOVE", "SELL", "STAKING", "WAGES"]

FIELDS_PRELUDE = """Inductive trfield :=
| TF_amount | TF_asset | TF_ev_date | TF_proceeds | TF_blank | TF_gain | TF_txtype | TF_ev_note | TF_ev_uid
| TF_long_short | TF_ev_ts | TF_lot_date | TF_cost | TF_lot_note | TF_lot_uid.
Inductive trdatefmt := DF_mdy | DF_ymd.
Record trtemplate := { tp_name : str; tp_rows : Z; tp_cols : Z; tp_cells : list (Z * Z) }.
Record trtables := {
  tt_plugin : str;                                   (* module name = get_name(): legend sheet is __Legend_<plugin> *)
  tt_sheet_names : list str;                         (* SheetNames values, declaration order *)
  tt_sheet_to_types : list (str * list ttype);       (* _SHEET_TO_TYPES, insertion order *)
  tt_header_rows : Z; tt_min_rows : Z;
  tt_first_row : Z;                                  (* initial value of every row_indexes entry *)
  tt_empty_mark : Z;                                 (* a sheet is removed when its row index equals this *)
  tt_row_step : Z;                                   (* row_indexes[sheet] = row_index + step *)
  tt_append_rows : Z -> Z -> Z;                      (* min_rows -> get_transaction_type_count -> rows appended *)
  tt_cols_always : list (Z * trfield);
  tt_cols_lot : list (Z * trfield);                  (* written when the fraction has an acquired lot *)
  tt_cols_nolot : list (Z * trfield);                (* written otherwise *)
  tt_datefmt : trdatefmt;
  tt_template_name : str; tt_output_file : str;
  tt_template : list trtemplate;                     (* sheets of the shipped template, file order *)
  tt_legend_method_row : option Z;                   (* row of the legend whose first cell is "Accounting Method" *)
  tt_legend_single_by_value : bool }.                (* one-entry schedule: the entry's own method (true) or the entry keyed 1970 (false, KeyError if absent) *)
"""

NOTE_EV = ("f'{current_taxable_event_fraction}/{total_taxable_event_fractions}: {gain_loss.crypto_amount:.8f} of "
           "{gain_loss.taxable_event.crypto_balance_change:.8f} {asset}'")
NOTE_LOT = ("f'{current_acquired_lot_fraction}/{total_acquired_lot_fractions}: {gain_loss.crypto_amount:.8f} of "
            "{gain_loss.acquired_lot.crypto_balance_change:.8f} {asset}'")
TXTYPE = "f'{self._get_table_type_from_transaction(gain_loss.taxable_event)} / {gain_loss.taxable_event.transaction_type.value.upper()}'"
LOCALS_EXPECTED = {
    "gain_loss": "cast(GainLoss, entry)",
    "sheet_type": "gain_loss.taxable_event.transaction_type",
    "sheet": "output_file.sheets[_TYPE_TO_SHEET[sheet_type]]",
    "row_index": "row_indexes[sheet.name]",
    "current_taxable_event_fraction": "gain_loss_set.get_taxable_event_fraction(gain_loss) + 1",
    "total_taxable_event_fractions": "gain_loss_set.get_taxable_event_number_of_fractions(gain_loss.taxable_event)",
    "transaction_type": TXTYPE,
    "taxable_event_note": NOTE_EV,
}
LOCALS_LOT = {
    "current_acquired_lot_fraction": "gain_loss_set.get_acquired_lot_fraction(gain_loss) + 1",
    "total_acquired_lot_fractions": "gain_loss_set.get_acquired_lot_number_of_fractions(gain_loss.acquired_lot)",
    "acquired_lot_note": NOTE_LOT,
}
DATEFMT = {"%m/%d/%Y": "DF_mdy", "%Y/%m/%d": "DF_ymd"}
VALUE_FIELDS = {
    "gain_loss.crypto_amount": "TF_amount",
    "gain_loss.asset": "TF_asset",
    "gain_loss.taxable_event_fiat_amount_with_fee_fraction": "TF_proceeds",
    "''": "TF_blank",
    "gain_loss.fiat_gain": "TF_gain",
    "transaction_type": "TF_txtype",
    "taxable_event_note": "TF_ev_note",
    "gain_loss.taxable_event.unique_id": "TF_ev_uid",
    "'LONG' if gain_loss.is_long_term_capital_gains() else 'SHORT'": "TF_long_short",
    "gain_loss.taxable_event.timestamp": "TF_ev_ts",
    "gain_loss.fiat_cost_basis": "TF_cost",
    "acquired_lot_note": "TF_lot_note",
    "gain_loss.acquired_lot.unique_id": "TF_lot_uid",
}
LOT_ONLY = {"TF_lot_date", "TF_cost", "TF_lot_note", "TF_lot_uid"}


def strlit(s):
    return "[" + "; ".join(str(ord(ch)) for ch in s) + "]"


def _stmts(body):
    return [s for s in body if not Translator.is_noise(s) and not (isinstance(s, ast.AnnAssign) and s.value is None)]


def _assign(s):
    """-> (target text, value node) for `x = v` / `x: T = v`, else None"""
    if isinstance(s, ast.AnnAssign) and s.value is not None:
        return ast.unparse(s.target), s.value
    if isinstance(s, ast.Assign) and len(s.targets) == 1:
        return ast.unparse(s.targets[0]), s.value
    return None


def _module_value(tree, name):
    for n in tree.body:
        a = _assign(n)
        if a and a[0] == name:
            return a[1]
    raise Unrecognised(f"module constant {name} not found")


def _class_int(cls, name):
    for n in cls.body:
        a = _assign(n)
        if a and a[0] == name:
            v = a[1]
            if isinstance(v, ast.Constant) and isinstance(v.value, int) and not isinstance(v.value, bool):
                return v.value
            raise Unrecognised(f"{name} is not an integer constant")
    raise Unrecognised(f"{name} not found")


def _class_str(cls, name):
    for n in cls.body:
        a = _assign(n)
        if a and a[0] == name:
            v = a[1]
            if isinstance(v, ast.Constant) and isinstance(v.value, str):
                return v.value
            raise Unrecognised(f"{name} is not a string constant")
    raise Unrecognised(f"{name} not found")


def _int_expr(node, env):
    """integer expression over named quantities -> Python int (constants) ; env: dotted name -> int"""
    if isinstance(node, ast.Constant) and isinstance(node.value, int) and not isinstance(node.value, bool):
        return node.value
    p = dotted(node)
    if p in env:
        return env[p]
    if isinstance(node, ast.BinOp) and isinstance(node.op, (ast.Add, ast.Sub, ast.Mult)):
        a, b = _int_expr(node.left, env), _int_expr(node.right, env)
        return a + b if isinstance(node.op, ast.Add) else a - b if isinstance(node.op, ast.Sub) else a * b
    if isinstance(node, ast.UnaryOp) and isinstance(node.op, ast.USub):
        return -_int_expr(node.operand, env)
    raise Unrecognised(f"integer expression {ast.unparse(node)}")


def _coq_int_expr(node, env):
    """integer expression -> Coq term; env: source text -> Coq variable"""
    if isinstance(node, ast.Constant) and isinstance(node.value, int) and not isinstance(node.value, bool):
        return str(node.value) if node.value >= 0 else f"({node.value})"
    txt = ast.unparse(node)
    if txt in env:
        return env[txt]
    if isinstance(node, ast.BinOp) and isinstance(node.op, (ast.Add, ast.Sub, ast.Mult)):
        op = {ast.Add: "+", ast.Sub: "-", ast.Mult: "*"}[type(node.op)]
        return f"({_coq_int_expr(node.left, env)} {op} {_coq_int_expr(node.right, env)})"
    if isinstance(node, ast.UnaryOp) and isinstance(node.op, ast.USub):
        return f"(- {_coq_int_expr(node.operand, env)})"
    raise Unrecognised(f"sizing expression {txt}")


def _sheet_names(tree):
    cls = find_class(tree, "SheetNames")
    if [dotted(b) for b in cls.bases] != ["Enum"]:
        raise Unrecognised("SheetNames is not an Enum")
    out = []
    for n in _stmts(cls.body):
        a = _assign(n)
        if not a or not (isinstance(a[1], ast.Constant) and isinstance(a[1].value, str)) or not a[0].isidentifier():
            raise Unrecognised("SheetNames member")
        out.append((a[0], a[1].value))
    if len({v for _, v in out}) != len(out) or len({k for k, _ in out}) != len(out):
        raise Unrecognised("SheetNames has aliases")
    return out


def _sheet_to_types(tree, names):
    v = _module_value(tree, "_SHEET_TO_TYPES")
    if not isinstance(v, ast.Dict):
        raise Unrecognised("_SHEET_TO_TYPES is not a dict display")
    member = dict(names)
    out = []
    for k, val in zip(v.keys, v.values):
        p = dotted(k) if k is not None else None
        if not p or not p.startswith("SheetNames.") or not p.endswith(".value") or p.split(".")[1] not in member:
            raise Unrecognised("_SHEET_TO_TYPES key")
        if not isinstance(val, ast.Tuple):
            raise Unrecognised("_SHEET_TO_TYPES value is not a tuple")
        tys = []
        for e in val.elts:
            q = dotted(e)
            if not q or not q.startswith("TransactionType.") or q.split(".")[1] not in TTYPES:
                raise Unrecognised("_SHEET_TO_TYPES element")
            tys.append(q.split(".")[1])
        out.append((member[p.split(".")[1]], tys))
    if len({k for k, _ in out}) != len(out):
        raise Unrecognised("_SHEET_TO_TYPES has a repeated key")
    return out


def _check_derived(tree):
    keep = ast.unparse(_module_value(tree, "_TEMPLATE_SHEETS_TO_KEEP"))
    if keep != "{f'__{item.value}' for item in SheetNames}":
        raise Unrecognised("_TEMPLATE_SHEETS_TO_KEEP")
    t2s = ast.unparse(_module_value(tree, "_TYPE_TO_SHEET"))
    if t2s != ("{transaction_type: sheet_name for sheet_name, transaction_types in _SHEET_TO_TYPES.items() "
               "for transaction_type in transaction_types}"):
        raise Unrecognised("_TYPE_TO_SHEET comprehension")


def _generate(cls, cc, consts):
    fn = find_method(cls, "generate")
    body = _stmts(fn.body)
    out = {}
    seen_loop = False
    have = set()
    for s in body:
        a = _assign(s)
        if a and a[0] == "row_indexes":
            if seen_loop:
                raise Unrecognised("row_indexes initialised after the asset loop")
            v = a[1]
            if not (isinstance(v, ast.DictComp) and ast.unparse(v.key) == "sheet_name.value" and len(v.generators) == 1
                    and ast.unparse(v.generators[0].target) == "sheet_name" and ast.unparse(v.generators[0].iter) == "SheetNames"
                    and not v.generators[0].ifs):
                raise Unrecognised("row_indexes initialisation")
            out["first_row"] = _int_expr(v.value, consts)
            have.add("init")
        elif a and a[0] == "template_path":
            v = a[1]
            if not (isinstance(v, ast.Call) and dotted(v.func) == "self._get_template_path" and len(v.args) == 3
                    and isinstance(v.args[0], ast.Constant) and isinstance(v.args[0].value, str)
                    and [ast.unparse(x) for x in v.args[1:]] == ["country", "generation_language"] and not v.keywords):
                raise Unrecognised("template path")
            out["template_name"] = v.args[0].value
            have.add("template")
        elif a and a[0] == "output_file":
            v = a[1]
            if not (isinstance(v, ast.Call) and dotted(v.func) == "self._initialize_output_file" and not v.args):
                raise Unrecognised("_initialize_output_file call")
            kw = {k.arg: ast.unparse(k.value) for k in v.keywords}
            want = {"legend_data": "[]", "output_file_name": "self.OUTPUT_FILE", "template_path": "template_path",
                    "template_sheets_to_keep": "_TEMPLATE_SHEETS_TO_KEEP", "from_date": "from_date", "to_date": "to_date",
                    "years_2_accounting_method_names": "years_2_accounting_method_names"}
            for k, w in want.items():
                if kw.get(k) != w:
                    raise Unrecognised(f"_initialize_output_file argument {k}")
            have.add("init_file")
        elif isinstance(s, ast.For) and ast.unparse(s.iter) == "asset_to_computed_data.items()":
            if ast.unparse(s.target) != "(asset, computed_data)" or s.orelse:
                raise Unrecognised("asset loop target")
            calls = [x for x in _stmts(s.body) if isinstance(x, ast.Expr) and isinstance(x.value, ast.Call)
                     and ast.unparse(x.value.func).endswith("__generate")]
            others = [x for x in _stmts(s.body) if x not in calls]
            if len(calls) != 1 or ast.unparse(calls[0].value) != "self.__generate(output_file, asset, computed_data.gain_loss_set, row_indexes)":
                raise Unrecognised("per-asset __generate call")
            for x in others:       # only argument checks may accompany the call
                t = ast.unparse(x)
                if not (t.startswith("if not isinstance(asset, str):") or t == "ComputedData.type_check('computed_data', computed_data)"):
                    raise Unrecognised("asset loop contains other statements")
            seen_loop = True
            have.add("loop")
        elif isinstance(s, ast.For) and ast.unparse(s.iter) == "output_file.sheets.names()":
            if not seen_loop or ast.unparse(s.target) != "sheet_name":
                raise Unrecognised("removal loop position")
            b = _stmts(s.body)
            if len(b) != 2 or not isinstance(b[0], ast.If) or b[0].orelse or ast.unparse(b[1]) != "index += 1":
                raise Unrecognised("removal loop body")
            t = b[0].test
            if not (isinstance(t, ast.BoolOp) and isinstance(t.op, ast.And) and len(t.values) == 2
                    and ast.unparse(t.values[0]) == "sheet_name != 'Legend'"
                    and isinstance(t.values[1], ast.Compare) and len(t.values[1].ops) == 1 and isinstance(t.values[1].ops[0], ast.Eq)
                    and ast.unparse(t.values[1].left) == "row_indexes[sheet_name]"):
                raise Unrecognised("removal test")
            out["empty_mark"] = _int_expr(t.values[1].comparators[0], consts)
            if [ast.unparse(x) for x in _stmts(b[0].body)] != ["sheet_indexes_to_remove.append(index)"]:
                raise Unrecognised("removal marking")
            have.add("mark")
        elif isinstance(s, ast.For) and ast.unparse(s.iter) == "reversed(sheet_indexes_to_remove)":
            if [ast.unparse(x) for x in _stmts(s.body)] != ["del output_file.sheets[index]"] or "mark" not in have:
                raise Unrecognised("removal of marked sheets")
            have.add("remove")
        elif isinstance(s, ast.Expr) and ast.unparse(s) == "output_file.save()":
            if "remove" not in have:
                raise Unrecognised("save before removal")
            have.add("save")
        elif a and a[0] in ("sheet_indexes_to_remove", "index"):
            if ast.unparse(a[1]) not in ("[]", "0"):
                raise Unrecognised("removal bookkeeping")
        elif isinstance(s, ast.If) and ast.unparse(s).startswith("if not isinstance(asset_to_computed_data, Dict):"):
            pass
        else:
            raise Unrecognised(f"generate: unexpected statement `{ast.unparse(s)[:60]}`")
    missing = {"init", "template", "init_file", "loop", "mark", "remove", "save"} - have
    if missing:
        raise Unrecognised(f"generate: missing {sorted(missing)}")
    return out


def _fill_call(s):
    """`self._fill_cell(sheet, row_index, COL, EXPR, ...)` -> (col, EXPR node) or None"""
    if not (isinstance(s, ast.Expr) and isinstance(s.value, ast.Call) and dotted(s.value.func) == "self._fill_cell"):
        return None
    c = s.value
    if len(c.args) != 4 or [ast.unparse(x) for x in c.args[:2]] != ["sheet", "row_index"]:
        raise Unrecognised("_fill_cell target")
    col = c.args[2]
    if not (isinstance(col, ast.Constant) and isinstance(col.value, int) and not isinstance(col.value, bool) and col.value >= 0):
        raise Unrecognised("_fill_cell column is not a literal")
    if any(k.arg not in ("visual_style", "data_style") for k in c.keywords):
        raise Unrecognised("_fill_cell keyword")          # apply_style etc. do not change the value, but stay closed
    return col.value, c.args[3]


def _field(node, fmts, lot):
    txt = ast.unparse(node)
    if txt in VALUE_FIELDS:
        return VALUE_FIELDS[txt]
    # <x>.timestamp.strftime(FMT)
    if (isinstance(node, ast.Call) and isinstance(node.func, ast.Attribute) and node.func.attr == "strftime" and len(node.args) == 1
            and isinstance(node.args[0], ast.Constant) and node.args[0].value in DATEFMT and not node.keywords):
        who = ast.unparse(node.func.value)
        fmts.add(node.args[0].value)
        if who == "gain_loss.taxable_event.timestamp":
            return "TF_ev_date"
        if who == "gain_loss.acquired_lot.timestamp":
            return "TF_lot_date"
    raise Unrecognised(f"cell value `{txt[:60]}`")


def _fraction_loop(cls, consts):
    fn = find_method(cls, "__generate")
    if [a.arg for a in fn.args.args] != ["self", "output_file", "asset", "gain_loss_set", "row_indexes"]:
        raise Unrecognised("__generate signature")
    body = _stmts(fn.body)
    body = [s for s in body if not (_assign(s) and _assign(s)[0] == "border_suffix")]
    if len(body) != 2 or not all(isinstance(s, ast.For) for s in body):
        raise Unrecognised("__generate: expected the sizing loop and the fraction loop")
    size, loop = body
    # --- sizing loop
    if ast.unparse(size.target) != "sheet" or ast.unparse(size.iter) != "output_file.sheets" or size.orelse:
        raise Unrecognised("sizing loop header")
    sb = _stmts(size.body)
    if len(sb) != 3 or ast.unparse(sb[0]) != "if sheet.name == 'Legend':\n    continue":
        raise Unrecognised("sizing loop: legend test")
    a = _assign(sb[1])
    if not a or a[0] != "sheet_types" or ast.unparse(a[1]) != "_SHEET_TO_TYPES[sheet.name]":
        raise Unrecognised("sizing loop: sheet types lookup")
    inner = sb[2]
    if not (isinstance(inner, ast.For) and ast.unparse(inner.target) == "sheet_type" and ast.unparse(inner.iter) == "sheet_types" and not inner.orelse):
        raise Unrecognised("sizing loop: type loop")
    ib = _stmts(inner.body)
    if not (len(ib) == 1 and isinstance(ib[0], ast.Expr) and isinstance(ib[0].value, ast.Call)
            and dotted(ib[0].value.func) == "sheet.append_rows" and len(ib[0].value.args) == 1 and not ib[0].value.keywords):
        raise Unrecognised("sizing loop: append_rows call")
    append = _coq_int_expr(ib[0].value.args[0], {"self.MIN_ROWS": "min_rows", "Generator.MIN_ROWS": "min_rows",
                                                 "gain_loss_set.get_transaction_type_count(sheet_type)": "count"})
    # --- fraction loop
    if ast.unparse(loop.target) != "entry" or ast.unparse(loop.iter) != "gain_loss_set" or loop.orelse:
        raise Unrecognised("fraction loop header")
    always, lot, nolot, fmts = [], [], [], set()
    seen = {}
    step = None
    for s in _stmts(loop.body):
        a = _assign(s)
        f = _fill_call(s)
        if f:
            if step is not None:
                raise Unrecognised("cell written after the row index was advanced")
            always.append((f[0], _field(f[1], fmts, False)))
        elif a and a[0] == "row_indexes[sheet.name]":
            v = a[1]
            if not (isinstance(v, ast.BinOp) and isinstance(v.op, ast.Add) and ast.unparse(v.left) == "row_index"):
                raise Unrecognised("row index update")
            step = _int_expr(v.right, consts)
        elif a and a[0] in LOCALS_EXPECTED:
            if ast.unparse(a[1]) != LOCALS_EXPECTED[a[0]] or a[0] in seen:
                raise Unrecognised(f"local {a[0]}")
            seen[a[0]] = True
        elif a and a[0] in ("transparent_vs", "taxable_event_note_vs", "acquired_lot_note_vs", "border_suffix"):
            pass                                            # styles are not modelled
        elif isinstance(s, ast.If) and ast.unparse(s.test) == "gain_loss.acquired_lot":
            if lot or nolot:
                raise Unrecognised("second acquired-lot branch")
            lseen = {}
            for x in _stmts(s.body):
                xa, xf = _assign(x), _fill_call(x)
                if xf:
                    lot.append((xf[0], _field(xf[1], fmts, True)))
                elif xa and xa[0] in LOCALS_LOT and ast.unparse(xa[1]) == LOCALS_LOT[xa[0]] and xa[0] not in lseen:
                    lseen[xa[0]] = True
                else:
                    raise Unrecognised(f"acquired-lot branch: `{ast.unparse(x)[:60]}`")
            if set(lseen) != set(LOCALS_LOT):
                raise Unrecognised("acquired-lot branch: locals")
            for x in _stmts(s.orelse):
                xf = _fill_call(x)
                if not xf:
                    raise Unrecognised(f"no-lot branch: `{ast.unparse(x)[:60]}`")
                nolot.append((xf[0], _field(xf[1], fmts, False)))
        else:
            raise Unrecognised(f"fraction loop: unexpected statement `{ast.unparse(s)[:60]}`")
    if set(seen) != set(LOCALS_EXPECTED) or step is None:
        raise Unrecognised("fraction loop: locals / row index update missing")
    if any(f in LOT_ONLY for _, f in always + nolot):
        raise Unrecognised("acquired-lot field used outside the acquired-lot branch")
    if len(fmts) != 1:
        raise Unrecognised("date formats differ between cells")
    return append, always, lot, nolot, DATEFMT[fmts.pop()], step


def _template(repo, cc, name):
    pat = os.path.join(repo, "src", "rp2", "plugin", "report", "data", cc, f"template_{name}_*.ods")
    files = sorted(glob.glob(pat))
    if len(files) != 1:
        raise Unrecognised(f"{cc}: expected exactly one shipped template, found {len(files)}")
    with zipfile.ZipFile(files[0]) as z:
        xml = z.read("content.xml").decode("utf-8")
    names = [n.replace("&amp;", "&").replace("&lt;", "<").replace("&gt;", ">").replace("&quot;", '"').replace("&apos;", "'")
             for n in re.findall(r'<table:table\b[^>]*?\btable:name="([^"]*)"', xml)]
    try:
        import ezodf
    except ImportError as exc:
        raise Unrecognised(f"ezodf not importable: {exc}")
    doc = ezodf.opendoc(files[0])
    sheets = []
    if [sh.name for sh in doc.sheets] != names:
        raise Unrecognised(f"{cc}: sheet names of content.xml and of the loaded template differ")
    legend_row = None
    for sh in doc.sheets:
        nr, nc = sh.nrows(), sh.ncols()
        cells = []
        for r in range(nr):
            for c in range(nc):
                x = sh[r, c]
                if x.formula is not None or x.value not in (None, ""):
                    cells.append((r, c))
        sheets.append((sh.name, nr, nc, cells))
        if sh.name == f"__Legend_{name}":
            for r in range(min(100, nr)):
                if sh[r, 0].value == "Accounting Method":
                    legend_row = r
                    break
    return sheets, legend_row, os.path.basename(files[0])


def _ods_generator(repo):
    """AbstractODSGenerator._initialize_output_file: the statements the model reproduces must be there verbatim;
    returns how the method of a one-entry schedule is obtained (by value / under the key 1970)"""
    with open(os.path.join(repo, "src", "rp2", "plugin", "report", "abstract_ods_generator.py"), encoding="utf-8") as f:
        tree = ast.parse(f.read())
    cls = find_class(tree, "AbstractODSGenerator")
    fn = find_method(cls, "_initialize_output_file")
    src = ast.unparse(fn)
    need = [
        "legend_sheet_name: str = f'__Legend_{cls.get_name()}'",
        "template_sheets_to_keep_with_legend.add(legend_sheet_name)",
        "for sheet_name in output_file.sheets.names():",
        "if sheet_name in template_sheets_to_keep_with_legend:",
        "output_file.sheets[index].name = sheet_name[2:]",
        "elif sheet_name.startswith('__'):",
        "sheet_indexes_to_remove.append(index)",
        "legend_sheet: Any = output_file.sheets[legend_sheet_name[2:]]",
        "cls._fill_page(legend_data, legend_sheet, 0, 0)",
        "for index in range(0, 100):",
        "if legend_sheet[index, 0].value == _('Accounting Method'):",
        "if len(years_2_accounting_method_names) == 1:",
        "old_year = MIN_DATE.year",
        "for year, method in years_2_accounting_method_names.items():",
        "if year - old_year > 1:",
        "accounting_method_by_year.append(f'{old_year}->{year}:{method.upper()}')",
        "accounting_method_by_year.append(f'{year}:{method.upper()}')",
        "cls._fill_cell(legend_sheet, index, 1, ', '.join(accounting_method_by_year), visual_style='transparent')",
        "cls._fill_cell(legend_sheet, index + 1, 1, from_date if from_date != MIN_DATE else 'non-specified', visual_style='transparent')",
        "cls._fill_cell(legend_sheet, index + 2, 1, to_date if to_date != MAX_DATE else 'non-specified', visual_style='transparent')",
        "legend_sheet.name = _('Legend')",
        "for index in reversed(sheet_indexes_to_remove):",
        "del output_file.sheets[index]",
        "return output_file",
    ]
    for n in need:
        if n not in src:
            raise Unrecognised(f"_initialize_output_file: missing `{n[:60]}`")
    if src.count("accounting_method_by_year.append(") != 3:
        raise Unrecognised("_initialize_output_file: method list construction")
    keyed = src.count("years_2_accounting_method_names[MIN_DATE.year]")
    if keyed == 0 and "accounting_method_by_year.append(accounting_method.upper())" in src and \
            ("accounting_method: str = next(iter(years_2_accounting_method_names.values())) "
             "if len(years_2_accounting_method_names) == 1 else 'mixed'") in src:
        by_value = True
    elif keyed == 2 and "accounting_method_by_year.append(years_2_accounting_method_names[MIN_DATE.year].upper())" in src:
        by_value = False
    else:
        raise Unrecognised("_initialize_output_file: single-method lookup shape")
    fc = ast.unparse(find_method(cls, "_fill_cell"))
    for n in ["if isinstance(value, RP2Decimal):", "value = float(value)", "sheet[row_index, column_index].set_value(value)",
              "sheet[row_index, column_index].formula = value"]:
        if n not in fc:
            raise Unrecognised(f"_fill_cell: missing `{n}`")
    return by_value


def _one(repo, cc):
    with open(os.path.join(repo, "src", "rp2", "plugin", "report", cc, f"tax_report_{cc}.py"), encoding="utf-8") as f:
        tree = ast.parse(f.read())
    names = _sheet_names(tree)
    s2t = _sheet_to_types(tree, names)
    _check_derived(tree)
    cls = find_class(tree, "Generator")
    if [dotted(b) for b in cls.bases] != ["AbstractODSGenerator"]:
        raise Unrecognised("Generator base class")
    if sorted(n.name for n in cls.body if isinstance(n, ast.FunctionDef)) != ["__generate", "generate"]:
        raise Unrecognised("Generator has other methods (possible overrides of the ODS helpers)")
    header, min_rows = _class_int(cls, "HEADER_ROWS"), _class_int(cls, "MIN_ROWS")
    consts = {"self.HEADER_ROWS": header, "Generator.HEADER_ROWS": header, "self.MIN_ROWS": min_rows, "Generator.MIN_ROWS": min_rows}
    g = _generate(cls, cc, consts)
    append, always, lot, nolot, fmt, step = _fraction_loop(cls, consts)
    sheets, legend_row, tfile = _template(repo, cc, g["template_name"])

    def cols(l):
        return "[" + "; ".join(f"({c}, {f})" for c, f in l) + "]"
    t = f"Definition tax_tables_{cc} : trtables := {{|\n"
    t += f"  tt_plugin := {strlit('tax_report_' + cc)};\n"
    t += "  tt_sheet_names := [" + ";\n    ".join(f"{strlit(v)} (* {v} *)" for _, v in names) + "];\n"
    t += "  tt_sheet_to_types := [" + ";\n    ".join(f"({strlit(k)}, [{'; '.join(v)}]) (* {k} *)" for k, v in s2t) + "];\n"
    t += f"  tt_header_rows := {header}; tt_min_rows := {min_rows};\n"
    t += f"  tt_first_row := {g['first_row']}; tt_empty_mark := {g['empty_mark']}; tt_row_step := {step};\n"
    t += f"  tt_append_rows := (fun min_rows count => {append});\n"
    t += f"  tt_cols_always := {cols(always)};\n  tt_cols_lot := {cols(lot)};\n  tt_cols_nolot := {cols(nolot)};\n"
    t += f"  tt_datefmt := {fmt};\n"
    t += f"  tt_template_name := {strlit(g['template_name'])}; tt_output_file := {strlit(_class_str(cls, 'OUTPUT_FILE'))};\n"
    t += f"  (* sheets of {tfile} *)\n  tt_template := [\n"
    t += ";\n".join(f"    {{| tp_name := {strlit(n)} (* {n} *); tp_rows := {nr}; tp_cols := {nc};\n"
                    f"       tp_cells := [{'; '.join(f'({r}, {c})' for r, c in cells)}] |}}" for n, nr, nc, cells in sheets)
    t += "];\n"
    t += f"  tt_legend_method_row := {'None' if legend_row is None else f'Some {legend_row}'};\n"
    t += f"  tt_legend_single_by_value := {'true' if _ods_generator(repo) else 'false'} |}}.\n"
    return t


def frag_tax_report(repo):
    return FIELDS_PRELUDE + "".join(_one(repo, cc) for cc, _ in COUNTRIES)

